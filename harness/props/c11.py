"""C11 — SplitIntoBins runs the analysis per cell on exactly that cell's values.

Real code: lena.structures.SplitIntoBins / IterateBins / MapBins (lena/structures/split_into_bins.py) with
get_bin_on_value, init_bins, iter_bins_with_edges (hist_functions.py) and md_map (lena/math/meshes.py).
Model: lean/LenaModel/Model/C11.lean (generic in the analysis), Model/C11Conc.lean (the concrete analyses
of this check), theorems lean/LenaModel/Props/C11.lean, driver lean/drivers/C11.lean.

Case (JSON):
  {"edges": [i..] | [[i..]..], "seq_ok": b, "argvar_ok": b, "bare_acc": b,
   "argvar": {"kind":"var","name":s,"getter":{"k":"id"}|{"k":"proj","i":n},"type":s,"kw":{..}}
           | {"kind":"combine","vars":[{"name":s,"i":n,"type":s}..],"kw":{..}},
   "spec": {"pre":[S..],"acc":"sum|count|store|sumcount|each|failempty|sumfail","post":[S..]},
   "flow": [{"d":P,"c":{..}|absent}..],
   "iter": null | {"sel":"all|int|none","bare":b,"pre":[value..],"post":[value..]},
   "map":  null | {"steps":[S..],"sel":..,"drop":b,"bare":b,"pre":[value..],"post":[value..]}}
  S = {"k":"scale","x":i} | {"k":"proj","i":n} | {"k":"setkey","key":s,"v":P} | {"k":"dup"} | {"k":"dropodd"}
    | {"k":"failon","x":i} | {"k":"var","name":s,"proj":n|null,"type":s,"kw":{..}}
    | {"k":"count","name":s}   lena.flow.Count(name) as a Run element (stateful; post-elements and MapBins sequences)
    | {"k":"acc","kind":acc}   an accumulator (_Acc) as a Run element (stateful, filled when run() is called; MapBins only)
  P (a Python value) = int | str | {"t":[P..]} (tuple) | {"l":[P..]} (list) | {key:P} (dict; keys are never "t"/"l")
    | {"inf": 1|-1} (float("inf") / float("-inf"): a coordinate outside any edges)
  optional keys (adversary round):
   "edges_form": the containers of the edges (tuple, range, array.array, a user-defined sequence, mixtures);
   "fscale": S (coordinates and edges of the real run are the floats x / S; S = 2**60: arbitrary floats),
   "edges_int": b (integer edges with float coordinates), "inexact": b (the sums the fixture keeps on the side are
   not compared: they are rounded by the real code);
   "shared_ctx": b (the source re-uses ONE context dictionary for all values and updates it in place);
   "sel" of a stage may be a Selector form {"k":"type","t":..} | {"k":"ctx","s":"a.b"} | {"k":"any"|"all","of":[..]}
   (+ "wrap": a ready Selector object); "map": "geb": "first"|"last" (a caller's get_example_bin)

The analysis `FillComputeSeq(*pre, acc, *post)` is built from the fixture elements below (`_CallStep`,
`_MultiStep`, `_Acc`) and lena's own `Variable`; `Model/C11Conc.lean` defines the same elements on the model side.
"""
import copy
import itertools
import random

from harness.common import exc_name

PID = "C11"
TITLE = "SplitIntoBins runs the analysis per cell on exactly that cell's values"
LEAN_MODULES = ["LenaModel.Props.C11", "LenaModel.Props.C11E", "LenaModel.Props.C11S"]
LEAN_SOURCES = ["LenaModel/Model/C11.lean", "LenaModel/Model/C11Spec.lean", "LenaModel/Model/C11Conc.lean",
                "LenaModel/Lemmas/C11.lean", "LenaModel/Props/C11E.lean", "LenaModel/Props/C11S.lean",
                "LenaModel/Props/C11.lean"]
DRIVER = "drivers/C11.lean"
THEOREMS = [
    # sentences 1-4 in one statement; sentence 1
    "Lena.C11.split_into_bins_spec",
    "Lena.C11.cell_is_subflow",
    "Lena.C11.cell_is_halfopen_subflow",
    "Lena.C11.cells_share_nothing",
    "Lena.C11.fill_one",
    "Lena.C11.fill_error_is_cells",
    "Lena.C11.route_inCell",
    "Lena.C11.subflow_halfopen",
    # sentence 2
    "Lena.C11.outside_ignored",
    "Lena.C11.route_outside",
    # sentence 3 (lazy post-elements, then any analysis)
    "Lena.C11.result_shape",
    "Lena.C11.result_count_le",
    "Lena.C11.result_count_stop",
    "Lena.C11.compute_raise",
    "Lena.C11.compute_complete",
    "Lena.C11.result_shapeE",
    "Lena.C11.result_count_leE",
    "Lena.C11.result_count_stopE",
    "Lena.C11.compute_raiseE",
    "Lena.C11.compute_completeE",
    "Lena.C11.computeE_start_error",
    "Lena.C11.mkHistogram_ok",
    # sentence 4
    "Lena.C11.context_is_last_inside",
    "Lena.C11.compute_twice_untyped",
    # sentence 5
    "Lena.C11.iterate_bins_once",
    "Lena.C11.iterate_each_cell_once",
    "Lena.C11.iterate_all_cells",
    "Lena.C11.cell_edges_own",
    "Lena.C11.iterate_bins_count",
    "Lena.C11.iterate_cell_context",
    "Lena.C11.iterate_cell_context_nested",
    "Lena.C11.updateNested_present",
    # sentence 6
    "Lena.C11.map_bins_shape",
    "Lena.C11.map_bins_cells_independent",
    "Lena.C11.map_bins_count_le",
    "Lena.C11.map_bins_start_error",
    "Lena.C11.map_bins_complete",
    "Lena.C11.map_bins_raise",
    # sentences 5, 6: which histograms are selected (select_bins as a Selector form, get_example_bin of the caller)
    "Lena.C11.iterate_bins_once_form",
    "Lena.C11.map_bins_shape_form",
    "Lena.C11.map_bins_shape_G",
    "Lena.C11.map_bins_passes_G",
    "Lena.C11.map_bins_example_irrelevant",
    "Lena.C11.selector_or_iff",
    "Lena.C11.selector_and_iff",
    "Lena.C11.selector_string_needs_context",
    # construction, two-level split
    "Lena.C11.new_valid",
    "Lena.C11.new_rejects_edges",
    "Lena.C11.two_level_cells",
]
# audited too, but not counted as proof obligations of the property: generic machinery, glue between model
# functions, statements that unfold one definition, the Boolean twins of the vocabulary, closed witnesses
AUX_THEOREMS = [
    "Lena.C11.mdMapE_char",
    "Lena.C11.mdSeqMapRun_out",
    "Lena.C11.mdSeqMapRun_stop",
    "Lena.C11.mdSeqMapRun_raise",
    "Lena.C11.compute_context_error",
    "Lena.C11.variable_in_context",
    "Lena.C11.context_frame",
    "Lena.C11.variable_fresh",
    "Lena.C11.iterate_passes",
    "Lena.C11.iterate_passes_unselected",
    "Lena.C11.map_bins_passes",
    "Lena.C11.new_rejects_seq",
    "Lena.C11.new_rejects_argvar",
    "Lena.C11.mkHistogram_nested1_ok",
    "Lena.C11.compute_twice_typed_differs",
    "Lena.C11.analysis_fillAll_eq",
    "Lena.C11.cellToStringOpts_default",
    "Lena.C11.cellToStringOpts_names",
    "Lena.C11.iterateBinsInit_ok_iff",
    "Lena.C11.mapBinsInit_ok_iff",
    "Lena.C11.inRangeB_iff",
    "Lena.C11.pathInB_iff",
    "Lena.C11.lexLtB_iff",
    "Lena.C11.isCellEdgesB_iff",
    "Lena.C11.inCellB_iff",
    "Lena.C11.updateNested_absent",
    "Lena.C11.traces_spec",
    "Lena.C11.mapBinsOneG_default",
    "Lena.C11.mapBinsOneG_selected",
    "Lena.C11.selector_class_data_only",
    "Lena.C11.contains_spec",
    "Lena.C11.lastOfArray_is_cell",
]
TRUSTED = [
    "Lean 4.33.0 kernel; axioms limited to propext, Classical.choice, Quot.sound (audited by #print axioms on every run)",
    "hand transcription of SplitIntoBins.__init__/fill/compute, _MdSeqMap, IterateBins.__init__/run, MapBins.__init__/run, "
    "histogram.__init__ (bins given), get_example_bin, iter_bins_with_edges, cell_to_string (with its keyword arguments) and "
    "update_nested into LenaModel/Model/C11.lean, validated by this correspondence check (cell states, _cur_context, "
    "yielded histograms with edges/bins/context, exception class and position, outputs of IterateBins and MapBins, a "
    "second compute(), on every generated case)",
    "the re-used transcriptions Model/C06.lean (get_bin_on_value, check_edges_increasing, init_bins), Model/NArr.lean "
    "(md_map, get_bin_on_index, itertools.product) and Model/C14.lean (Variable._update_context, get_data_context), "
    "validated by their own checks and again here; the oracle's expectation for context.variable is computed with the "
    "real Variable.__call__ (public; a variable with the identity as getter and the same var_context; what it does to an "
    "existing context.variable is C14's subject)",
    "dictionaries as slot vectors over the key alphabet of the case (DESIGN.md section 2)",
    "VALUE MODEL: copy.deepcopy is the identity, an analysis is a function of its own state, MapBins' sequence a "
    "function of one cell. Hence 'private copy', 'cells share nothing', 'the context as the value arrived' are NOT "
    "theorems about object identity: that no object is shared between two cells, between a cell and the `seq` object "
    "passed in, between _cur_context and a flow value's context, or between yielded contexts is checked by the harness "
    "on the generated cases only (context-mutating elements, stateful sequences, re-use of the analysis and variable "
    "objects for a second SplitIntoBins, a downstream element applied to the objects compute() yields, identity tests "
    "on the contexts yielded by IterateBins/MapBins)",
    "constructor acceptance is decided by the harness, not derived in the model: which `seq` is convertible to a "
    "FillComputeSeq/Sequence (a tuple is not, see Sequence.__init__), which `arg_var` is a Variable, which "
    "create_edges_str is callable, which select_bins a Selector accepts enter the model as Booleans",
    "the fixture elements (_CallStep, _MultiStep, _Acc in harness/props/c11.py = Step, AccKind in Model/C11Conc.lean); "
    "JSON line protocol encoders (harness/props/c11.py, drivers/C11.lean)",
    "the driver searches bins with the guess `ind_min` (C06.bin1d_guess_independent: any in-range guess gives the same "
    "index); what the real code does with its floating-point guess (rounding of large integers, guesses outside the "
    "search range, long arrays) is compared with that on every generated case",
    "lena.flow.Selector / And / Or and lena.context.contains are transcribed for the forms of select_bins (SelForm, "
    "containsV in Model/C11.lean: a callable, a class, a context string, a list, a tuple; no containers inside "
    "containers); the oracle evaluates the same forms with its own Python reference (_sel_ref, _ref_contains)",
    "shared_ctx cases: the analysis starts with a fixture element that deep-copies the value (`snap`), which the model "
    "does not see (the identity in a model of values); float cases: Python's int / 2**k and float * 2**k are exact",
]
ASSUMPTIONS = [
    "an analysis is observed through fill(value), the call compute() (which may raise at once: FillComputeSeq.compute is "
    "evaluated immediately - AnalysisE/SIB.computeE; the theorems about SIB.compute are the case of lazy post-elements) "
    "and the generator it returns; its state is a value",
    "a second compute() on the same object is modelled under the assumption that iterating an analysis' compute() "
    "does not change its state (checked with the stateless post-sequences of the correspondence); fill after compute is "
    "not generated",
    "stateful elements are modelled after the accumulator and in MapBins sequences only (not among the pre-elements): "
    "'private copy per cell' is observed through the state of the accumulator and of stateful post-/map-elements",
    "domain of the correspondence: edges are lists, tuples, ranges, array.array or user-defined sequences (any mixture; "
    "a collections.deque cannot be sliced and is rejected by lena) of integers of any size below 2**101, or of floats "
    "x / S; coordinates are integers/floats, tuples or lists of them; axes have at most 5 bins in the general "
    "cases and 6-129 bins in the long-axis cases, flows at most 14 values (long-axis cases: one in five with 30-400 values), 1-4 dimensions; results in cells are "
    "numbers, tuples, (data, context) pairs or histograms, never Python lists (md_map would descend into them) and never "
    "a bare tuple of the form (x, dict) (lena reads it as a pair); select_bins: functions, classes, context strings, "
    "lists and tuples of them, ready Selector objects; MapBins(get_example_bin=...): the default, a first-cell and a "
    "last-cell function",
    "float cases: the real code computes with the floats, the model with the integers S*x, every float of a result is "
    "mapped back exactly; elements that test `type(data) is int` and mixtures of float sums with integer counts are "
    "excluded there.  S in {2,4,8}: multiples of 1/S with arithmetic analyses.  S = 2**60 (arbitrary floats: decimal "
    "fractions, one unit in the last place / 2**-k / a relative 1e-16..1e-7 beside an edge; 2**-7 <= |x| < 8 or a "
    "multiple of 2**-60) and integer edges with float coordinates: analyses without arithmetic (store, each, count), "
    "because float sums are rounded; integers beyond the float range (float() raises OverflowError in "
    "get_bin_on_value_1d) are outside the domain",
    "a source that re-uses one context dictionary for the whole flow and updates it in place (shared_ctx): the analysis "
    "is assumed to take its own copy of what it keeps (fixture element `snap`); 'the context of the last value inside "
    "the edges as it arrived' is then the content of that dictionary when fill() was called",
    "the values yielded by compute(), IterateBins.run and MapBins.run are read when they are yielded and again after the "
    "generator has ended (a consumer that collects them); both readings must show the per-cell results",
    "a compute() that yields more than 1000 histograms is taken as one that does not end (no analysis of the fixture "
    "yields more than 14 * 2**4 * 2 results in a cell; long flows are generated without `dup`); a fill() that does not "
    "return is caught by the watchdog of harness.common (CASE_TIMEOUT, confirmed by a solitary re-run)",
    "adversary round: all ten candidates (notes/adversary_C11.md) were judged inside the statement and its quantifier; "
    "infinite coordinates (float inf / -inf: values outside any edges) stand for the integers +-2**400 in the model; "
    "not generated (open): nan coordinates, 5 and more dimensions, fill() after compute()",
    "the harness uses the public interface of lena only: the state of a cell (cell_is_subflow) is the state of the "
    "fixture accumulator, which is reached through SplitIntoBins.bins and the iteration over the elements of the cell's "
    "sequence (LenaSequence.__iter__); the oracle's expectation for context.variable is computed with Variable.__call__. "
    "The only private name read is SplitIntoBins._cur_context (context_is_last_inside speaks about it before compute(); "
    "there is no public reader: compute() yields it only with the argument variable applied and only if every cell "
    "yields a result): it is read with getattr; when it is missing (or the accumulator cannot be reached) that "
    "observation is skipped for the case and counted in the evidence notes - never an alarm; the contexts compute() "
    "yields are always compared",
    "cases whose model reply contains `unmodelled` are not compared; they are counted in the evidence notes and the "
    "check fails when they exceed 1% of the cases",
    "seed C11-K (judged inside): 'context.variable describing the argument variable' is read as the argument variable as "
    "it is when the results are computed - a Variable is configured through __setattr__ too (public). Attributes set on "
    "the argument-variable object after the SplitIntoBins was constructed or after the last fill (argvar.late) must be in "
    "the yielded context.variable; the oracle and the model request use the final var_context. Open: a change between "
    "two compute() calls; the inner variable of two-level splits (the cells hold deep copies of it: no claim)",
]
RULE = ("quick and thorough: (E) exhaustive small scope - for 1-d edges [0,2], [0,2,4], [0,1,3] and 2-d edges "
        "[[0,2],[0,2,4]] every flow of length <= 2 (thorough: <= 3 in 1-d) over all integer points from one below to one "
        "above the edges, with the accumulators `store` and `each`, followed by IterateBins; (S) seeded random cases: 1-, 2- "
        "and (rarely) 3- and 4-dimensional edges, infinite coordinates, flows of bare values and (data, context) pairs inside / on the border / outside, "
        "argument variables Variable / typed Variable / Combine, analyses pre* acc post* over 7 accumulator kinds and 9 "
        "element kinds (context-mutating, multiplying, dropping, raising; stateful: lena.flow.Count and accumulators as Run "
        "elements in post-sequences and MapBins sequences), IterateBins and MapBins stages with selectors, "
        "bare histograms and pass-through values; bad constructor arguments; (A, adversary round) select_bins in every "
        "form a Selector is made from (function, class, context string, list, tuple, Selector object), MapBins with a "
        "caller's get_example_bin (first / last cell), edges in tuples, ranges, array.array, user-defined sequences and "
        "mixtures, long axes (6-129 bins, values on the borders; long flows of 30-400 values), large integers (2**31 .. 2**100, edges of very "
        "different sizes on one axis, values one beside an edge, also as floats with integer edges), arbitrary floats "
        "(S = 2**60: decimal fractions, values one ulp / 2**-k / 1e-16..1e-7 beside an edge), a source that re-uses one "
        "context dictionary, every yielded object read again after the generator has ended; (K) attributes of the "
        "argument variable set after the construction / after the last fill (57 deterministic cases, 12 % of the random "
        "ones from a stream of its own). Non-trivial: a histogram "
        "with >= 2 cells was yielded and >= 2 values fell inside the edges.")
CASE_TIMEOUT = 5

FIXED_KEYS = ["variable", "name", "type", "compose", "combine", "dim", "bins", "bin", "edges", "edges_str", "value"]


# ----------------------------------------------------------------------------------------
# JSON <-> Python values, slot vectors

def _py(o):
    """case JSON -> Python value"""
    if isinstance(o, dict):
        if len(o) == 1 and "t" in o:
            return tuple(_py(x) for x in o["t"])
        if len(o) == 1 and "l" in o:
            return [_py(x) for x in o["l"]]
        if len(o) == 1 and "inf" in o:
            return float("inf") if o["inf"] > 0 else float("-inf")
        return {k: _py(v) for k, v in o.items()}
    return o


def _js(o):
    """Python value -> case JSON"""
    if isinstance(o, dict):
        return {k: _js(v) for k, v in o.items()}
    if isinstance(o, tuple):
        return {"t": [_js(x) for x in o]}
    if isinstance(o, list):
        return {"l": [_js(x) for x in o]}
    return o


class _Names:
    def __init__(self, names, fscale=1):
        self.names = names
        self.index = {n: i for i, n in enumerate(names)}
        self.fscale = fscale      # float cases: every float f stands for the integer f * fscale of the model


# an infinite coordinate (a value outside any edges) is, for the model, an integer beyond every edge of the
# correspondence domain (edges < 2**101 at scales up to 2**60)
_INF_MODEL = 2 ** 400


def _unfloat(f, nm):
    x = f * nm.fscale
    if x != int(x):
        raise TypeError(f"float {f!r} is not a multiple of 1/{nm.fscale}")
    return int(x)


def _slots(o, nm):
    """Python value -> model value `V` (a dictionary is its slot vector over the key alphabet)"""
    if isinstance(o, dict):
        for k in o:
            if k not in nm.index:
                # a key outside the alphabet of the case: the real code invented it; no model value equals this
                return {"obj": f"dict with unexpected key {k!r}"}
        return [(_slots(o[k], nm) if k in o else None) for k in nm.names]
    if isinstance(o, tuple):
        return {"t": [_slots(x, nm) for x in o]}
    if isinstance(o, list):
        return {"l": [_slots(x, nm) for x in o]}
    if type(o) is int or isinstance(o, str):
        return o
    if type(o) is float:
        if o in (float("inf"), float("-inf")):
            return _INF_MODEL if o > 0 else -_INF_MODEL
        try:
            return _unfloat(o, nm)
        except TypeError:
            return {"obj": f"float {o!r}"}
    # anything else (None, an object): no model value equals this, the comparison with the reference fails
    return {"obj": type(o).__name__}


def _unslots(j, nm):
    """model value -> Python value"""
    if isinstance(j, list):
        return {nm.names[i]: _unslots(x, nm) for i, x in enumerate(j) if x is not None}
    if isinstance(j, dict):
        if "t" in j:
            return tuple(_unslots(x, nm) for x in j["t"])
        if "obj" in j:
            return "<" + j["obj"] + ">"
        return [_unslots(x, nm) for x in j["l"]]
    return j


def _has_context(v):
    return isinstance(v, tuple) and len(v) == 2 and isinstance(v[1], dict)


def _split(v):
    return (v[0], v[1]) if _has_context(v) else (v, {})


class _HistData(object):
    """a histogram as the data part of a decoded cell (kept in its encoded form)"""

    def __init__(self, j):
        self.j = j


def _is_hist(d):
    from lena.structures import histogram
    return isinstance(d, (histogram, _HistData))


def _enc_hist(h, nm):
    if isinstance(h, _HistData):
        return h.j
    return {"edges": _enc_edges(h.edges, nm), "bins": _enc_bins(h.bins, nm)}


def _enc_value(v, nm):
    d, c = (v[0], v[1]) if _has_context(v) else (v, None)
    if _is_hist(d):              # a cell that holds a histogram
        return {"h": _enc_hist(d, nm), "c": None if c is None else _slots(c, nm)}
    if c is not None:
        return {"d": _slots(d, nm), "c": _slots(c, nm)}
    return {"d": _slots(d, nm)}


def _dec_value(j, nm):
    if "v" in j:
        return _dec_value(j["v"], nm)
    if "h" in j:
        d = _HistData(j["h"])
        return (d, _unslots(j["c"], nm)) if j.get("c") is not None else d
    d = _unslots(j["d"], nm)
    return (d, _unslots(j["c"], nm)) if "c" in j and j["c"] is not None else d


def _scaled(d, S):
    if isinstance(d, tuple):
        return tuple(_scaled(x, S) for x in d)
    return d / S if type(d) is int else d


def _value(j, S=1):
    """a flow value of the case -> Python (in a float case the data are coordinates: divided by S)"""
    d = _py(j["d"])
    if S > 1:
        d = _scaled(d, S)
    return (d, _py(j["c"])) if j.get("c") is not None else d


def _edges_py(edges, S=1, as_int=False):
    """the edges of the real run: in a float case (S > 1) the floats e / S - or, with `as_int`, the integers e // S
    (integer edges with float coordinates)"""
    if S == 1:
        return copy.deepcopy(edges)
    f = (lambda e: e // S) if as_int else (lambda e: e / S)
    if edges and isinstance(edges[0], list):
        return [[f(e) for e in a] for a in edges]
    return [f(e) for e in edges]


def _enc_edges(edges, nm):
    """the edges as nested lists of model numbers, whatever sequences hold them (list, tuple, range, array, ...):
    the property speaks about the values of the edges, not about their container"""
    edges = list(edges)
    enc = lambda e: e * nm.fscale if type(e) is int else _slots(e, nm)     # (an integer edge of a float case)
    if edges and hasattr(edges[0], "__iter__"):
        return [[enc(e) for e in a] for a in edges]
    return [enc(e) for e in edges]


def _stage_value(j):
    """a value of a stage's extra flow: a plain value or a synthetic histogram"""
    if "h" in j:
        from lena.structures import histogram
        h = histogram(copy.deepcopy(j["h"]["edges"]), _bins_py(j["h"]["bins"]))
        return (h, _py(j["c"])) if j.get("c") is not None else h
    return _value(j)


def _bins_py(b):
    if isinstance(b, list):
        return [_bins_py(x) for x in b]
    return _value(b)


def _bins_values(b):
    if isinstance(b, list):
        for x in b:
            for v in _bins_values(x):
                yield v
    else:
        yield b


def _enc_bins(bins, nm, fval=False):
    if isinstance(bins, list):
        return [_enc_bins(b, nm) for b in bins]
    return _enc_value(bins, nm)


def _dec_bins(j, nm):
    if isinstance(j, list):
        return [_dec_bins(b, nm) for b in j]
    return _dec_value(j, nm)


def _strings(o, acc):
    if isinstance(o, dict):
        for k, v in o.items():
            acc.add(k)
            _strings(v, acc)
    elif isinstance(o, (list, tuple)):
        for x in o:
            _strings(x, acc)
    elif isinstance(o, str):
        acc.add(o)


def _step_strings(steps, acc):
    for s in steps:
        if s["k"] == "setkey":
            acc.add(s["key"])
            _strings(_py(s["v"]), acc)
        elif s["k"] == "var":
            _strings(_var_context(s), acc)
        elif s["k"] == "count":
            acc.add(s["name"])


def _names(case):
    """the key alphabet of the case: every string that can become a dictionary key"""
    acc = set(FIXED_KEYS)
    for v in case["flow"]:
        if v.get("c") is not None:
            _strings(_py(v["c"]), acc)
    _step_strings(case["spec"]["pre"] + case["spec"]["post"], acc)
    _strings(_argvar_context(case["argvar"]), acc)
    if case.get("pipe"):
        _step_strings([case["pipe"]], acc)
    inn = case.get("inner")
    if inn:
        _step_strings(inn["spec"]["pre"] + inn["spec"]["post"], acc)
        _strings(_argvar_context(inn["argvar"]), acc)
    for st in ("iter", "map"):
        s = case.get(st)
        if s:
            for v in s["pre"] + s["post"]:
                if v.get("c") is not None:
                    _strings(_py(v["c"]), acc)
                if "h" in v:
                    for b in _bins_values(v["h"]["bins"]):
                        if b.get("c") is not None:
                            _strings(_py(b["c"]), acc)
            if st == "map":
                _step_strings(s["steps"], acc)
            ces = s.get("ces") or {}
            for nme in ces.get("names") or []:
                acc.add(nme)
    return _Names(sorted(acc), case.get("fscale", 1))


# ----------------------------------------------------------------------------------------
# fixture elements (mirrored by Model/C11Conc.lean)

def _getter(spec):
    if spec is not None and spec.get("k") == "list":
        return lambda d: list(d)              # the coordinates as a list instead of a tuple
    if spec is None or spec.get("k") == "id":
        return lambda d: d
    i = spec["i"]
    return lambda d: d[i]


def _make_variable(s):
    from lena.variables import Variable
    g = _getter(None if s.get("proj") is None else {"k": "proj", "i": s["proj"]})
    return Variable(s["name"], g, type=s.get("type", ""), **_py(s.get("kw", {})))


def _var_context(s):
    return copy.deepcopy(_make_variable(s).var_context)


def _make_argvar(a):
    from lena.variables import Variable, Combine
    if a["kind"] == "var":
        return Variable(a["name"], _getter(a["getter"]), type=a.get("type", ""), **_py(a.get("kw", {})))
    vs = [Variable(v["name"], _getter({"k": "proj", "i": v["i"]}), type=v.get("type", "")) for v in a["vars"]]
    return Combine(*vs, **_py(a.get("kw", {})))


def _argvar_late(av, a, when):
    """the attributes of the argument variable that are set AFTER the SplitIntoBins has been constructed
    (`Variable.__setattr__`, public: `x.unit = "cm"`): a["late"] = [[when, name, value]..], when 0 = after the
    construction (before the first fill), 1 = after the last fill (before compute())"""
    for w, name, value in a.get("late", ()):
        if w == when:
            setattr(av, name, _py(value))


def _argvar_context(a):
    """the context of the argument variable AS IT IS WHEN THE RESULTS ARE COMPUTED (all late attributes set)"""
    av = _make_argvar(a)
    _argvar_late(av, a, 0)
    _argvar_late(av, a, 1)
    return copy.deepcopy(av.var_context)


def _argvar_getter_spec(a):
    if a["kind"] == "var":
        return {"k": "id"} if a["getter"].get("k") == "list" else a["getter"]
    return {"k": "comb", "is": [v["i"] for v in a["vars"]]}


class _CallStep(object):
    """scale / proj / setkey / failon: one value in, one value out (or an exception)"""

    def __init__(self, spec):
        self.spec = spec

    def __call__(self, value):
        s = self.spec
        k = s["k"]
        data, ctx = _split(value)
        if k == "scale":
            if type(data) not in (int, float):
                raise TypeError("scale needs a number")
            return (data * s["x"], ctx)
        if k == "proj":
            return (data[s["i"]], ctx)
        if k == "setkey":
            ctx[s["key"]] = _py(copy.deepcopy(s["v"]))   # in place
            return (data, ctx)
        if k == "snap":
            # a private copy of the value: what follows never holds an object of the caller (used when the source
            # re-uses one context object for the whole flow; the identity in a model of values)
            return copy.deepcopy(value)
        if k == "failon":
            if type(data) is int and data == s["x"]:
                raise ValueError("failon")
            return value
        raise AssertionError(k)


class _MultiStep(object):
    """dup / dropodd: one value in, 0..2 values out"""

    def __init__(self, spec):
        self.spec = spec

    def _one(self, value):
        if self.spec["k"] == "dup":
            c = copy.deepcopy(value)        # taken before anybody downstream can change the value
            yield value
            yield c
        else:
            data = _split(value)[0]
            if type(data) is not int:
                raise TypeError("dropodd needs an int")
            if data % 2 == 0:
                yield value

    def run(self, flow):
        for v in flow:
            for r in self._one(v):
                yield r

    def fill_into(self, element, value):
        for r in self._one(value):
            element.fill(r)


def _make_step(s):
    if s["k"] == "var":
        return _make_variable(s)
    if s["k"] == "count":
        import lena.flow
        return lena.flow.Count(s["name"])
    if s["k"] == "acc":
        return _Acc(s["kind"])
    if s["k"] in ("dup", "dropodd"):
        return _MultiStep(s)
    return _CallStep(s)


class _Acc(object):
    """the accumulator: sum, count, the stored values, the context of the last value"""

    def __init__(self, kind):
        self.kind = kind
        self.sum = 0
        self.count = 0
        self.stored = []
        self.context = {}

    def fill(self, value):
        data, ctx = _split(value)
        if type(data) in (int, float):
            x = data
        elif isinstance(data, (tuple, list)):
            x = 0
            for c in data:
                if type(c) not in (int, float):
                    raise TypeError("cannot add")
                x += c
        else:
            raise TypeError("cannot add")
        self.sum += x
        self.count += 1
        self.stored.append(value)
        self.context = ctx

    def compute(self):
        import lena.core
        k = self.kind
        if k == "sum":
            yield (self.sum, copy.deepcopy(self.context))
        elif k == "count":
            yield self.count
        elif k == "store":
            yield (tuple(_split(v)[0] for v in self.stored), copy.deepcopy(self.context))
        elif k == "sumcount":
            yield (self.sum, copy.deepcopy(self.context))
            yield (self.count, copy.deepcopy(self.context))
        elif k == "each":
            for v in self.stored:
                yield copy.deepcopy(v)
        elif k == "failempty":
            if self.count == 0:
                raise lena.core.LenaValueError("nothing was filled")
            yield (self.sum, copy.deepcopy(self.context))
        elif k == "sumfail":
            yield (self.sum, copy.deepcopy(self.context))
            raise RuntimeError("sumfail")
        else:
            raise AssertionError(k)


def _make_cell_analysis(case, bare_acc=False):
    """the analysis that is split: `pre* acc post*`, or for a two-level split
    `FillComputeSeq(SplitIntoBins(inner analysis, inner variable, inner edges), IterateBins(select_bins))`"""
    inn = case.get("inner")
    snap = [_CallStep({"k": "snap"})] if case.get("shared_ctx") else []
    if not inn:
        return _make_analysis(case["spec"], bare_acc, snap)
    import lena.core
    from lena.structures import SplitIntoBins, IterateBins
    isib = SplitIntoBins(_make_analysis(inn["spec"]), _make_argvar(inn["argvar"]),
                         _edges_py(inn["edges"], case.get("fscale", 1)))
    return lena.core.FillComputeSeq(*(snap + [isib, IterateBins(select_bins=_sel_fn(inn["sel"], False))]))


def _make_analysis(spec, bare_acc=False, snap=()):
    import lena.core
    acc = _Acc(spec["acc"])
    if bare_acc and not spec["pre"] and not spec["post"] and not snap:
        return acc
    els = list(snap) + [_make_step(s) for s in spec["pre"]] + [acc] + [_make_step(s) for s in spec["post"]]
    return lena.core.FillComputeSeq(*els)


def _make_ces(cfg):
    """the `create_edges_str` argument of IterateBins"""
    import functools
    from lena.structures import cell_to_string
    k = (cfg or {"k": "default"})["k"]
    if k == "default":
        return None
    if k == "bad":
        return 1
    if k == "const":
        s = cfg["s"]
        return lambda edges, var_context=None: s
    kw = {"coord_fmt": cfg.get("pre", "") + "{}" + cfg.get("mid1", "_lte_") + "{}" + cfg.get("mid2", "_lt_") + "{}"
          + cfg.get("post", ""), "coord_join": cfg.get("join", "_"), "reverse": bool(cfg.get("reverse", False))}
    if cfg.get("names") is not None:
        kw["coord_names"] = list(cfg["names"])
    return functools.partial(cell_to_string, **kw)


def _sel_arg(sel, on_value):
    """the `select_bins` argument.  `sel` is a name (a function: all / int / none; "default": the argument is left out;
    "bad": not convertible to a Selector) or one of the other forms a `lena.flow.Selector` is made from:
      {"k":"type","t":"int|str|tuple|list|hist"}   a class: the data part of the value is an instance of it
      {"k":"ctx","s":"a.b.c"}                      a string: the context of the value contains that (`lena.context.contains`)
      {"k":"any","of":[..]} / {"k":"all","of":[..]} a list (or) / a tuple (and) of names, classes and strings
    with "wrap": true the argument is a ready `Selector` object"""
    if sel == "default":
        return None
    if sel == "bad":
        return 1
    if isinstance(sel, dict):
        arg = _sel_raw(sel, on_value)
        if sel.get("wrap"):
            import lena.flow
            return lena.flow.Selector(arg)
        return arg
    return _sel_fn(sel, on_value)


_SEL_TYPES = {"int": int, "str": str, "tuple": tuple, "list": list}


def _sel_raw(sel, on_value):
    if not isinstance(sel, dict):
        return _sel_fn(sel, on_value)
    k = sel["k"]
    if k == "type":
        if sel["t"] == "hist":
            from lena.structures import histogram
            return histogram
        return _SEL_TYPES[sel["t"]]
    if k == "ctx":
        return sel["s"]
    items = [_sel_raw(x, on_value) for x in sel["of"]]
    return items if k == "any" else tuple(items)


def _ref_contains(ctx, s):
    """reference for a string selector: the context has the nested keys a.b.c, or the value "c" under a.b"""
    if s == "":
        return True
    levels = s.split(".")
    cur = ctx
    for key in levels[:-1]:
        if not isinstance(cur, dict) or key not in cur:
            return False
        cur = cur[key]
    if isinstance(cur, dict):
        return levels[-1] in cur
    if type(cur) in (int, str):
        return str(cur) == levels[-1]
    raise _Undefined("a context value that is neither a number nor a string is compared with a string")


def _sel_ref(sel, on_value):
    """what the selector `sel` says about an example bin (a value; for IterateBins its data part), evaluated
    independently of lena.flow.Selector"""
    if not isinstance(sel, dict):
        return _sel_fn(sel, on_value)
    k = sel["k"]
    if k == "type":
        if sel["t"] == "hist":
            return lambda v: _is_hist(_split(v)[0] if on_value else v)
        cls = _SEL_TYPES[sel["t"]]
        return lambda v: isinstance(_split(v)[0] if on_value else v, cls) and not _is_hist(v)
    if k == "ctx":
        # IterateBins tests the data part of the example bin: it has no context
        return lambda v: _ref_contains(_split(v)[1] if on_value else {}, sel["s"])
    fs = [_sel_ref(x, on_value) for x in sel["of"]]
    if k == "any":
        return lambda v: any(f(v) for f in fs)
    return lambda v: all(f(v) for f in fs)


def _sel_fn(sel, on_value):
    if sel == "all":
        return lambda v: True
    if sel == "default":                    # the default of IterateBins: bins that hold histograms
        return lambda d: _is_hist(d)
    if sel == "none":
        return lambda v: False
    if on_value:
        return lambda v: type(_split(v)[0]) is int
    return lambda d: type(d) is int


# ----------------------------------------------------------------------------------------
# the real code

def _iter_cells(bins, idx=()):
    if isinstance(bins, list):
        for i, b in enumerate(bins):
            for r in _iter_cells(b, idx + (i,)):
                yield r
    else:
        yield idx, bins


class _Unobservable(Exception):
    """the fixture accumulator of a cell cannot be reached through the public sequence interface: the state of the
    cells is not observed for this case (counted in the evidence notes, never an alarm)"""


def _acc_of(cell):
    """the fixture accumulator of an analysis (for a two-level split: its inner SplitIntoBins), i.e. the FillCompute
    element of the FillComputeSeq.  It is found through the PUBLIC sequence interface of lena.core.LenaSequence
    (iteration over the elements): the fixture analyses have no other fill/compute element before it (`pre` holds
    no `count` / `acc` step), so the first element that is an _Acc or a SplitIntoBins is the one that is filled.
    None if there is none."""
    if isinstance(cell, _Acc):
        return cell
    from lena.structures import SplitIntoBins
    try:
        for el in cell:
            if isinstance(el, (_Acc, SplitIntoBins)):
                return el
    except Exception:
        pass
    return None


def _cur_of(sib, nm):
    """`_cur_context` of a SplitIntoBins is a private attribute without a public reader (compute() yields it only
    after the argument variable has been applied, and only if the cells yield something): it is read if it is there
    and skipped (None) otherwise"""
    cur = getattr(sib, "_cur_context", None)
    return _slots(cur, nm) if isinstance(cur, dict) else None


def _acc_state(a, nm):
    if a is None:
        raise _Unobservable()
    if isinstance(a, _Acc):
        return {"sum": _slots(a.sum, nm), "count": a.count, "stored": [_enc_value(v, nm) for v in a.stored],
                "last": _slots(a.context, nm)}
    # the inner SplitIntoBins of a two-level split (`bins` is a public attribute)
    return {"cells": [[list(i), _acc_state(_acc_of(c), nm)] for i, c in _iter_cells(a.bins)],
            "cur": _cur_of(a, nm)}


def _enc_fval(o, nm):
    from lena.structures import histogram
    data, ctx = (o[0], o[1]) if _has_context(o) else (o, None)
    if _is_hist(data):
        return {"h": _enc_hist(data, nm), "c": None if ctx is None else _slots(ctx, nm)}
    return {"v": _enc_value(o, nm)}


def _containers(o, acc):
    if isinstance(o, dict):
        acc.add(id(o))
        for v in o.values():
            _containers(v, acc)
    elif isinstance(o, list):
        acc.add(id(o))
        for v in o:
            _containers(v, acc)
    elif isinstance(o, tuple):
        for v in o:
            _containers(v, acc)


def _run_stage(el, inputs, nm):
    """run a Run element over `inputs` with an instrumented input iterator: every output is tagged with
    the index of the input value that was pulled last"""
    cur = [None]

    def feed():
        for i, v in enumerate(inputs):
            cur[0] = i
            yield v

    outs, src, fin, fin_src, objs = [], [], None, None, []
    it = el.run(feed())
    while True:
        try:
            o = next(it)
        except StopIteration:
            break
        except Exception as e:
            fin, fin_src = exc_name(e), cur[0]
            break
        outs.append(_enc_fval(o, nm))
        objs.append(o)
        src.append(cur[0])
    # dictionaries / lists shared between the contexts of different outputs
    seen, alias = {}, False
    for k, o in enumerate(objs):
        if _has_context(o):
            ids = set()
            _containers(o[1], ids)
            for i in ids:
                if i in seen and seen[i] != k:
                    alias = True
                seen[i] = k
    # the yielded objects read again after the stage has ended (what a consumer that collects them sees)
    late = [_enc_fval(o, nm) for o in objs]
    return {"out": outs, "fin": fin, "src": src, "fin_src": fin_src, "alias": alias, "late_same": late == outs}


def _example_bin_fn(which):
    """a caller's `get_example_bin` for MapBins: the first or the last cell of a histogram or of an array of bins"""
    k = 0 if which == "first" else -1

    def get_example_bin(struct):
        bins = getattr(struct, "bins", struct)
        while isinstance(bins, list):
            bins = bins[k]
        return bins
    return get_example_bin


def _map_seq_ok(st):
    """is the `seq` argument of MapBins acceptable?  A tuple of elements is not: `MapBins.__init__` hands it to
    `Sequence(seq)`, which (contrary to its docstring) does not unpack a single tuple argument."""
    return bool(st.get("seq_ok", True)) and st.get("seq_form") != "tuple"


def _map_seq(st, steps):
    import lena.core
    if not st.get("seq_ok", True):
        return 1
    if st.get("seq_form") == "tuple":
        return tuple(steps)
    if st.get("seq_form") == "element" and len(steps) == 1:
        return steps[0]                      # a single element: used as it is, or wrapped in a Sequence
    return lena.core.Sequence(*steps)


def _stage_inputs(st, hists):
    pre = [_stage_value(v) for v in st["pre"]]
    post = [_stage_value(v) for v in st["post"]]
    hs = [copy.deepcopy(h) if st.get("bare") else (copy.deepcopy(h), copy.deepcopy(c)) for (h, c) in hists]
    return pre + hs + post


_MAX_HISTS = 1000


def _drain_compute(sib, nm, keep):
    """iterate compute() to its end; every value is encoded when it is yielded; `live` are the yielded objects
    themselves, `hists` deep copies of them"""
    from lena.structures import histogram
    outs, fin, hists, live = [], None, [], []
    gen = sib.compute()
    while True:
        try:
            o = next(gen)
        except StopIteration:
            break
        except Exception as e:
            fin = exc_name(e)
            break
        hist, ctx = o
        if not isinstance(hist, histogram):
            raise AssertionError("compute() did not yield a histogram")
        if len(outs) >= _MAX_HISTS:
            # more histograms than any analysis of the fixture can yield results in one cell (at most 14 values, each
            # doubled by at most four `dup`, twice for `sumcount`): a generator that does not end
            fin = "endless"
            break
        outs.append({"edges": _enc_edges(hist.edges, nm), "bins": _enc_bins(hist.bins, nm), "c": _slots(ctx, nm)})
        live.append(o)
        if keep:
            hists.append(copy.deepcopy((hist, ctx)))
    # the yielded objects read again after the generator has ended (what `list(sib.compute())` holds)
    late = [{"edges": _enc_edges(h.edges, nm), "bins": _enc_bins(h.bins, nm), "c": _slots(c, nm)} for (h, c) in live]
    return {"out": outs, "fin": fin, "late": late}, hists, live


class _UserSeq(object):
    """a user-defined sequence (supports len, indexing with integers and slices, iteration): an axis, or the
    container of the axes"""

    def __init__(self, items):
        self._items = list(items)

    def __len__(self):
        return len(self._items)

    def __getitem__(self, i):
        r = self._items[i]
        return _UserSeq(r) if isinstance(i, slice) else r

    def __iter__(self):
        return iter(self._items)

    def __eq__(self, other):
        try:
            return list(self) == list(other)
        except TypeError:
            return NotImplemented

    def __ne__(self, other):
        r = self.__eq__(other)
        return r if r is NotImplemented else not r

    def __repr__(self):
        return "_UserSeq({!r})".format(self._items)


def _is_range(a):
    return len(a) >= 2 and all(type(x) is int for x in a) and a[1] > a[0] and \
        all(y - x == a[1] - a[0] for x, y in zip(a, a[1:]))


def _axis_as(a, kind):
    """one axis in the container type `kind`"""
    import array
    if kind == "tuple":
        return tuple(a)
    if kind == "range" and _is_range(a):
        return range(a[0], a[-1] + 1, a[1] - a[0])
    if kind == "array" and a and all(type(x) is int and abs(x) < 2 ** 62 for x in a):
        return array.array("q", a)
    if kind == "array" and a and all(type(x) is float for x in a):
        return array.array("d", a)
    if kind == "userseq":
        return _UserSeq(a)
    return list(a)


def _form_edges(edges, form):
    """the same edges as lists (default), tuples, ranges, arrays (array.array), user-defined sequences or a mixture:
    any sequence is an axis for lena, and any sequence of axes the edges of several dimensions"""
    if not form or form == "list":
        return edges
    nested = bool(edges) and isinstance(edges[0], list)
    if not nested:
        if form in ("range", "array", "userseq"):
            return _axis_as(edges, form)
        return tuple(edges)
    if form == "tuple":
        return tuple(tuple(a) for a in edges)
    if form == "list_of_tuples":
        return [tuple(a) for a in edges]
    if form == "tuple_of_lists":
        return tuple(list(a) for a in edges)
    if form == "mixed":                           # every axis in another container
        kinds = ["range", "userseq", "array", "tuple"]
        return [_axis_as(a, kinds[k % len(kinds)]) for k, a in enumerate(edges)]
    if form == "userseq_of_userseq":
        return _UserSeq([_UserSeq(a) for a in edges])
    if form in ("range", "array", "userseq"):
        return [_axis_as(a, form) for a in edges]
    return tuple(list(a) for a in edges)


def _untouched(seq):
    """the analysis object that was handed to SplitIntoBins is still in its initial state"""
    try:
        return _count_in(_acc_state(_acc_of(seq), _Names([]))) == 0
    except Exception:
        return True


def _inplace_set(dst, src):
    """make the dictionary `dst` equal to `src` without replacing the dictionaries inside it that can be kept: a source
    that owns one context and updates it in place, at every level"""
    for k in [k for k in dst if k not in src]:
        del dst[k]
    for k, v in src.items():
        if isinstance(v, dict) and isinstance(dst.get(k), dict):
            _inplace_set(dst[k], v)
        else:
            dst[k] = v


def _inplace_clobber(d):
    """after the last value the source overwrites its context, at every level"""
    for v in list(d.values()):
        if isinstance(v, dict):
            _inplace_clobber(v)
    d.clear()
    d["overwritten"] = "by the source after the last value"


def run_impl(case):
    import lena.core
    from lena.structures import SplitIntoBins, IterateBins, MapBins, histogram
    nm = _names(case)
    S = case.get("fscale", 1)
    form = case.get("edges_form")
    edges = _form_edges(_edges_py(case["edges"], S, case.get("edges_int")), form)
    seq = _make_cell_analysis(case, case.get("bare_acc", False)) if case.get("seq_ok", True) else lena.core.Sequence()
    av = _make_argvar(case["argvar"]) if case.get("argvar_ok", True) else (lambda d: d)
    try:
        sib = SplitIntoBins(seq, av, edges)
    except Exception as e:
        return {"init": exc_name(e)}
    late = case.get("argvar_ok", True) and case["argvar"].get("late")
    if late:
        _argvar_late(av, case["argvar"], 0)     # the variable is decorated after the sequence was assembled
    # shared_ctx: the source of the flow owns ONE context dictionary and updates it in place before it yields the next
    # value (the analysis takes a private copy of every value first, see `snap`)
    shared = {} if case.get("shared_ctx") else None
    for k, j in enumerate(case["flow"]):
        v = _value(j, S)
        if shared is not None and _has_context(v):
            _inplace_set(shared, v[1])
            v = (v[0], shared)
        try:
            sib.fill(v)
        except Exception as e:
            return {"fill": {"at": k, "e": exc_name(e)}}
    if shared is not None:
        _inplace_clobber(shared)
    if late:
        _argvar_late(av, case["argvar"], 1)     # ... or after the flow has been filled, before the results are computed
    res = {}
    # the state of the cells (`cell_is_subflow`): `bins` is public, a cell is a sequence whose elements can be iterated
    # (public), the accumulator is a fixture object of this harness.  `_cur_context` (`context_is_last_inside`) is a
    # private attribute: read if present.  What cannot be reached is not compared (None; counted in the evidence notes)
    try:
        res["cells"] = [[list(idx), _acc_state(_acc_of(cell), nm)] for idx, cell in _iter_cells(sib.bins)]
    except _Unobservable:
        res["cells"] = None
    res["cur"] = _cur_of(sib, nm)
    res["compute"], hists, live = _drain_compute(sib, nm, True)
    res["compute_late"] = res["compute"].pop("late")
    # a second compute() on the same object
    res["compute2"] = _drain_compute(sib, nm, False)[0] if case.get("twice") else None
    if res["compute2"] is not None:
        res["compute2"].pop("late")
    # the object that was passed as `seq` must not be a cell and must not have been filled
    seq_acc = _acc_of(seq)
    res["seq_private"] = not any(cell is seq or (seq_acc is not None and _acc_of(cell) is seq_acc)
                                 for _, cell in _iter_cells(sib.bins)) and _untouched(seq)
    # a second SplitIntoBins built from the SAME analysis object and the SAME argument-variable object
    res["reuse"] = None
    if case.get("reuse"):
        sib2 = SplitIntoBins(seq, av, _form_edges(_edges_py(case["edges"], S, case.get("edges_int")), form))
        for v in [_value(j, S) for j in case["flow"]]:
            sib2.fill(v)
        res["reuse"] = _drain_compute(sib2, nm, False)[0]
        res["reuse"].pop("late")
    # a downstream element applied, one after the other, to the values compute() yielded (the objects themselves)
    res["pipe"] = None
    if case.get("pipe"):
        step, pouts, pfin = _make_step(case["pipe"]), [], None
        for o in live:
            try:
                pouts.append(step(o))
            except Exception as e:
                pfin = exc_name(e)
                break
        res["pipe"] = {"out": [_slots(_split(r)[1], nm) for r in pouts], "fin": pfin}
    # MapBins: the fixture sequences work on numbers and tuples, not on histograms in the cells
    plain = [(h, c) for (h, c) in hists
             if not any(isinstance(_split(b)[0], histogram) for _, b in _iter_cells(h.bins))]
    res["iter"] = res["map"] = None
    st = case.get("iter")
    if st:
        try:
            el = IterateBins(create_edges_str=_make_ces(st.get("ces")), select_bins=_sel_arg(st["sel"], False))
        except Exception as e:
            el, res["iter"] = None, {"init": exc_name(e)}
        if el is not None:
            inputs = _stage_inputs(st, hists)
            enc_in = [_enc_fval(v, nm) for v in inputs]
            r = _run_stage(el, inputs, nm)
            r["in"] = enc_in
            res["iter"] = r
    st = case.get("map")
    if st:
        steps = [_make_step(s) for s in st["steps"]]
        mseq = _map_seq(st, steps)
        try:
            kw = {}
            if st.get("geb") in ("first", "last"):
                kw["get_example_bin"] = _example_bin_fn(st["geb"])
            if st["sel"] != "default":
                kw["select_bins"] = _sel_arg(st["sel"], True)
            el = MapBins(mseq, drop_bins_context=st["drop"], **kw)
        except Exception as e:
            el, res["map"] = None, {"init": exc_name(e)}
        if el is not None:
            inputs = _stage_inputs(st, plain)
            enc_in = [_enc_fval(v, nm) for v in inputs]
            r = _run_stage(el, inputs, nm)
            r["in"] = enc_in
            res["map"] = r
    return res


# ----------------------------------------------------------------------------------------
# the model

def _step_req(s, nm):
    k = s["k"]
    if k == "setkey":
        return {"k": "setkey", "key": nm.index[s["key"]], "v": _slots(_py(s["v"]), nm)}
    if k == "var":
        return {"k": "var", "proj": s.get("proj"), "vc": _slots(_var_context(s), nm)}
    if k == "count":
        return {"k": "count", "key": nm.index[s["name"]]}
    return s


def _entry_req(v, nm):
    if "h" in v:
        return {"h": {"edges": v["h"]["edges"], "bins": _enc_bins(_bins_py(v["h"]["bins"]), nm)},
                "c": None if v.get("c") is None else _slots(_py(v["c"]), nm)}
    return _enc_value(_value(v), nm)


def _sel_req(sel, is_map):
    """the selector as the model sees it (a ready Selector object is the selector it was made from)"""
    if isinstance(sel, dict):
        return {k: ([_sel_req(x, is_map) for x in v] if k == "of" else v) for k, v in sel.items() if k != "wrap"}
    if is_map and sel == "default":
        return "all"                       # select_bins left out: `lambda _: True`
    return sel


def _stage_req(st, nm, steps=False):
    r = {"sel": _sel_req(st["sel"], steps), "bare": bool(st.get("bare")),
         "pre": [_entry_req(v, nm) for v in st["pre"]],
         "post": [_entry_req(v, nm) for v in st["post"]]}
    if steps:
        r["steps"] = [_step_req(s, nm) for s in st["steps"]]
        r["drop"] = bool(st["drop"])
        r["seq_ok"] = _map_seq_ok(st)
        r["geb"] = st.get("geb") or "default"
    else:
        r["ces"] = st.get("ces") or {"k": "default"}
    return r


def _spec_req(spec, nm):
    return {"pre": [_step_req(s, nm) for s in spec["pre"]], "acc": spec["acc"],
            "post": [_step_req(s, nm) for s in spec["post"]]}


def model_requests(case):
    nm = _names(case)
    S = case.get("fscale", 1)
    inn = case.get("inner")
    req = {"op": "case", "names": nm.names, "edges": case["edges"],
           "seq_ok": bool(case.get("seq_ok", True)), "argvar_ok": bool(case.get("argvar_ok", True)),
           "getter": _argvar_getter_spec(case["argvar"]), "vc": _slots(_argvar_context(case["argvar"]), nm),
           "spec": _spec_req(case["spec"], nm),
           "inner": None if not inn else {
               "edges": inn["edges"], "getter": _argvar_getter_spec(inn["argvar"]),
               "vc": _slots(_argvar_context(inn["argvar"]), nm), "spec": _spec_req(inn["spec"], nm),
               "sel": inn["sel"]},
           "twice": bool(case.get("twice")),
           "pipe": _step_req(case["pipe"], nm) if case.get("pipe") else None,
           "flow": [_enc_value(_value(v, S), nm) for v in case["flow"]],
           "iter": _stage_req(case["iter"], nm) if case.get("iter") else None,
           "map": _stage_req(case["map"], nm, True) if case.get("map") else None}
    return [req]


_NOTES = ["cases left to the model's `unmodelled` escape (not compared): 0 of 0"]
_UNMODELLED = [0, 0]


def _count_unmodelled(hit):
    _UNMODELLED[1] += 1
    if hit:
        _UNMODELLED[0] += 1
    _NOTES[0] = f"cases left to the model's `unmodelled` escape (not compared): {_UNMODELLED[0]} of {_UNMODELLED[1]}"
    return _UNMODELLED[0] > max(20, _UNMODELLED[1] // 100)


_SKIPPED = [0, 0, 0]


def _count_skipped(cells, cur):
    """evidence: cases whose cell states could not be reached through the public sequence interface, and cases whose
    private `_cur_context` could not be read (these observations are skipped, everything else is compared)"""
    _SKIPPED[0] += 1
    _SKIPPED[1] += bool(cells)
    _SKIPPED[2] += bool(cur)
    note = (f"observations skipped because they are not reachable on this implementation: cell states in {_SKIPPED[1]}, "
            f"private _cur_context in {_SKIPPED[2]} of {_SKIPPED[0]} compared cases")
    if len(_NOTES) < 2:
        _NOTES.append(note)
    else:
        _NOTES[1] = note


def _inner_cur_missing(cells):
    """a two-level split: the state of a cell is {"cells": .., "cur": ..}; is some inner `cur` None?"""
    return any("cells" in st and (st["cur"] is None or _inner_cur_missing(st["cells"])) for _, st in cells or [])


def _drop_inner_cur(cells):
    return [[i, ({"cells": _drop_inner_cur(st["cells"])} if "cells" in st else st)] for i, st in cells]


def _has_unmodelled(o):
    if isinstance(o, dict):
        return any(_has_unmodelled(v) for v in o.values())
    if isinstance(o, list):
        return any(_has_unmodelled(v) for v in o)
    return o == "unmodelled"


def _mask_sums(o):
    if isinstance(o, dict):
        return {k: (None if k == "sum" else _mask_sums(v)) for k, v in o.items()}
    if isinstance(o, list):
        return [_mask_sums(v) for v in o]
    return o


def _strip(st):
    if st is None or "init" in st:
        return st
    return {"out": st["out"], "fin": st["fin"]}


def _ref_cell_or_none(case, v, nested, axes):
    try:
        return _cell_of(_ref_coord(case, _split(v)[0], nested, len(axes)), axes)
    except _Undefined:
        return None


def _compare_spec(case, res, sp, nm):
    """the specification vocabulary of Props/C11.lean (route, subflow, insideFlow, ctxAfter, lexicographic order,
    PathIn, InCell, IsCellEdges, NotNested1, cellAt, cellOutput) evaluated by the driver, against an independent
    Python reference (half-open interval test, itertools.product)"""
    S = case.get("fscale", 1)
    axes, nested = _axes(case["edges"])           # the integer (scaled) edges, as the model sees them
    dims = [len(a) - 1 for a in axes]
    paths = [list(p) for p in itertools.product(*[range(d) for d in dims])]
    vals = [_value(j) for j in case["flow"]]      # unscaled: integers, like the model's
    cells = [_ref_cell_or_none(case, v, nested, axes) for v in vals]
    enc = [_enc_value(v, nm) for v in vals]
    if sp["paths"] != paths:
        return f"binIndices {sp['paths']} differ from itertools.product {paths}"
    for k in ("lex", "pathin", "cellat"):
        if sp[k] is not True:
            return f"spec check {k} is {sp[k]}"
    want = [{"p": None if c is None else list(c)} for c in cells]
    if sp["route"] != want:
        return f"route {sp['route']} differs from the half-open reference {want}"
    want = [[enc[i] for i, c in enumerate(cells) if c is not None and list(c) == p] for p in paths]
    if sp["sub"] != want:
        return f"subflow {sp['sub']} differs from the reference {want}"
    want = [enc[i] for i, c in enumerate(cells) if c is not None]
    if sp["inside"] != want:
        return f"insideFlow differs from the reference"
    last = [v for v, c in zip(vals, cells) if c is not None]
    want = _slots(_split(last[-1])[1] if last else {}, nm)
    if sp["ctxafter"] != want:
        return f"ctxAfter {sp['ctxafter']} differs from the context of the last inside value {want}"
    want = [([] if c is None else [list(c)]) for c in cells]
    if sp["incell"] != want:
        return f"inCellB {sp['incell']} differs from the reference {want}"
    want = [{"ok": True, "ce": [[axes[k][i], axes[k][i + 1]] for k, i in enumerate(p)]} for p in paths]
    if sp["celledges"] != want:
        return f"cellEdges / isCellEdgesB {sp['celledges']} differ from the reference {want}"
    return None


def compare(case, res, replies):
    if "__timeout__" in res:
        # the watchdog of harness.common ended the real run (reported through the oracle channel): nothing to compare
        return None
    m = replies[0]
    if "err" in m:
        return f"model driver error: {m['err']}"
    if _count_unmodelled(_has_unmodelled(m)):
        return "too many cases leave the modelled domain (`unmodelled` in the model's reply): " + _NOTES[0]
    if _has_unmodelled(m):
        return None          # the case left the modelled domain (counted in the evidence notes)
    if "init" in res or "init" in m:
        return None if res.get("init") == m.get("init") else f"__init__: impl {res.get('init')} vs model {m.get('init')}"
    if "fill" in res or "fill" in m:
        return None if res.get("fill") == m.get("fill") else f"fill: impl {res.get('fill')} vs model {m.get('fill')}"
    if case.get("inexact") and res.get("cells") is not None:
        # floats that are not multiples of a small unit: the sums the fixture accumulators keep on the side are
        # rounded by the real code (the analyses of these cases never yield them)
        res = dict(res, cells=_mask_sums(res["cells"]))
        m = dict(m, cells=_mask_sums(m["cells"]))
    _count_skipped(res["cells"] is None, res["cur"] is None or _inner_cur_missing(res["cells"]))
    if _inner_cur_missing(res["cells"]):
        # the private `_cur_context` of the inner SplitIntoBins objects could not be read: not compared
        res = dict(res, cells=_drop_inner_cur(res["cells"]))
        m = dict(m, cells=_drop_inner_cur(m["cells"]))
    for k in ("cells", "cur", "compute", "compute2", "pipe"):
        if k in ("cells", "cur") and res[k] is None:
            continue                       # not reachable (cells) / private attribute not found (cur): not compared
        if res[k] != m[k]:
            return f"{k}: impl {str(res[k])[:700]} vs model {str(m[k])[:700]}"
    if res.get("reuse") is not None and res["reuse"] != m["compute"]:
        return f"second SplitIntoBins with the same variable object: impl {str(res['reuse'])[:700]} vs model {str(m['compute'])[:700]}"
    mi = m["iter"]
    if mi is not None and "once" in mi:
        if mi["once"] is not True:
            return "iterateBinsOne differs from traceMapM cellOutput over the cells (iterate_bins_once)"
        mi = {"out": mi["out"], "fin": mi["fin"]}
    if _strip(res["iter"]) != mi:
        return f"iter: impl {str(_strip(res['iter']))[:700]} vs model {str(mi)[:700]}"
    if _strip(res["map"]) != m["map"]:
        return f"map: impl {str(_strip(res['map']))[:700]} vs model {str(m['map'])[:700]}"
    nm = _names(case)
    return _compare_spec(case, res, m["spec"], nm)


# ----------------------------------------------------------------------------------------
# the direct oracle: the property statement, evaluated with an independent per-cell recomputation

class _Undefined(Exception):
    """the reference computation has no answer (an exception of user code, malformed input, ...):
    the property makes no claim"""


def _axes(edges):
    if edges and isinstance(edges[0], list):
        return edges, True
    return [edges], False


def _valid_edges(edges):
    if not edges:
        return False
    axes, _ = _axes(edges)
    return all(len(a) >= 2 and all(x < y for x, y in zip(a, a[1:])) for a in axes)


def _cell_of(coord, axes):
    """the one cell whose half-open intervals contain the point, or None"""
    idx = []
    for x, ax in zip(coord, axes):
        k = None
        for i in range(len(ax) - 1):
            if ax[i] <= x < ax[i + 1]:
                k = i
        if k is None:
            return None
        idx.append(k)
    return tuple(idx)


def _ref_coord(case, data, nested, naxes):
    a = case["argvar"]
    try:
        if a["kind"] == "var":
            x = _getter(a["getter"])(data)
        else:
            x = tuple(data[v["i"]] for v in a["vars"])
    except Exception:
        raise _Undefined("getter raised")
    if nested:
        if not isinstance(x, (tuple, list)) or len(x) != naxes or not all(type(c) in (int, float) for c in x):
            raise _Undefined("coordinate of the wrong form")
        return tuple(x)
    if type(x) not in (int, float):
        raise _Undefined("coordinate of the wrong form")
    return (x,)


def _nest(bins_flat, dims):
    """cells in product order -> nested lists"""
    if len(dims) == 1:
        return list(bins_flat)
    step = 1
    for d in dims[1:]:
        step *= d
    return [_nest(bins_flat[i * step:(i + 1) * step], dims[1:]) for i in range(dims[0])]


def _reference_sib(case):
    """per cell: a private copy of the analysis, fed with that cell's sub-flow in arrival order"""
    S = case.get("fscale", 1)
    edges = _edges_py(case["edges"], S, case.get("edges_int"))
    axes, nested = _axes(edges)
    dims = [len(a) - 1 for a in axes]
    cells = list(itertools.product(*[range(d) for d in dims]))
    sub = {c: [] for c in cells}
    last_inside = None
    for j in case["flow"]:
        v = _value(j, S)
        data, _ = _split(v)
        c = _cell_of(_ref_coord(case, data, nested, len(axes)), axes)
        if c is not None:
            sub[c].append(v)
            last_inside = _value(j, S)        # a pristine copy: as the value arrived
    results, ends = [], []
    for c in cells:
        an = _make_cell_analysis(case)
        try:
            for v in sub[c]:
                an.fill(v)
        except Exception:
            raise _Undefined("the private analysis of a cell raised in fill")
        r, end = [], "stop"
        try:
            gen = an.compute()
        except Exception:
            # FillComputeSeq.compute() is evaluated immediately: an eager post-element raised when compute() was
            # called; SplitIntoBins then raises while it creates the generators of its cells
            raise _Undefined("the private analysis of a cell raised when compute() was called")
        try:
            for o in gen:
                r.append(copy.deepcopy(o))
        except Exception:
            end = "error"
        results.append(r)
        ends.append(end)
    # rounds that every cell can serve; how the iteration ends
    n, end = 0, None
    while end is None:
        for r, e in zip(results, ends):
            if n >= len(r):
                end = e
                break
        else:
            n += 1
    # the context: that of the last value inside the edges, as it arrived, with the variable applied
    ctx = copy.deepcopy(_split(last_inside)[1]) if last_inside is not None else {}
    try:
        ctx = _apply_var_context(ctx, _argvar_context(case["argvar"]))
    except Exception:
        ctx = None
    hists = [_nest([results[k][j] for k in range(len(cells))], dims) for j in range(n)]
    return {"dims": dims, "n": n, "end": end, "hists": hists, "ctx": ctx, "inside": sum(len(s) for s in sub.values())}


def _apply_var_context(ctx, var_context):
    """`ctx` after a variable with the context `var_context` has been applied to a value that carries it, through the
    PUBLIC interface: Variable.__call__ on a variable with the identity as getter and that `var_context` (a public
    attribute).  What a variable does to an existing context.variable is C14's subject."""
    from lena.variables import Variable
    v = Variable("v", lambda data: data)
    v.var_context.clear()
    v.var_context.update(copy.deepcopy(var_context))
    return v((None, ctx))[1]


def _ref_update_nested(key, d, other):
    """reference for lena.context.update_nested on plain dictionaries"""
    if key in d:
        o = other
        while key in o:
            o = o[key]
            if not isinstance(o, dict):
                raise _Undefined("non-dictionary on the nesting path")
        o[key] = d[key]
    d[key] = other


def _ref_edges_str(cell_edges, var_context, cfg=None):
    cfg = cfg or {"k": "default"}
    if cfg["k"] == "const":
        return cfg["s"]
    if cfg["k"] == "opts" and cfg.get("names") is not None:
        names = list(cfg["names"])
        if len(names) != len(cell_edges):
            raise _Undefined("number of names differs from the number of coordinates")
        strs = [cfg.get("pre", "") + str(lo) + cfg.get("mid1", "_lte_") + str(n) + cfg.get("mid2", "_lt_") + str(hi)
                + cfg.get("post", "") for (lo, hi), n in zip(cell_edges, names)]
        return cfg.get("join", "_").join(reversed(strs) if cfg.get("reverse") else strs)
    if var_context is None:
        names = ["coord{}".format(i) for i in range(len(cell_edges))]
    elif not isinstance(var_context, dict):
        raise _Undefined("variable context is not a dictionary")
    elif "combine" in var_context:
        try:
            names = [v["name"] for v in var_context["combine"]]
        except Exception:
            raise _Undefined("combine without names")
    elif "name" in var_context:
        names = [var_context["name"]]
    else:
        raise _Undefined("variable context without name")
    if len(names) != len(cell_edges):
        raise _Undefined("number of names differs from the number of coordinates")
    if cfg["k"] == "opts":
        strs = [cfg.get("pre", "") + str(lo) + cfg.get("mid1", "_lte_") + str(n) + cfg.get("mid2", "_lt_") + str(hi)
                + cfg.get("post", "") for (lo, hi), n in zip(cell_edges, names)]
        return cfg.get("join", "_").join(reversed(strs) if cfg.get("reverse") else strs)
    return "_".join("{}_lte_{}_lt_{}".format(lo, n, hi) for (lo, hi), n in zip(cell_edges, names))


def _group(st):
    g = {}
    for o, s in zip(st["out"], st["src"]):
        g.setdefault(s, []).append(o)
    return g


def _first_cell(bins):
    while isinstance(bins, list):
        if not bins:
            raise _Undefined("empty bins")
        bins = bins[0]
    return bins


def _example_cell(bins, geb):
    """the "arbitrary bin" that select_bins tests: the first cell, or what the caller's get_example_bin returns"""
    if geb == "last":
        while isinstance(bins, list):
            if not bins:
                raise _Undefined("empty bins")
            bins = bins[-1]
        return bins
    return _first_cell(bins)


def _regular(bins, dims):
    if not dims:
        return not isinstance(bins, list)
    return isinstance(bins, list) and len(bins) == dims[0] and all(_regular(b, dims[1:]) for b in bins)


def _key(j):
    import json
    return json.dumps(j, sort_keys=True)


def _oracle_iter(case, st, cfg, nm):
    groups = _group(st)
    for i, fv in enumerate(st["in"]):
        if "h" not in fv:
            continue
        try:
            edges = fv["h"]["edges"]
            if not _valid_edges(edges):
                continue
            axes, nested = _axes(edges)
            dims = [len(a) - 1 for a in axes]
            bins = _dec_bins(fv["h"]["bins"], nm)
            if not _regular(bins, dims):
                continue
            hctx = _unslots(fv["c"], nm) if fv["c"] is not None else {}
            d00 = _split(_first_cell(bins))[0]
            if not _sel_ref(cfg["sel"], False)(d00):
                continue
            expected = []
            for idx in itertools.product(*[range(d) for d in dims]):
                cell = bins
                for k in idx:
                    cell = cell[k]
                d, c = _split(copy.deepcopy(cell))
                ce = tuple((axes[k][ik], axes[k][ik + 1]) for k, ik in enumerate(idx))
                _ref_update_nested("bins", c, copy.deepcopy(hctx))
                _ref_update_nested("bin", c, {"edges": ce, "edges_str": _ref_edges_str(ce, hctx.get("variable"),
                                                                                         cfg.get("ces"))})
                expected.append(_enc_fval((d, c), nm))
        except _Undefined:
            continue
        got = groups.get(i, [])
        if st["fin"] is not None and (st["fin_src"] is None or i > st["fin_src"]):
            continue                      # the stage ended before this value was pulled
        if st["fin"] is not None and st["fin_src"] == i:
            return (f"IterateBins raised {st['fin']} on histogram {fv['h']} (context {fv['c']}) whose every cell "
                    f"has well-defined edges and context")
        if len(got) != len(expected):
            return (f"IterateBins yielded {len(got)} values for a histogram with {len(expected)} cells "
                    f"(edges {edges}): every cell must be enumerated exactly once")
        if sorted(map(_key, got)) != sorted(map(_key, expected)):
            bad = [g for g in got if _key(g) not in set(map(_key, expected))]
            miss = [e for e in expected if _key(e) not in set(map(_key, got))]
            return (f"IterateBins on histogram edges {edges}: cells are not yielded once each with their own data, "
                    f"edges and context; unexpected {str(_unslots_fv(bad[:1], nm))[:500]}; "
                    f"expected (independently per cell) {str(_unslots_fv(miss[:1], nm))[:500]}")
    if st["alias"]:
        return ("IterateBins: the contexts yielded for different cells share a dictionary object "
                "(a cell's context must be its own)")
    if st.get("late_same") is False:
        return ("IterateBins: a value that was yielded changed while the following ones were produced "
                "(a consumer that collects the cells does not get every cell with its own data and context)")
    return None


def _unslots_fv(fvs, nm):
    return [(_dec_value(f["v"], nm) if "v" in f else f) for f in fvs]


def _oracle_map(case, st, cfg, nm):
    import lena.core
    groups = _group(st)
    for i, fv in enumerate(st["in"]):
        if "h" not in fv:
            continue
        try:
            edges = fv["h"]["edges"]
            if not _valid_edges(edges):
                continue
            axes, nested = _axes(edges)
            dims = [len(a) - 1 for a in axes]
            bins = _dec_bins(fv["h"]["bins"], nm)
            if not _regular(bins, dims):
                continue
            # (select_bins left out: every histogram is transformed)
            if not _sel_ref("all" if cfg["sel"] == "default" else cfg["sel"], True)(_example_cell(bins, cfg.get("geb"))):
                continue
            per_cell = []
            for idx in itertools.product(*[range(d) for d in dims]):
                cell = bins
                for k in idx:
                    cell = cell[k]
                seq = lena.core.Sequence(*[_make_step(s) for s in cfg["steps"]])
                try:
                    per_cell.append([copy.deepcopy(o) for o in seq.run([copy.deepcopy(cell)])])
                except Exception:
                    raise _Undefined("the sequence raised on a cell")
            n = min(len(r) for r in per_cell)
            expected = []
            for j in range(n):
                cells = [(_split(r[j])[0] if cfg["drop"] else r[j]) for r in per_cell]
                if any(isinstance(c, list) for c in cells):
                    raise _Undefined("a cell result is a list")
                expected.append({"edges": edges, "bins": _enc_bins(_nest(cells, dims), nm)})
        except _Undefined:
            continue
        got = groups.get(i, [])
        if st["fin"] is not None and (st["fin_src"] is None or i > st["fin_src"]):
            continue                      # the stage ended before this value was pulled
        if st["fin"] is not None and st["fin_src"] == i:
            return (f"MapBins raised {st['fin']} on histogram {fv['h']} although the sequence runs on every cell")
        if len(got) != len(expected):
            return (f"MapBins yielded {len(got)} histograms for edges {edges}, the sequence gives "
                    f"{[len(r) for r in per_cell]} results on the cells (expected {len(expected)})")
        for j, (g, e) in enumerate(zip(got, expected)):
            if "h" not in g:
                return f"MapBins yielded a value that is not a histogram: {g}"
            if g["h"]["edges"] != e["edges"]:
                return f"MapBins changed the edges: {g['h']['edges']} instead of {e['edges']}"
            if g["h"]["bins"] != e["bins"]:
                return (f"MapBins result {j} over edges {edges}: bins {_dec_bins(g['h']['bins'], nm)} differ from the "
                        f"sequence applied to each cell {_dec_bins(e['bins'], nm)}")
    if st.get("late_same") is False:
        return ("MapBins: a histogram that was yielded changed while the following ones were produced "
                "(a consumer that collects the histograms does not get the sequence applied to every cell)")
    return None


def oracle(case, res):
    """The property's own statement on the real code's result (no reference to the Lean model)."""
    nm = _names(case)
    edges = case["edges"]
    good_args = case.get("seq_ok", True) and case.get("argvar_ok", True) and _valid_edges(edges)
    if not good_args:
        return None
    try:
        ref = _reference_sib(case)
    except _Undefined:
        return None
    if "init" in res:
        return f"SplitIntoBins.__init__ raised {res['init']} for valid arguments (edges {edges})"
    if "fill" in res:
        return (f"SplitIntoBins.fill raised {res['fill']['e']} at value {case['flow'][res['fill']['at']]} although "
                f"the private analysis of every cell accepts its sub-flow")
    outs, fin = res["compute"]["out"], res["compute"]["fin"]
    n = ref["n"]
    if fin == "endless":
        return (f"compute() does not end: it yielded more than {_MAX_HISTS} histograms, but the private analysis of a cell "
                f"yields at most {n} results before a cell is exhausted")
    if len(outs) < n and (fin is None or ref["end"] == "stop"):
        return (f"compute() yielded {len(outs)} histograms (end: {fin}), but every cell's private analysis yields at "
                f"least {n} results")
    if ref["end"] == "stop":
        if fin is not None:
            return f"compute() raised {fin} although no cell's private analysis raises"
        if len(outs) != n:
            return f"compute() yielded {len(outs)} histograms; the minimum number of results over the cells is {n}"
    for j, o in enumerate(outs[:n]):
        if o["edges"] != edges:
            return f"histogram {j} has edges {o['edges']} instead of {edges}"
        exp = _enc_bins(ref["hists"][j], nm)
        if o["bins"] != exp:
            return (f"histogram {j} over edges {edges}: bins {_dec_bins(o['bins'], nm)} differ from the results of "
                    f"private per-cell analyses on the cells' sub-flows {ref['hists'][j]} (flow {case['flow']})")
        if ref["ctx"] is not None and o["c"] != _slots(ref["ctx"], nm):
            return (f"histogram {j}: context {_unslots(o['c'], nm)} is not the context of the last value inside the "
                    f"edges with the argument variable applied, {ref['ctx']}")
    late = res.get("compute_late")
    if late is not None and late != outs:
        bad = [j for j, (a, b) in enumerate(zip(outs, late)) if a != b]
        j = bad[0] if bad else 0
        return (f"the histograms yielded by compute() do not keep their content: histogram {j} held bins "
                f"{_dec_bins(outs[j]['bins'], nm)} (context {_unslots(outs[j]['c'], nm)}) when it was yielded and holds "
                f"{_dec_bins(late[j]['bins'], nm)} (context {_unslots(late[j]['c'], nm)}) after the generator has ended - "
                f"a consumer that collects the results (list(sib.compute())) does not get the per-cell results")
    if res.get("seq_private") is False:
        return ("SplitIntoBins kept or filled the analysis object that was passed to it: every cell must hold a private "
                "copy (the object is a cell, or is no longer in its initial state after the flow)")
    if res.get("pipe") is not None and ref["end"] == "stop" and ref["ctx"] is not None:
        step, want = _make_step(case["pipe"]), []
        try:
            for j in range(n):
                want.append(_slots(_split(step((None, copy.deepcopy(ref["ctx"]))))[1], nm))
        except Exception:
            want = None
        if want is not None and res["pipe"]["fin"] is None and res["pipe"]["out"] != want:
            return (f"the values yielded by compute() are not independent: after a downstream element "
                    f"{case['pipe']} has processed them one after the other their contexts are "
                    f"{[_unslots(c, nm) for c in res['pipe']['out']]}, expected {[_unslots(c, nm) for c in want]}")
    if res.get("reuse") is not None and ref["end"] == "stop":
        for j, o in enumerate(res["reuse"]["out"][:n]):
            if o["bins"] != _enc_bins(ref["hists"][j], nm) or \
                    (ref["ctx"] is not None and o["c"] != _slots(ref["ctx"], nm)):
                return (f"a second SplitIntoBins built from the same analysis and argument variable objects: histogram {j} has "
                        f"bins {_dec_bins(o['bins'], nm)} and context {_unslots(o['c'], nm)}, expected {ref['hists'][j]} "
                        f"and {ref['ctx']} (the variable or analysis object was changed by the first run)")
        if len(res["reuse"]["out"]) != n or res["reuse"]["fin"] is not None:
            return (f"a second SplitIntoBins built from the same analysis and argument variable objects yields "
                    f"{len(res['reuse']['out'])} histograms (end {res['reuse']['fin']}) instead of {n}")
    if res.get("iter") and "init" not in res["iter"]:
        msg = _oracle_iter(case, res["iter"], case["iter"], nm)
        if msg:
            return msg
    if res.get("map") and "init" not in res["map"]:
        msg = _oracle_map(case, res["map"], case["map"], nm)
        if msg:
            return msg
    return None


# ----------------------------------------------------------------------------------------
# generation

_CTXS = [
    None, None, None, {}, {"a": 1}, {"src": {"run": 7}}, {"a": 2, "b": "s"},
    {"variable": {"name": "z"}},
    {"variable": {"name": "z", "type": "coordinate", "coordinate": {"name": "z"}}},
    {"variable": {"name": "w", "compose": {"l": ["particle"]}, "particle": {"name": "p"}}, "a": 3},
    {"bins": {"variable": {"name": "q"}}},
    {"bins": {"variable": {"name": "q"}, "bins": {"a": 1}}, "bin": {"edges_str": "old"}},
    {"value": {"a": 1}},
    {"bins": 3},
]

_SETKEYS = [
    ("a", 5), ("a", "s"), ("b", {"t": [1, 2]}), ("bins", {"variable": {"name": "y"}}), ("bins", {"a": 1}),
    ("bin", {"edges_str": "old"}), ("variable", {"name": "v"}), ("value", {"a": 1}), ("bins", 5),
    ("src", {"run": 8}),
]


def _gen_step(rng, int_data, wild=False, where="pre", flt=False):
    kinds = ["setkey", "setkey", "var", "dup"]
    if flt:
        kinds += ["scale"] if int_data else []      # elements that test `type(data) is int` would see floats
    elif int_data or wild:
        kinds += ["scale", "dropodd", "failon"]
    if not int_data or wild:
        kinds += ["proj"]
    if where in ("post", "map"):
        kinds += ["count", "count"]           # stateful elements (only modelled after the accumulator)
    if where == "map":
        kinds += ["acc", "acc", "acc", "acc"]
    if where == "post" and not flt:             # (float cases: it would add a float sum and an integer count)
        kinds += ["acc"]                      # an eager post-element: runs when compute() is called
    k = rng.choice(kinds)
    if k == "count":
        return {"k": "count", "name": rng.choice(["n", "a"])}, int_data
    if k == "acc":
        kind = rng.choice(["sum", "sum", "store", "each", "sumcount", "count", "failempty", "sumfail"])
        if flt and kind == "sumcount":
            kind = "sum"       # a later accumulator would add a float sum and an integer count: not scale-invariant
        return {"k": "acc", "kind": kind}, (int_data if kind == "each" else kind != "store")
    if k == "scale":
        return {"k": "scale", "x": rng.choice([-1, 2, 3])}, int_data
    if k == "proj":
        return {"k": "proj", "i": rng.choice([0, 0, 1, 2])}, True
    if k == "setkey":
        key, v = rng.choice(_SETKEYS)
        return {"k": "setkey", "key": key, "v": v}, int_data
    if k == "var":
        p = None if int_data or rng.random() < 0.5 else rng.choice([0, 1])
        t = rng.choice(["", "", "coordinate", "particle"])
        kw = rng.choice([{}, {}, {"unit": "mm"}])
        return {"k": "var", "name": rng.choice(["y", "t"]), "proj": p, "type": t, "kw": kw}, (int_data or p is not None)
    if k == "failon":
        return {"k": "failon", "x": rng.randint(-2, 6)}, int_data
    return {"k": k}, int_data


def _gen_steps(rng, n, int_data, wild, where="pre", flt=False):
    steps = []
    for _ in range(n):
        s, int_data = _gen_step(rng, int_data, wild and rng.random() < 0.3, where, flt)
        steps.append(s)
    return steps, int_data


def _gen_axis(rng, maxbins, ap=False, minbins=1):
    x = rng.randint(-3, 2)
    arr = [x]
    step = rng.choice([1, 1, 2, 3])
    for _ in range(rng.randint(minbins, maxbins)):
        x += step if ap else rng.choice([1, 2, 2, 3])
        arr.append(x)
    return arr


def _gen_ctx(rng):
    return copy.deepcopy(rng.choice(_CTXS))


def _gen_plain(rng):
    v = {"d": rng.choice([5, -1, {"t": [1, 2]}, "s"])}
    c = _gen_ctx(rng)
    if c is not None:
        v["c"] = c
    return v


_CELLS = [{"d": 3}, {"d": 4, "c": {"a": 1}}, {"d": {"t": [1, 2]}, "c": {"bins": {"a": 1}}}, {"d": 0, "c": {}}]


def _gen_hist(rng):
    """a synthetic histogram for a stage's extra flow: regular, or with a missing cell (IndexError paths)"""
    def cell():
        return copy.deepcopy(rng.choice(_CELLS))
    k = rng.random()
    if k < 0.45:
        edges = _gen_axis(rng, 3)
        bins = [cell() for _ in range(len(edges) - 1)]
    elif k < 0.8:
        edges = [_gen_axis(rng, 2), _gen_axis(rng, 2)]
        bins = [[cell() for _ in range(len(edges[1]) - 1)] for _ in range(len(edges[0]) - 1)]
    elif k < 0.9:
        edges = [[0, 1, 2], [0, 1]]
        bins = [[cell()], []]                     # the cell (1, 0) is missing: LenaIndexError while iterating
    else:
        edges = [[0, 1, 2], [0, 1]]
        bins = [[], [cell()]]                     # the example bin is missing
    v = {"h": {"edges": edges, "bins": bins}}
    c = _gen_ctx(rng)
    if c is not None and rng.random() < 0.8:
        v["c"] = c
    return v


def _gen_extra(rng):
    return _gen_hist(rng) if rng.random() < 0.3 else _gen_plain(rng)


def _gen_ces(rng, ndim):
    r = rng.random()
    if r < 0.7:
        return {"k": "default"}
    if r < 0.8:
        return {"k": "const", "s": "cell"}
    if r < 0.84:
        return {"k": "bad"}
    o = {"k": "opts", "join": rng.choice(["_", "__", ""]), "reverse": rng.random() < 0.5}
    if rng.random() < 0.5:
        o.update({"pre": rng.choice(["", "("]), "mid1": rng.choice(["<=", "_lte_"]), "mid2": rng.choice(["<", "_lt_"]),
                  "post": rng.choice(["", ")"])})
    if rng.random() < 0.6:
        o["names"] = ["u", "v", "w"][:ndim if rng.random() < 0.85 else ndim + 1]
    return o


_CTX_SELS = ["a", "b", "variable", "variable.name", "variable.name.y", "variable.name.t", "variable.name.z",
             "variable.name.x", "variable.type.coordinate", "src.run.7", "src.run.8", "src.run", "a.1", "a.5", "a.s",
             "bins", "bin.edges_str.old", "n", "zzz", "value.a", ""]


def _gen_sel_atom(rng, flt, is_map):
    r = rng.random()
    if r < 0.3:
        return rng.choice(["all", "none"] + ([] if flt else ["int"]))
    if r < 0.75 or not is_map:
        # (in a float case the numbers of the real run are floats, those of the model integers: no test for int)
        return {"k": "type", "t": rng.choice(["tuple", "tuple", "str", "hist", "list"] + ([] if flt else ["int"] * 4))}
    return {"k": "ctx", "s": rng.choice(_CTX_SELS)}


def _gen_sel(rng, flt, is_map):
    """a select_bins argument in one of the forms a Selector is made from"""
    r = rng.random()
    if r < 0.45:
        sel = _gen_sel_atom(rng, flt, is_map)
        if not isinstance(sel, dict):
            sel = {"k": "type", "t": "tuple" if flt else "int"}
    elif r < 0.6:
        sel = {"k": "ctx", "s": rng.choice(_CTX_SELS)}
    else:
        sel = {"k": rng.choice(["any", "all"]), "of": [_gen_sel_atom(rng, flt, is_map) for _ in range(rng.choice([0, 1, 2, 2, 3]))]}
    if rng.random() < 0.2:
        sel["wrap"] = True
    return sel


def _gen_stages(rng, case, res_int, wild, ndim, flt=False):
    if rng.random() < 0.7:
        sel = rng.choice(["all"] * 16 + ["none", "default", "bad"] + ([] if flt else ["int"]))
        if rng.random() < 0.25:
            sel = _gen_sel(rng, flt, False)
        case["iter"] = {"sel": sel, "bare": rng.random() < 0.15,
                        "ces": {"k": "const", "s": "cell"} if flt else _gen_ces(rng, ndim),
                        "pre": [_gen_extra(rng) for _ in range(rng.choice([0, 0, 1]))],
                        "post": [_gen_extra(rng) for _ in range(rng.choice([0, 0, 1]))]}
    if rng.random() < 0.7:
        steps, _ = _gen_steps(rng, rng.choice([0, 1, 1, 2, 2]), res_int, wild, "map", flt)
        sel = rng.choice(["all"] * 14 + ["none", "bad", "default", "default"] + ([] if flt else ["int"]))
        if rng.random() < 0.3:
            sel = _gen_sel(rng, flt, True)
        case["map"] = {"steps": steps, "sel": sel,
                       "drop": rng.random() < 0.6, "bare": rng.random() < 0.1,
                       "seq_ok": rng.random() > 0.03, "seq_form": rng.choice(["sequence"] * 6 + ["element"] * 3 + ["tuple"]),
                       "pre": [_gen_extra(rng) for _ in range(rng.choice([0, 0, 1]))],
                       "post": [_gen_extra(rng) for _ in range(rng.choice([0, 0, 1]))]}
        r = rng.random()
        if r < 0.25:
            # a caller's get_example_bin: the bin that select_bins tests and whose context goes to context.value
            case["map"]["geb"] = "last" if r < 0.18 else "first"
            # make the choice of the example bin matter: selectors that tell cells apart (by their context, by the
            # type of their data) and histograms whose cells differ
            if rng.random() < 0.6:
                case["map"]["sel"] = rng.choice([{"k": "ctx", "s": "a"}, {"k": "ctx", "s": "b"}, {"k": "ctx", "s": "bins"},
                                                 {"k": "ctx", "s": "variable.name.z"}, {"k": "ctx", "s": "src"},
                                                 {"k": "type", "t": "tuple"}, {"k": "type", "t": "tuple" if flt else "int"},
                                                 {"k": "any", "of": [{"k": "ctx", "s": "a"}, {"k": "type", "t": "tuple"}]}])
            if not flt and rng.random() < 0.6:
                case["map"]["pre"].append(_gen_hist(rng))
        if case["map"]["seq_form"] == "element" and (len(steps) != 1 or steps[0]["k"] == "count"):
            # (a bare lena.flow.Count as `seq` gets the list [cell] as flow and calls next() on it: TypeError)
            case["map"]["seq_form"] = "sequence"


def _gen_spec(rng, int_data, wild, flt=False):
    pre, int_data = _gen_steps(rng, rng.choice([0, 0, 1, 1, 2]), int_data, wild, "pre", flt)
    acc = rng.choice(["sum", "sum", "store", "store", "store", "each", "each", "sumcount", "sumcount", "count",
                      "failempty", "sumfail"])
    res_int = acc in ("sum", "sumcount", "count", "failempty", "sumfail") or (acc == "each" and int_data)
    post, res_int = _gen_steps(rng, rng.choice([0, 0, 1, 1, 2]), res_int, wild, "post", flt)
    return {"pre": pre, "acc": acc, "post": post}, res_int


def _gen_flow_ctx(rng, v):
    c = _gen_ctx(rng)
    if c is not None:
        v["c"] = c
    return v


def _gen_two_level(rng, big):
    """SplitIntoBins(FillComputeSeq(SplitIntoBins(analysis, inner variable, inner edges), IterateBins()), outer …):
    the cells of the outer histograms carry context.bins of the inner split"""
    do = 1 if rng.random() < 0.7 else 2
    oedges = _gen_axis(rng, 3) if do == 1 else [_gen_axis(rng, 2), _gen_axis(rng, 2)]
    oaxes = [oedges] if do == 1 else oedges
    iedges = _gen_axis(rng, 3)
    if do == 1:
        argvar = {"kind": "var", "name": "x", "getter": {"k": "proj", "i": 0}, "type": rng.choice(["", "", "coordinate"]),
                  "kw": {}}
    else:
        argvar = {"kind": "combine", "vars": [{"name": "xy"[k], "i": k, "type": ""} for k in range(2)],
                  "kw": rng.choice([{}, {"name": "pt"}])}
    iargvar = {"kind": "var", "name": "z", "getter": {"k": "proj", "i": do}, "type": rng.choice(["", "", "particle"]),
               "kw": rng.choice([{}, {"unit": "mm"}])}
    ispec, res_int = _gen_spec(rng, False, False)
    flow = []
    for _ in range(rng.randint(0, 12 if big else 7)):
        comps = [rng.choice(a) if rng.random() < 0.4 else rng.randint(a[0] - 1, a[-1] + 1) for a in oaxes + [iedges]]
        flow.append(_gen_flow_ctx(rng, {"d": {"t": comps}}))
    case = {"edges": oedges, "seq_ok": True, "argvar_ok": True, "bare_acc": False, "argvar": argvar,
            "spec": {"pre": [], "acc": "sum", "post": []},
            "inner": {"edges": iedges, "argvar": iargvar, "spec": ispec,
                      "sel": rng.choice(["all"] * 9 + ["int", "none", "none", "none"])},
            "flow": flow, "iter": None, "map": None}
    _gen_stages(rng, case, res_int, False, do)
    if case["iter"]:
        # when the inner IterateBins selected nothing the outer cells hold histograms: the default selector
        # of the second stage (bins that hold histograms) then selects them
        case["iter"]["sel"] = rng.choice(["all"] * 6 + ["default"] * 5 + ["int"])
    if rng.random() < 0.2:
        case["reuse"] = True
    if rng.random() < 0.12 and any("c" in v for v in flow):
        case["shared_ctx"] = True
    _gen_forms(rng, case)
    return case


def _gen_float(rng, big):
    """coordinates and edges are multiples of 1/S: the real code computes with floats (the interpolation guess of
    get_bin_on_value_1d, comparisons at the borders), the model with the integers S * x"""
    S = rng.choice([2, 4, 8])
    dim = 1 if rng.random() < 0.55 else 2
    def axis(maxbins):
        x = rng.randint(-3 * S, 2 * S)
        arr = [x]
        for _ in range(rng.randint(1, maxbins)):
            x += rng.choice([1, 2, 3, S, S + 1, 2 * S])
            arr.append(x)
        return arr
    edges = axis(5) if dim == 1 else [axis(3), axis(3)]
    axes = [edges] if dim == 1 else edges
    tuple_data = dim == 2 or rng.random() < 0.3
    if not tuple_data:
        argvar = {"kind": "var", "name": "x", "getter": {"k": "id"}, "type": rng.choice(["", "coordinate"]), "kw": {}}
    elif dim == 1:
        argvar = {"kind": "var", "name": "x", "getter": {"k": "proj", "i": 0}, "type": "", "kw": {}}
    elif rng.random() < 0.3:
        argvar = {"kind": "var", "name": "xy", "getter": {"k": "id"}, "type": "", "kw": {}}
    else:
        argvar = {"kind": "combine", "vars": [{"name": "xy"[k], "i": k, "type": ""} for k in range(2)], "kw": {}}
    flow = []
    for _ in range(rng.randint(0, 14 if big else 8)):
        pt = []
        for a in axes:
            r = rng.random()
            if r < 0.35:
                pt.append(rng.choice(a))                       # exactly on an edge
            elif r < 0.6:
                pt.append(rng.choice(a) + rng.choice([-1, 1]))   # the nearest representable neighbours
            elif r < 0.96:
                pt.append(rng.randint(a[0] - S, a[-1] + S))
            else:
                pt.append({"inf": rng.choice([1, -1])})
        d = {"t": pt} if tuple_data else pt[0]
        flow.append(_gen_flow_ctx(rng, {"d": d}))
    spec, res_int = _gen_spec(rng, not tuple_data, False, True)
    case = {"edges": edges, "fscale": S, "seq_ok": True, "argvar_ok": True, "bare_acc": rng.random() < 0.3,
            "argvar": argvar, "spec": spec, "flow": flow, "iter": None, "map": None}
    _gen_stages(rng, case, res_int, False, dim, True)
    if rng.random() < 0.12 and any("c" in v for v in flow):
        case["shared_ctx"] = True
        case["bare_acc"] = False
    if rng.random() < 0.25 and all(e % S == 0 for a in axes for e in a):
        case["edges_int"] = True                # integer edges, float coordinates
        case["iter"] = None                     # (context.bin.edges would hold unscaled integers)
    _gen_forms(rng, case)
    for st in ("iter", "map"):
        if case[st]:
            if case[st]["sel"] == "int":        # `type(data) is int` would see floats
                case[st]["sel"] = "all"
            case[st]["pre"] = [v for v in case[st]["pre"] if "h" not in v]
            case[st]["post"] = [v for v in case[st]["post"] if "h" not in v]
    return case


def _gen_spec_noarith(rng, tuple_data):
    """an analysis that never computes with the numbers of the flow (it stores, counts, projects, copies, sets keys):
    for coordinates whose sums are not exact in floating point"""
    def steps(n, where, td):
        out = []
        for _ in range(n):
            k = rng.choice(["setkey", "setkey", "var", "dup"] + (["proj"] if td else []) + (["count"] if where != "pre" else []))
            if k == "setkey":
                key, v = rng.choice(_SETKEYS)
                out.append({"k": "setkey", "key": key, "v": v})
            elif k == "var":
                pr = rng.choice([0, 1]) if td and rng.random() < 0.5 else None
                out.append({"k": "var", "name": rng.choice(["y", "t"]), "proj": pr, "type": rng.choice(["", "", "coordinate"]),
                            "kw": rng.choice([{}, {}, {"unit": "mm"}])})
                td = td and pr is None
            elif k == "proj":
                out.append({"k": "proj", "i": rng.choice([0, 0, 1])})
                td = False
            elif k == "count":
                out.append({"k": "count", "name": rng.choice(["n", "a"])})
            else:
                out.append({"k": k})
        return out, td
    pre, td = steps(rng.choice([0, 0, 1, 1, 2]), "pre", tuple_data)
    acc = rng.choice(["store", "store", "each", "each", "count"])
    post, td = steps(rng.choice([0, 0, 1, 2]), "post", td and acc == "each")
    return {"pre": pre, "acc": acc, "post": post}, td


def _noarith_stages(rng, case, td, ndim, with_iter=True):
    """IterateBins / MapBins behind an analysis without arithmetic (the edges are not formatted: floats)"""
    _gen_stages(rng, case, False, False, ndim, True)
    if not with_iter:
        case["iter"] = None
    if case["map"]:
        msteps = []
        for _ in range(rng.choice([0, 1, 1, 2])):
            k = rng.choice(["setkey", "var", "dup", "count", "acc", "acc"])
            if k == "setkey":
                key, v = rng.choice(_SETKEYS)
                msteps.append({"k": "setkey", "key": key, "v": v})
            elif k == "var":
                msteps.append({"k": "var", "name": "t", "proj": None, "type": rng.choice(["", "coordinate"]), "kw": {}})
            elif k == "count":
                msteps.append({"k": "count", "name": "n"})
            elif k == "acc":
                msteps.append({"k": "acc", "kind": rng.choice(["store", "each", "count"])})
            else:
                msteps.append({"k": k})
        case["map"]["steps"] = msteps
        if case["map"]["seq_form"] == "element" and (len(msteps) != 1 or msteps[0]["k"] == "count"):
            case["map"]["seq_form"] = "sequence"
    for st in ("iter", "map"):
        if case[st]:
            case[st]["pre"] = [v for v in case[st]["pre"] if "h" not in v]
            case[st]["post"] = [v for v in case[st]["post"] if "h" not in v]


_FINE = 2 ** 60


def _fine_ok(x):
    """a float that the model can hold exactly as an integer number of 2**-60"""
    return abs(x) < 8 and (x * 2.0 ** 60).is_integer()


def _gen_float_fine(rng, big):
    """ARBITRARY floats as edges and coordinates (decimal fractions like 0.1, 0.3, dyadic fractions), and values that
    differ from an edge by one unit in the last place, by 2**-k, by a relative 1e-16 .. 1e-7: the model computes with
    the integers x * 2**60 (exact for 2**-7 <= |x| < 8 and for multiples of 2**-60)"""
    import math
    dim = 1 if rng.random() < 0.65 else 2

    def axis(maxbins):
        style = rng.random()
        if style < 0.4:
            pool = [k / 10 for k in range(-30, 31)]
        elif style < 0.7:
            pool = [k / 8 for k in range(-24, 25)]
        elif style < 0.85:
            pool = [k / 3 for k in range(-9, 10)] + [0.1 + 0.2, 0.3, 1 / 7, 2 / 7, math.pi / 2, math.e / 2]
        else:
            pool = [float(k) for k in range(-3, 4)] + [k + 2.0 ** -30 for k in range(-3, 4)]
        pool = sorted(set(x for x in pool if _fine_ok(x)))
        n = rng.randint(2, min(maxbins + 1, len(pool)))
        return sorted(rng.sample(pool, n))

    axes = [axis(5)] if dim == 1 else [axis(3), axis(3)]

    def near(ax):
        e = rng.choice(ax)
        r = rng.random()
        if r < 0.2:
            c = [e]
        elif r < 0.45:
            c = [math.nextafter(e, -math.inf), math.nextafter(e, math.inf)]
        elif r < 0.6:
            k = rng.choice([20, 30, 40, 45, 50, 52, 55, 60])
            c = [e - 2.0 ** -k, e + 2.0 ** -k]
        elif r < 0.8:
            t = rng.choice([1e-16, 1e-15, 1e-13, 1e-12, 1e-10, 1e-9, 1e-7])
            c = [e * (1 - t), e * (1 + t), e - t, e + t]
        elif r < 0.9:
            c = [rng.uniform(ax[0] - 0.5, ax[-1] + 0.5)]
        else:
            a, b = rng.choice(ax), rng.choice(ax)
            c = [(a + b) / 2, a + (b - a) / 3, a + 0.1, b - 0.1]
        c = [x for x in c if _fine_ok(x)]
        return rng.choice(c) if c else e

    tuple_data = dim == 2 or rng.random() < 0.3
    if not tuple_data:
        argvar = {"kind": "var", "name": "x", "getter": {"k": "id"}, "type": rng.choice(["", "coordinate"]), "kw": {}}
    elif dim == 1:
        argvar = {"kind": "var", "name": "x", "getter": {"k": "proj", "i": 0}, "type": "", "kw": {}}
    elif rng.random() < 0.3:
        argvar = {"kind": "var", "name": "xy", "getter": {"k": "id"}, "type": "", "kw": {}}
    else:
        argvar = {"kind": "combine", "vars": [{"name": "xy"[k], "i": k, "type": ""} for k in range(2)], "kw": {}}
    flow = []
    for _ in range(rng.randint(1, 12 if big else 8)):
        pt = [int(near(a) * 2.0 ** 60) for a in axes]
        flow.append(_gen_flow_ctx(rng, {"d": {"t": pt} if tuple_data else pt[0]}))
    spec, td = _gen_spec_noarith(rng, tuple_data)
    iaxes = [[int(e * 2.0 ** 60) for e in a] for a in axes]
    case = {"edges": iaxes[0] if dim == 1 else iaxes, "fscale": _FINE, "inexact": True, "seq_ok": True, "argvar_ok": True,
            "bare_acc": rng.random() < 0.3, "argvar": argvar, "spec": spec, "flow": flow, "iter": None, "map": None}
    _noarith_stages(rng, case, td, dim)
    if rng.random() < 0.15 and any("c" in v for v in flow):
        case["shared_ctx"] = True
    _gen_forms(rng, case)
    return case


_BIG = [0, 1, 2, 3, 10, 1000, 2 ** 31, 2 ** 31 + 1, 2 ** 53 - 1, 2 ** 53, 2 ** 53 + 1, 2 ** 53 + 2, 2 ** 60, 2 ** 60 + 1,
        2 ** 63 - 1, 2 ** 63, 2 ** 64, 10 ** 18, 10 ** 19, 2 ** 80, 10 ** 30, 2 ** 100 + 1]


def _gen_bigint(rng, big):
    """large integer coordinates (time stamps, event numbers): edges of very different sizes on one axis, values one
    below / on / one above an edge.  The interpolation of get_bin_on_value_1d rounds them when it converts to float.
    With `as_float` the coordinates are floats (integers and half-integers that a float holds exactly) and the edges
    stay integers."""
    as_float = rng.random() < 0.35
    dim = 1 if rng.random() < 0.7 else 2
    U = 2 if as_float else 1          # the model's unit: halves in the float mode

    def axis(maxbins):
        pool = set(_BIG) | set(-x for x in _BIG)
        base = rng.choice(_BIG[6:])
        pool |= {base + k for k in range(-3, 4)}
        if rng.random() < 0.3:
            pool = {x for x in pool if x >= 0}
        return sorted(rng.sample(sorted(pool), rng.randint(2, maxbins + 1)))

    axes = [axis(5)] if dim == 1 else [axis(3), axis(3)]

    def near(ax):
        """the coordinate in the model's unit"""
        import math
        e = rng.choice(ax)
        r = rng.random()
        if r < 0.5:
            x = e + rng.choice([-1, 0, 0, 1])
        elif r < 0.7:
            a, b = rng.choice(ax), rng.choice(ax)
            x = (a + b) // 2 + rng.choice([-1, 0, 1])
        elif r < 0.85:
            x = rng.randint(ax[0] - 5, ax[-1] + 5)
        else:
            x = e + rng.choice([-1, 1]) * rng.choice([2, 100, 2 ** 20, 2 ** 40])
        if not as_float:
            return x
        # a float: the neighbours of the edge among the floats, or x itself / x + 1/2 when a float holds it
        cands = [2 * x, 2 * x + 1]
        try:
            f = float(e)
            for g in (f, math.nextafter(f, -math.inf), math.nextafter(f, math.inf)):
                if (g * 2).is_integer():
                    cands.append(int(g * 2))
        except OverflowError:
            pass
        cands = [n for n in cands if (n / 2) * 2 == n]
        return rng.choice(cands) if cands else 2 * ax[0]

    tuple_data = dim == 2 or rng.random() < 0.3
    if not tuple_data:
        argvar = {"kind": "var", "name": "t", "getter": {"k": "id"}, "type": rng.choice(["", "coordinate"]), "kw": {}}
    elif dim == 1:
        argvar = {"kind": "var", "name": "t", "getter": {"k": "proj", "i": 0}, "type": "", "kw": {}}
    else:
        argvar = {"kind": "combine", "vars": [{"name": "xy"[k], "i": k, "type": ""} for k in range(2)], "kw": {}}
    flow = []
    for _ in range(rng.randint(1, 12 if big else 8)):
        pt = [near(a) for a in axes]
        flow.append(_gen_flow_ctx(rng, {"d": {"t": pt} if tuple_data else pt[0]}))
    edges = [[U * e for e in a] for a in axes]
    case = {"edges": edges[0] if dim == 1 else edges, "seq_ok": True, "argvar_ok": True, "bare_acc": rng.random() < 0.3,
            "argvar": argvar, "flow": flow, "iter": None, "map": None}
    if as_float:
        case.update({"fscale": 2, "edges_int": True, "inexact": True})
        case["spec"], td = _gen_spec_noarith(rng, tuple_data)
        _noarith_stages(rng, case, td, dim, with_iter=False)     # (context.bin.edges would hold unscaled integers)
    else:
        case["spec"], res_int = _gen_spec(rng, not tuple_data, False)
        _gen_stages(rng, case, res_int, False, dim)
    _gen_forms(rng, case)
    return case


def _gen_long(rng, big):
    """axes with many bins (7 .. 130 edges): a search that changes its method with the size of the array, and the
    interpolation over many steps"""
    dim = 1 if rng.random() < 0.75 else 2
    ap = rng.random() < 0.4
    n = rng.choice([6, 7, 8, 9, 10, 12, 15, 16, 17, 18, 20, 24, 31, 32, 33, 40, 50, 64, 65, 100, 129])
    long_axis = _gen_axis(rng, n, ap, n)
    axes = [long_axis] if dim == 1 else ([long_axis, _gen_axis(rng, 2)] if rng.random() < 0.5 else [_gen_axis(rng, 2), long_axis])
    tuple_data = dim == 2 or rng.random() < 0.3
    if not tuple_data:
        argvar = {"kind": "var", "name": "x", "getter": {"k": "id"}, "type": rng.choice(["", "", "coordinate"]), "kw": {}}
    elif dim == 1:
        argvar = {"kind": "var", "name": "x", "getter": {"k": "proj", "i": 0}, "type": "", "kw": {}}
    else:
        argvar = {"kind": "combine", "vars": [{"name": "xy"[k], "i": k, "type": ""} for k in range(2)], "kw": {}}
    flow = []
    # (one case in five: a long flow - a change that buffers values, caches per value or switches its method after
    # some number of fills shows only then)
    nflow = rng.randint(30, 400 if big else 150) if rng.random() < 0.2 else rng.randint(1, 14 if big else 9)
    for _ in range(nflow):
        pt = []
        for a in axes:
            r = rng.random()
            pt.append(rng.choice(a) if r < 0.6 else (rng.choice(a[:2] + a[-2:]) if r < 0.75 else rng.randint(a[0] - 2, a[-1] + 2)))
            if rng.random() < 0.02:
                pt[-1] = {"inf": rng.choice([1, -1])}
        flow.append(_gen_flow_ctx(rng, {"d": {"t": pt} if tuple_data else pt[0]}))
    spec, res_int = _gen_spec(rng, not tuple_data, False)
    if nflow > 14:
        # (no `dup`: the number of results would grow to thousands)
        spec["pre"] = [s for s in spec["pre"] if s["k"] != "dup"]
        spec["post"] = [s for s in spec["post"] if s["k"] != "dup"]
    case = {"edges": axes[0] if dim == 1 else axes, "seq_ok": True, "argvar_ok": True, "bare_acc": rng.random() < 0.3,
            "argvar": argvar, "spec": spec, "flow": flow, "iter": None, "map": None}
    if rng.random() < 0.5 and nflow <= 14:
        _gen_stages(rng, case, res_int, False, dim)
    if ap and rng.random() < 0.5:
        case["edges_form"] = "range"
    _gen_forms(rng, case)
    return case


_PIPES = [{"k": "setkey", "key": "a", "v": 9},
          {"k": "var", "name": "v", "proj": None, "type": "coordinate", "kw": {}},
          {"k": "var", "name": "v", "proj": None, "type": "", "kw": {"unit": "mm"}},
          {"k": "setkey", "key": "variable", "v": {"name": "v"}}]


def _gen_forms(rng, case):
    """edges as tuples, coordinates as a list, a downstream element behind compute()"""
    if rng.random() < 0.25 and not case.get("edges_form"):
        case["edges_form"] = rng.choice(["tuple", "tuple", "list_of_tuples", "tuple_of_lists", "range", "array", "array",
                                         "userseq", "userseq", "mixed", "userseq_of_userseq"])
    a = case["argvar"]
    if a["kind"] == "var" and a["getter"].get("k") == "id" and rng.random() < 0.5 and \
            all(isinstance(v["d"], dict) and "t" in v["d"] for v in case["flow"]) and case["flow"]:
        a["getter"] = {"k": "list"}
    if rng.random() < 0.25:
        case["pipe"] = copy.deepcopy(rng.choice(_PIPES))


def _gen_random(rng, big):
    wild = rng.random() < 0.12
    r = rng.random()
    dim = 1 if r < 0.5 else (2 if r < 0.93 else (3 if r < 0.985 else 4))
    ap = rng.random() < 0.12                    # arithmetic progressions: the axes can be given as ranges
    if dim == 1:
        edges = _gen_axis(rng, 4, ap)
        if rng.random() < 0.04:
            edges = [edges]                     # the unsupported nested form of 1-d edges
    else:
        edges = [_gen_axis(rng, 3 if dim == 2 else 2, ap) for _ in range(dim)]
    axes = edges if isinstance(edges[0], list) else [edges]
    nested = isinstance(edges[0], list)
    # data form and argument variable
    extra = rng.random() < 0.4                  # an extra (weight-like) component in tuple data
    tuple_data = nested or rng.random() < 0.35
    perm = list(range(len(axes)))
    if nested and rng.random() < 0.25:
        rng.shuffle(perm)                       # coordinates stored in another order than the axes
    ncomp = len(axes) + (1 if extra else 0)
    if not tuple_data:
        argvar = {"kind": "var", "name": "x", "getter": {"k": "id"}, "type": rng.choice(["", "", "coordinate"]),
                  "kw": rng.choice([{}, {}, {"unit": "cm"}])}
    elif not nested:
        argvar = {"kind": "var", "name": "x", "getter": {"k": "proj", "i": 0}, "type": rng.choice(["", "coordinate"]),
                  "kw": {}}
    elif not extra and perm == sorted(perm) and rng.random() < 0.3:
        argvar = {"kind": "var", "name": "xy", "getter": {"k": "id"}, "type": "", "kw": {}}
    else:
        argvar = {"kind": "combine",
                  "vars": [{"name": "xyzw"[k], "i": perm[k], "type": rng.choice(["", "", "coordinate"])}
                           for k in range(len(axes))],
                  "kw": rng.choice([{}, {}, {"name": "pt"}])}
    if wild and rng.random() < 0.3:
        argvar = {"kind": "var", "name": "x", "getter": rng.choice([{"k": "id"}, {"k": "proj", "i": 1}]), "type": "", "kw": {}}
    n = rng.randint(0, 14 if big else 8)
    flow = []
    for _ in range(n):
        pt = [rng.randint(a[0] - 2, a[-1] + 2) for a in axes]
        if rng.random() < 0.5:                  # on a border
            k = rng.randrange(len(axes))
            pt[k] = rng.choice(axes[k])
        elif rng.random() < 0.08:               # infinitely far outside
            pt[rng.randrange(len(axes))] = {"inf": rng.choice([1, -1])}
        if tuple_data:
            comps = [0] * ncomp
            for k in range(len(axes)):
                comps[perm[k]] = pt[k]
            if extra:
                comps[-1] = rng.randint(-2, 3)
            d = {"t": comps}
        else:
            d = pt[0]
        if wild and rng.random() < 0.15:
            d = rng.choice([7, {"t": [1]}, {"t": [1, 2, 3]}])
        v = {"d": d}
        c = _gen_ctx(rng)
        if c is not None:
            v["c"] = c
        flow.append(v)
    spec, res_int = _gen_spec(rng, not tuple_data, wild)
    case = {"edges": edges, "seq_ok": True, "argvar_ok": True, "bare_acc": rng.random() < 0.3, "argvar": argvar,
            "spec": spec, "flow": flow, "iter": None, "map": None}
    _gen_stages(rng, case, res_int, wild, len(axes))
    if rng.random() < 0.25 and not any(st["k"] in ("count", "acc") for st in spec["post"]):
        case["twice"] = True                    # compute() a second time on the same object
    if rng.random() < 0.2:
        case["reuse"] = True                    # a second SplitIntoBins from the same analysis and variable objects
    if rng.random() < 0.15 and sum(1 for v in flow if "c" in v) >= 1:
        case["shared_ctx"] = True               # the source re-uses one context dictionary for all values
        case["bare_acc"] = False
    if ap and rng.random() < 0.7:
        case["edges_form"] = rng.choice(["range", "range", "mixed"])
    _gen_forms(rng, case)
    if rng.random() < 0.04:
        bad = rng.random()
        if bad < 0.3:
            case["seq_ok"] = False
        elif bad < 0.6:
            case["argvar_ok"] = False
        else:
            case["edges"] = rng.choice([[], [1], [0, 2, 2], [0, 2, 1], [[0, 1], [2]], [[0, 1], [3, 1]]])
    return case


def _systematic(tier):
    cases = []
    xvar = {"kind": "var", "name": "x", "getter": {"k": "id"}, "type": "", "kw": {}}
    it = {"sel": "all", "bare": False, "pre": [], "post": []}
    for edges in ([0, 2], [0, 2, 4], [0, 1, 3]):
        pts = list(range(edges[0] - 1, edges[-1] + 2))
        for n in range(0, 4 if tier == "thorough" else 3):
            for flow in itertools.product(pts, repeat=n):
                for acc in ("store", "each"):
                    cases.append({"edges": edges, "seq_ok": True, "argvar_ok": True, "bare_acc": False, "argvar": xvar,
                                  "spec": {"pre": [], "acc": acc, "post": []},
                                  "flow": [{"d": x} for x in flow], "iter": it if acc == "store" else None, "map": None})
    edges = [[0, 2], [0, 2, 4]]
    cvar = {"kind": "combine", "vars": [{"name": "x", "i": 0, "type": ""}, {"name": "y", "i": 1, "type": ""}], "kw": {}}
    pts = [(x, y) for x in range(-1, 4) for y in range(-1, 6)]
    for n in range(0, 3):
        for flow in itertools.product(pts, repeat=n):
            cases.append({"edges": edges, "seq_ok": True, "argvar_ok": True, "bare_acc": False, "argvar": cvar,
                          "spec": {"pre": [], "acc": "store", "post": []},
                          "flow": [{"d": {"t": list(p)}} for p in flow], "iter": it if n < 2 else None, "map": None})
    return cases


def _systematic_two_level(tier):
    xvar = {"kind": "var", "name": "x", "getter": {"k": "proj", "i": 0}, "type": "", "kw": {}}
    yvar = {"kind": "var", "name": "y", "getter": {"k": "proj", "i": 1}, "type": "", "kw": {}}
    it = {"sel": "all", "bare": False, "ces": {"k": "default"}, "pre": [], "post": []}
    pts = [(x, y) for x in range(-1, 6) for y in range(-1, 4)]
    for n in range(0, 3 if tier == "thorough" else 2):
        for flow in itertools.product(pts, repeat=n):
            for acc in ("store", "each"):
                yield {"edges": [0, 2, 4], "seq_ok": True, "argvar_ok": True, "bare_acc": False, "argvar": xvar,
                       "spec": {"pre": [], "acc": "sum", "post": []},
                       "inner": {"edges": [0, 2], "argvar": yvar, "spec": {"pre": [], "acc": acc, "post": []},
                                 "sel": "all"},
                       "flow": [{"d": {"t": list(p)}} for p in flow], "iter": it, "map": None}


_LATE_ATTRS = [["unit", "cm"], ["unit", "mm"], ["latex_name", "x_{rec}"], ["range", {"l": [0, 10]}], ["name", "late"],
               ["type", "coordinate"], ["coordinate", {"name": "x"}], ["scale", 2]]


def _with_late(case, rng2):
    """the argument variable gets attributes AFTER the SplitIntoBins has been constructed (`x.unit = "cm"`: new ones,
    or other values of those it was made with), before the first fill and / or between the last fill and compute()
    (`sentence 4: context.variable describes the argument variable`, not a snapshot of it).  `rng2` is a stream of its
    own: the cases of the main stream stay what they were"""
    if not case.get("argvar_ok", True):
        return case
    late = [[rng2.choice([0, 0, 1])] + copy.deepcopy(rng2.choice(_LATE_ATTRS)) for _ in range(rng2.choice([1, 1, 2, 3]))]
    return dict(case, argvar=dict(copy.deepcopy(case["argvar"]), late=late))


def _systematic_late():
    """deterministic: every late attribute alone, at both times, 1-d variable and Combine; set twice; with compute() twice
    and a second SplitIntoBins"""
    xvar = {"kind": "var", "name": "x", "getter": {"k": "id"}, "type": "", "kw": {}}
    uvar = {"kind": "var", "name": "x", "getter": {"k": "id"}, "type": "coordinate", "kw": {"unit": "cm"}}
    cvar = {"kind": "combine", "vars": [{"name": "x", "i": 0, "type": ""}, {"name": "y", "i": 1, "type": ""}], "kw": {}}
    it = {"sel": "all", "bare": False, "pre": [], "post": []}
    flow1 = [{"d": 1}, {"d": 3, "c": {"data": "run1"}}, {"d": 7}]
    flow2 = [{"d": {"t": [1, 1]}}, {"d": {"t": [1, 3]}, "c": {"data": "run1"}}, {"d": {"t": [5, 5]}}]
    for var, edges, flow in ((xvar, [0, 2, 4], flow1), (uvar, [0, 2, 4], flow1), (cvar, [[0, 2], [0, 2, 4]], flow2)):
        lates = [[[w] + a] for a in _LATE_ATTRS for w in (0, 1)]
        lates += [[[0, "unit", "cm"], [1, "unit", "mm"]], [[0, "unit", "cm"], [0, "latex_name", "x_{rec}"]],
                  [[1, "name", "late"], [1, "range", {"l": [0, 10]}]]]
        for k, late in enumerate(lates):
            c = {"edges": edges, "seq_ok": True, "argvar_ok": True, "bare_acc": False,
                 "argvar": dict(copy.deepcopy(var), late=copy.deepcopy(late)),
                 "spec": {"pre": [], "acc": "store" if k % 2 == 0 else "each", "post": []},
                 "flow": copy.deepcopy(flow if k % 3 else flow[:1]), "iter": it if k % 2 == 0 else None, "map": None}
            if k % 4 == 1:
                c["twice"] = True
            if k % 4 == 2:
                c["reuse"] = True
            yield c


def gen_cases(ctx):
    """a generator (the thorough scope is enumerated lazily)"""
    ctx.exhaustive = False
    ctx.notes = _NOTES                      # filled in by compare()
    for c in _systematic(ctx.tier):
        yield c
    for c in _systematic_two_level(ctx.tier):
        yield c
    for c in _systematic_late():
        yield c
    for k, c in enumerate(_gen_cases_random(ctx)):
        rng2 = random.Random(f"C11:late:{ctx.tier}:{ctx.seed}:{k}")
        yield _with_late(c, rng2) if rng2.random() < 0.12 else c


def _gen_cases_random(ctx):
    rng = ctx.rng
    n = 3400 if ctx.tier == "quick" else 60000
    big = ctx.tier == "thorough"
    for _ in range(n):
        r = rng.random()
        if r < 0.10:
            yield _gen_two_level(rng, big)
        elif r < 0.18:
            yield _gen_float(rng, big)
        elif r < 0.25:
            yield _gen_float_fine(rng, big)
        elif r < 0.31:
            yield _gen_long(rng, big)
        elif r < 0.34:
            yield _gen_bigint(rng, big)
        else:
            yield _gen_random(rng, big)


# ----------------------------------------------------------------------------------------

def nontrivial(case, res):
    if "compute" not in res or not res["compute"]["out"]:
        return False
    if res.get("cells") is None:
        return True
    ncells = len(res["cells"])
    inside = sum(_count_in(c[1]) for c in res["cells"])
    return ncells >= 2 and inside >= 2


def _count_in(state):
    if "count" in state:
        return state["count"]
    return sum(_count_in(c[1]) for c in state["cells"])


def classify(case, res):
    edges = case["edges"]
    dim = (len(edges) if edges and isinstance(edges[0], list) else 1)
    labels = [f"dim={dim}", "acc=" + (case["inner"]["spec"]["acc"] if case.get("inner") else case["spec"]["acc"])]
    if case.get("inner"):
        labels.append("two-level")
    if case.get("fscale", 1) > 1:
        labels.append("float-coordinates")
    if case.get("twice"):
        labels.append("compute-twice")
    if case.get("fscale", 1) == _FINE:
        labels.append("arbitrary-floats")
    if case.get("edges_int"):
        labels.append("integer-edges-float-coordinates")
    if any(abs(x) >= 2 ** 53 * case.get("fscale", 1) for a in (edges if dim > 1 or (edges and isinstance(edges[0], list)) else [edges])
           for x in a if type(x) is int):
        labels.append("big-integers")
    if any(len(a) > 6 for a in (edges if edges and isinstance(edges[0], list) else [edges])):
        labels.append("long-axis")
    if case.get("shared_ctx"):
        labels.append("shared-context-object")
    if '"inf"' in str(case["flow"]).replace("'", '"'):
        labels.append("infinite-coordinate")
    for k in ("iter", "map"):
        st = case.get(k)
        if st and isinstance(st["sel"], dict):
            labels.append(k + ":sel=" + st["sel"]["k"] + ("(Selector)" if st["sel"].get("wrap") else ""))
        if st and st.get("geb"):
            labels.append("map:get_example_bin=" + st["geb"])
    if "__timeout__" in res:
        labels.append("watchdog")
    elif "init" in res:
        labels.append("init:" + res["init"])
    elif "fill" in res:
        labels.append("fill:" + res["fill"]["e"])
    else:
        labels.append("hists=" + str(min(len(res["compute"]["out"]), 3)))
        if res["compute"]["fin"]:
            labels.append("compute:" + res["compute"]["fin"])
        for k in ("iter", "map"):
            if res.get(k):
                if "init" in res[k]:
                    labels.append(k + ":init:" + res[k]["init"])
                else:
                    labels.append(k + (":" + res[k]["fin"] if res[k]["fin"] else ":ok"))
                    if any("h" in v for v in case[k]["pre"] + case[k]["post"]):
                        labels.append(k + ":synthetic-histogram")
        if case.get("iter") and (case["iter"].get("ces") or {}).get("k", "default") != "default":
            labels.append("ces=" + case["iter"]["ces"]["k"])
        if any(s["k"] in ("setkey", "var") for s in case["spec"]["pre"]):
            labels.append("pre-mutates-context")
        if any("c" in v for v in case["flow"]):
            labels.append("flow-with-context")
        if any(s["k"] in ("count", "acc") for s in case["spec"]["post"]):
            labels.append("post-stateful")
        if case.get("map") and any(s["k"] in ("count", "acc") for s in case["map"]["steps"]):
            labels.append("map-stateful" + ("-multicell" if len(res["cells"] or []) >= 2 and res["compute"]["out"] else ""))
        for k in ("pipe", "reuse"):
            if case.get(k):
                labels.append(k)
        if case.get("edges_form"):
            labels.append("edges_form=" + case["edges_form"])
        if res.get("compute") and len(res["compute"]["out"]) >= 2:
            labels.append("several-histograms-collected")
        if case["argvar"].get("getter", {}).get("k") == "list":
            labels.append("list-coordinates")
        if any(s["k"] == "acc" for s in (case.get("inner") or case)["spec"]["post"]):
            labels.append("eager-post-element")
        if res.get("iter") and "in" in res["iter"] and any(
                "h" in f and any("h" in c for c in _flat_cells(f["h"]["bins"])) for f in res["iter"]["in"]):
            labels.append("iter:histogram-valued-cells")
    return labels


def _flat_cells(b):
    if isinstance(b, list):
        for x in b:
            for c in _flat_cells(x):
                yield c
    else:
        yield b


def signature(case, failure):
    import re
    return "C11:" + re.sub(r"[^A-Za-z ]+", "", failure.split(":")[0])[:60].strip()


def shrink(case):
    c = case
    # big steps first (a candidate that hangs costs the watchdog's whole budget)
    if c.get("iter") or c.get("map"):
        yield dict(c, iter=None, map=None)
    n = len(c["flow"])
    if n >= 4:
        yield dict(c, flow=c["flow"][:n // 2])
        yield dict(c, flow=c["flow"][n // 2:])
    for k in ("twice", "reuse", "pipe", "edges_form", "shared_ctx"):
        if c.get(k):
            yield {kk: v for kk, v in c.items() if kk != k}
    e = c["edges"]
    if e and isinstance(e[0], list):
        for k, a in enumerate(e):
            if len(a) > 2:
                yield dict(c, edges=e[:k] + [a[:-1]] + e[k + 1:])
                yield dict(c, edges=e[:k] + [a[1:]] + e[k + 1:])
    elif len(e) > 2:
        yield dict(c, edges=e[:-1])
        yield dict(c, edges=e[1:])
    for i in range(len(c["flow"])):
        yield dict(c, flow=c["flow"][:i] + c["flow"][i + 1:])
    for st in ("iter", "map"):
        if c.get(st):
            yield dict(c, **{st: None})
            if c[st]["pre"] or c[st]["post"]:
                yield dict(c, **{st: dict(c[st], pre=[], post=[])})
    for part in ("pre", "post"):
        steps = c["spec"][part]
        for i in range(len(steps)):
            yield dict(c, spec=dict(c["spec"], **{part: steps[:i] + steps[i + 1:]}))
    if c.get("map") and c["map"]["steps"]:
        for i in range(len(c["map"]["steps"])):
            yield dict(c, map=dict(c["map"], steps=c["map"]["steps"][:i] + c["map"]["steps"][i + 1:]))
    for i, v in enumerate(c["flow"]):
        if v.get("c"):
            yield dict(c, flow=c["flow"][:i] + [{"d": v["d"], "c": {}}] + c["flow"][i + 1:])


# ---- MANIFEST texts ------------------------------------------------------------------------
LEVEL_TEXT = ("Lean 4 theorems about a transcribed model of SplitIntoBins / IterateBins / MapBins that is generic in the "
              "analysis (any fill/compute machine, compute() may raise when called or while iterated), for edges of any "
              "dimension and flows of any length: routing = half-open cells, per-cell state = analysis on the cell's sub-flow, "
              "values / number / exceptions of the yielded histograms, IterateBins cell by cell, MapBins cell by cell with "
              "progress, for select_bins in the forms a Selector is made from and for any get_example_bin. The model is a VALUE model: absence of sharing between cells, with the caller's objects and between "
              "yielded contexts ('private copy') is harness-only - a correspondence check over concrete analyses (pre* acc "
              "post*, context-mutating, stateful, multi-result, raising, two-level splits, float coordinates) and a direct "
              "oracle that recomputes every cell independently, re-uses the caller's objects (also one context dictionary for "
              "the whole flow), reads every yielded object again after the generators have ended and tests identity; "
              "edges in any sequence type, long axes, large integers and arbitrary floats beside the edges.")
LEVEL_NOTE = ("Trusted: Lean kernel (+ propext, Classical.choice, Quot.sound), the hand transcription validated by the "
              "correspondence run, the re-used C06/C14/NArr transcriptions, the fixture elements on both sides, the JSON protocol; "
              "object identity / copies are outside the model (harness only); constructor acceptance enters as Booleans.")
TECHNIQUE = "Lean 4 proof over hand-written generic model + correspondence check on concrete analyses + per-cell recomputation oracle"
DESIGN_REF = "DESIGN.md section 3, C11"
