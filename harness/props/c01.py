"""C01 — Sequence and Source compute the left-to-right composition of their elements.

Real code: lena.core.Sequence / Source / LenaSequence, lena.core.adapters.Run, lena.core.meta.flatten, run over the
real element vocabulary (plain callables, Variable, Filter, Slice, Count, RunIf, Reverse, End, Sum/Mean/StoreFilled/
FillCompute(Count) as fill-compute accumulators, explicit adapters.Run, nested Sequence, Split) and over synthetic classes that carry every
subset of {run, __call__, fill, compute, _has_no_data}.
Model: lean/LenaModel/Model/C01Stream.lean + C01.lean, theorems lean/LenaModel/Props/C01.lean.

Observable of a run (both sides): the values yielded, the exception class that ended the iteration (if any), and
whether the exception was raised by the call `run(flow)` itself; for constructors: exception class, phase "init".
"""
import warnings

from harness.common import exc_name

# Source warns when its only element is an iterable; that is not an error and not part of the property
warnings.filterwarnings("ignore", message="the only element of Source is an iterable")

PID = "C01"
TITLE = "Sequence and Source compute the left-to-right composition of their elements"
LEAN_MODULES = ["LenaModel.Props.C01", "LenaModel.Props.C01Kinds"]
LEAN_SOURCES = ["LenaModel/Model/C17.lean", "LenaModel/Model/Flow.lean", "LenaModel/Model/C01Stream.lean",
                "LenaModel/Model/C01.lean", "LenaModel/Lemmas/C01.lean", "LenaModel/Props/C01.lean",
                "LenaModel/Lemmas/C17.lean", "LenaModel/Props/C17.lean",
                "LenaModel/Model/C01Kinds.lean", "LenaModel/Props/C01Kinds.lean"]
DRIVER = "drivers/C01.lean"
# the theorems that carry the property (see the module docstring of lean/LenaModel/Props/C01.lean)
THEOREMS = [
    "Lena.C01.run_eq_fold",
    "Lena.C01.run_eq_fold_filter",
    "Lena.C01.run_cons",
    "Lena.C01.reject_at_construction",
    "Lena.C01.accept_at_construction",
    "Lena.C01.constructed_sound",
    "Lena.C01.nodata_only_id",
    "Lena.C01.seq_append",
    "Lena.C01.regroup",
    "Lena.C01.regroup_any_two",
    "Lena.C01.spec_regroup",
    "Lena.C01.source_tail",
    "Lena.C01.source_move",
    "Lena.C01.source_of_sequence_vals",
    "Lena.C01.run_callables",
    "Lena.C01.mapS_mapS",
    "Lena.C01.sliceS_ofList",
    "Lena.C01.rerunStored_append",
    "Lena.C01.seq_rerun_append",
    "Lena.C01.mkBranch_error",
    "Lena.C01.splitGo_fuel",
    "Lena.C01.splitLoopH_fuel",
    # adversary follow-up (Props/C01Kinds.lean): "every input flow" - the kind of the flow object and the class of an
    # exception do not matter
    "Lena.C01.runObj_eq_run",
    "Lena.C01.runObj_input_kind",
    "Lena.C01.runObj_result_iterator",
    "Lena.C01.loop_needs_conversion",
    "Lena.C01.source_callObj_kind",
    "Lena.C01.source_callObj_eq_call",
    "Lena.C01.stored_run_rename",
    "Lena.C01.runStored_rename",
    "Lena.C01.rerunStored_eq_runWithHist",
    "Lena.C01.shared_elements",
    "Lena.C01.runWithHist_append",
]
# true by definition of the model, consistency between two model functions, or restatements of a recursion: audited
# for axioms like the others, not counted as proof obligations of the property
AUX_THEOREMS = [
    "Lena.C01.empty_id",
    "Lena.C01.toTree_build",
    "Lena.C01.mapS_total",
    "Lena.C01.filterS_total",
    "Lena.C01.fcSpec_total",
    "Lena.C01.reverseS_ofList",
    "Lena.C01.rerun_nil",
    "Lena.C01.runIfH_const",
    "Lena.C01.splitH_seq",
    "Lena.C01.source_of_sequence",
    "Lena.C01.accFillQ_noFloat",
    "Lena.C01.accComputeQ_noFloat",
    "Lena.C01.source_construction_consumes_nothing",
    "Lena.C01.source_one_pass",
    "Lena.C01.callAt_zero",
    "Lena.C01.flowToIter_kind",
    "Lena.C01.flowToIter_strm",
    "Lena.C01.flowToIter_eq",
    "Lena.C01.runObjLoop_iterator",
    "Lena.C01.mapS_rename",
    "Lena.C01.fcLoop_rename",
]
TRUSTED = [
    "Lean 4.33.0 kernel; axioms limited to propext, Classical.choice, Quot.sound (audited by #print axioms on every run)",
    "hand transcription of LenaSequence.__init__ (_data_seq, __iter__/__len__), Sequence.__init__/run, adapters.Run.__init__ "
    "(with and without run=) /_call_run/_fc_run, is_fill_compute_el, Source.__init__/__call__, meta.flatten, "
    "_get_seq_with_type / FillComputeSeq.__init__ / FillSeq.__init__ / adapters.FillInto.__init__ (as far as Split uses them) "
    "into LenaModel/Model/C01.lean, and of the run methods of the element vocabulary (Filter, Slice, Count, RunIf, Reverse, "
    "End, Sum, Mean, StoreFilled, Split with sequence and fill_compute branches, Variable) with the state they keep "
    "between runs into LenaModel/Model/C01Stream.lean + Flow.lean, validated by this correspondence check",
    "Python generator semantics as modelled by streams (values yielded + terminating exception; exceptions of a call "
    "versus exceptions of the iteration), itertools.islice / collections.deque as transcribed (validated likewise)",
    "JSON line protocol encoders (harness/props/c01.py, drivers/C01.lean)",
]
ASSUMPTIONS = [
    "finite flows; the consumer drains the returned iterator (partial consumption is the subject of C02); the flow given "
    "to run is iterable (a non-iterable flow makes flow_to_iter raise TypeError - not generated); it is handed over as an "
    "iterator (list_iterator, generator object, a hand-written iterator class) or as an iterable without __next__ (list, "
    "tuple, deque, a reader class with __iter__ only) - also what a callable first element of a Source returns",
    "flows handed from element to element are iterators (run/compute are generators, as in all lena elements; "
    "RunShape.outKind = iterator in runObj_eq_run); a run() or compute() that returns a container is outside the "
    "vocabulary (the element after it would get a non-iterator in a flat Sequence but an iterator behind a nested one)",
    "that a chain of lazily interleaved Python generators is the composition of stream stages (each stage a function of "
    "the complete upstream stream: values + terminating exception) is the modelling decision of Model/C01Stream.lean, "
    "validated by the correspondence check and at the pull level by LenaModel/Bridge/Flow.lean "
    "(machines_yield_stream_prefix, pipeline_den); the theorems of Props/C01.lean are about the conversion and about the "
    "algebra of that composition",
    "'an argument that cannot be converted to an element' is read as the capability test of the code (a callable run, "
    "callable, callable fill and compute - hasattr/callable), not as a judgement about arity or return values: a class "
    "object (Sequence(lena.flow.Reverse)), lambda: 1 or any callable with the wrong signature IS convertible, is accepted, "
    "and the TypeError it raises on the first value is that callable's own exception (generated: the class object "
    "lena.flow.Reverse; recorded as a judgement, not a defect)",
    "static context is not modelled (C13): LenaSequence.__init__ calls _set_context({}) / _get_context of arguments that "
    "have them; no generated argument has a broken _get_context/_set_context, and no element of the vocabulary lets its "
    "output depend on static context (SetContext is generated only as an element without data)",
    "an element object that is run again (inside RunIf: once per selected value; in a Split sequence branch: once per "
    "buffer; one Sequence object run several times; the tail of one Source object called several times) is described by "
    "the complete inputs of its earlier runs: where runs repeat, no Slice (the only element that stops pulling early) is "
    "generated after an element with state, and none after a one-pass iterator that is used again - which values an "
    "element has seen when its consumer stops early is the pull accounting of C02",
    "value semantics (aliasing is C04): where runs repeat StoreFilled is generated only with yield_as_a_group=True, and a "
    "container that is the first element of a Source called again holds only immutable values (both would yield the same "
    "value objects again, whose contexts Count/Variable changed in place in the earlier run)",
    "the elements of one program are distinct objects, except: one stateless element object passed twice to one "
    "Sequence is generated, and element objects (with state) shared between sequences that are constructed and run one "
    "after the other (new Sequence objects, flat / nested, around used elements); an object WITH state passed twice to "
    "one Sequence is not",
    "Split: branches given as tuples (and, for stateless sequences, as Sequence objects), of type 'sequence' or "
    "'fill_compute'; before the fill/compute element only callables, Variable, Filter, RunIf over stateless elements "
    "(Slice.fill_into / Count.fill_into and a LenaStopFill that reaches Split are C17/C05/C03, fill_request and source "
    "branches C16/C03); meta.alter_sequence is exercised with a Cache-like hoisting element: its result is discarded by "
    "the code, so the model has no function for it (the oracle demands that a Sequence branch equals the tuple branch)",
    "a Sequence nested directly in a Sequence that is iterated as first element of a Source is not generated (the generic "
    "model has no value for that object); element objects and None travelling as values are observed by their class name",
    "value universe of the model: ints, strings, None, lists, tuples, (data, context) pairs, dyadic floats; bool, bytes, a "
    "dict as data, the empty tuple and plain callables that return them (a predicate used as a map, ...) occur only in "
    "cases without a model side, judged by the hand-chained reference; a float is compared exactly when it is "
    "an input value, float(n)/float(d) of Mean, or passes through 0 + f / f / 1.0 unchanged; any other float arithmetic "
    "is predicted as 'some float' and accepted as such",
    "exceptions raised by callables, predicates, fill and the input iterator: the ten classes the model names (TypeError, "
    "ValueError, IndexError, AttributeError, LenaValueError, LenaStopFill, LenaTypeError, LenaZeroDivisionError, "
    "LenaAttributeError, LenaNotImplementedError) and 18 it has no name for (LenaKeyError, LenaRuntimeError, LenaIndexError, "
    "LenaEnvironmentError, LenaException, KeyError, ZeroDivisionError, RuntimeError, NotImplementedError, OSError, "
    "AssertionError, LookupError, ArithmeticError, EOFError, OverflowError, UnicodeError, NameError, BufferError): for those "
    "the model is asked under two different renamings into its own classes (at most two such classes per case; "
    "runStored_rename is the theorem behind it) and the hand-chained reference is the direct oracle; StopIteration inside a "
    "generator (PEP 479) and BaseException (KeyboardInterrupt, GeneratorExit) are not generated",
    "adversary round, judgements: all ten candidates of notes/adversary_C01 change behaviour inside the statement "
    "(none judged outside); meta.alter_sequence has no model function: the code discards what an element proposes, the "
    "oracle demands that a Sequence branch of Split equals the tuple of the same elements (elements with a callable "
    "alter_sequence that propose another order are generated in every quick run)",
    "Python attribute lookup (hasattr/callable/isinstance) is represented by capability flags read from the real objects; "
    "a callable attribute is assumed to have the arity its caller uses",
    "seed round K: elements that are instances of user SUBCLASSES (overriding run / __call__ / compute) of Sequence, Split, "
    "Filter, Slice, Count, Reverse, RunIf, Sum/Mean/StoreFilled and of the synthetic classes have no model side (to the "
    "model and the theorems such an element is one more element with a run method: Spec run elements); they are judged by "
    "the hand-chained reference (post-processing of the base object's own transformation, no subclass of a lena class) and "
    "by equality of all groupings / Source cuts. Not generated: subclasses of lena.variables.Variable (own attribute "
    "protocol) and subclass methods shadowed by the instance attributes run/fill/compute that adapters.Run/FillCompute bind "
    "in their constructor (there the instance attribute IS the element's run). Observation, unchanged code, outside the "
    "statement: meta.flatten dissolves every LenaSequence instance, also one of a subclass with its own run (reached only "
    "through Split's alter_sequence when an element proposes a changed sequence); the flatten comparison is therefore not "
    "made for these cases",
]
RULE = ("exhaustive: capability flags (run, __call__, fill, compute, _has_no_data, __iter__, fill_into, _can_break_flow, "
        "request, Split) of every vocabulary kind and of all 108 synthetic classes (run/fill/compute in {absent, non-callable, "
        "method} x callable x _has_no_data) x request in {absent, non-callable, method} (plus a seeded sample of the product "
        "with fill_into, reset, alter_sequence in {absent, non-callable, method}); the first element of a Source as "
        "generator function, container, and one-pass iterator OBJECT (generator object - also one that raises -, "
        "iter(list), map, islice) x 3 flows x 7 tails x every cut point; each synthetic class bare and wrapped in adapters.Run as the only element, between "
        "two elements of a Sequence (4 groupings), as first element and in the tail of a Source (every cut point), and "
        "inside a Sequence that is the first element of a Source; Source(); all ordered pairs of the 51 representative "
        "elements (incl. RunIf/Split around Count and accumulators, Split with fill_compute branches, Run(el, run=...), "
        "Run(None, run=...)) x 2 flows (quick: alternately one of them) x 3 groupings; every representative alone on a "
        "flow whose iterator raises / an empty flow / a one-value flow; ALL bracketings (nodes of arity >= 2: 2, 6, 22, in "
        "thorough also 90 per list) of seeded random element lists of length 2..4 (thorough ..5). sampled (seeded; quick "
        "2500 + 700 + 300 + 1000, thorough 40000 + 12000 + 4000 + 15000): programs of length 0..8 over the whole "
        "vocabulary (nested RunIf/Split/Sequence to depth 3, stateful elements inside them) with 3-6 random bracketings "
        "each (with empty and unary nested Sequences), flows of length 0..8 of ints, strings, lists and (data, context) "
        "pairs, handed over as iterator or as list, optionally ending in an exception raised by the input iterator; ONE "
        "Sequence object run on 2-3 flows in a row, flat and nested at a cut; Split over stateless sequences against both "
        "model forms; Source(first, *els) with every cut point, with arguments without data before the first element, "
        "with a Sequence as first element. Per case also: conversion chosen per data element against the documented "
        "precedence, len / __getitem__ / __iter__ / flatten of the first argument, the callable composition for programs "
        "of callables. Review follow-up: None and dyadic floats as flow values; callables that return None or raise "
        "LenaValueError/LenaStopFill/LenaTypeError on a marked value, predicates and fill methods that do; Run(obj, "
        "run='alt') for objects with run and alt absent/non-callable/method; an object both callable and iterable; a class "
        "object, a list, a tuple as arguments; ONE Source object called 2-3 times (generator function, container, one-pass "
        "iterator, callable+iterable first; tail with state); one stateless element object passed twice; Split branches "
        "given as Sequence objects (through meta.alter_sequence, with Cache-like hoisting elements) against tuples; the "
        "auxiliary functions runIfS, accFill/accCompute, pySlice, Element.sourceFlow against the code. Adversary follow-up: the flow "
        "handed to run as iterator / list / tuple / deque / reader (only __iter__) / iterator class / generator object (every "
        "representative as first element x 6 kinds, pairs in turn, 30-40 % of the sampled cases), a callable first element of a "
        "Source that returns each of them, a tuple / deque / reader AS first element; every exception class (10 named by the model + 18 others, through two renamings) from a "
        "callable, a predicate, a fill, the input iterator and the first element of a Source, around a fill/compute element; "
        "adapters.Run / Run(.., run='run') put by the caller around ANY element (nested ones, other adapters, twice); NEW "
        "Sequence objects (flat / nested in turn) around element objects that were used before, in every repeated-run case; "
        "elements whose alter_sequence proposes another order in Sequence branches of Split (fixed cases + 30 % of the sampled); "
        "a first element of a Source that is neither callable nor iterable (None, a plain object, an object with __getitem__ "
        "only); plain callables with bool / dict / bytes / tuple results and such values (500 / 8000 programs without a model "
        "side); one element's own run on every kind of flow object against Stored.runObj. Seed round K: instances of user subclasses "
        "(overriding run / __call__ / compute: yield twice, tag, drop repeats) of 21 base elements (Sequence of several shapes, Split, Filter, "
        "Slice, Count, Reverse, accumulators, RunIf, synthetic run / call / fill-compute classes, adapters) x 3 overrides between two "
        "callables in ALL groupings + unary / empty nestings and in the tail of a Source at every cut, alone, nested by the caller, "
        "inside a subclass instance, run repeatedly; sampled 250 + 60 + 60 (thorough 4000 + 1000 + 1000) programs with 1-2 such "
        "elements (subclass instances of Sequence inside subclass instances of Sequence to depth 3). Non-trivial: at least two data elements and (a value yielded or an exception).")
CASE_TIMEOUT = 10

# ----------------------------------------------------------------------------------------
# values: JSON <-> Python

NONE = "<obj:NoneType>"      # how None travels in JSON (and in the model: an object known by its class name)


def dec(j):
    """JSON value -> fresh Python value (tuples and dicts are tagged)"""
    if isinstance(j, list):
        return [dec(x) for x in j]
    if isinstance(j, dict):
        if "t" in j:
            return tuple(dec(x) for x in j["t"])
        if "d" in j:
            return {k: dec(v) for k, v in j["d"].items()}
        if "q" in j:
            return float(j["q"][0]) / float(j["q"][1])      # a float value of a flow, given exactly
        if "bool" in j:
            return bool(j["bool"])                          # (only in cases without a model side)
        if "bytes" in j:
            return j["bytes"].encode("ascii")
        raise ValueError(j)
    if j == NONE:
        return None
    return j


def enc(v):
    if type(v) is int or type(v) is str:
        return v
    if type(v) is list:
        return [enc(x) for x in v]
    if type(v) is tuple:
        return {"t": [enc(x) for x in v]}
    if type(v) is dict:
        return {"d": {str(k): enc(x) for k, x in v.items()}}
    if type(v) is float:
        return {"f": repr(v)}
    if type(v) is bool:
        return {"bool": int(v)}
    if type(v) is bytes:
        return {"bytes": v.decode("ascii")}
    if getattr(type(v), "_verif_junk", False):
        return NONE          # the objects without any interface are one class for the model
    # an element object travelling as a value (a Sequence iterated as first element of a Source)
    return "<obj:%s>" % type(v).__name__


def model_value(j):
    """a model reply value in the encoding of `enc` ({"q":[n,d]} is the float float(n)/float(d))"""
    if isinstance(j, list):
        return [model_value(x) for x in j]
    if isinstance(j, dict):
        if "q" in j:
            n, d = j["q"]
            if d == 0:
                return {"f": "*"}        # some float: the model does not compute its value
            return {"f": repr(float(n) / float(d))}
        if "t" in j:
            return {"t": [model_value(x) for x in j["t"]]}
        if "d" in j:
            return {"d": {k: model_value(v) for k, v in j["d"].items()}}
    return j


EXC = {"Other:ValueError": ValueError, "Other:TypeError": TypeError, "Other:IndexError": IndexError}
LENA_EXC = ["LenaValueError", "LenaStopFill", "LenaTypeError"]
# exception classes the model has a name for (Lena.Flow.Exc): raised by callables, predicates, fill and the input iterator
MODEL_LENA_EXC = LENA_EXC + ["LenaZeroDivisionError", "LenaAttributeError", "LenaNotImplementedError"]
MODEL_PY_EXC = ["Other:ValueError", "Other:TypeError", "Other:IndexError", "Other:AttributeError"]
# ... and classes it has none for (adversary follow-up): the anchored code must treat every exception class alike -
# cases that mention one of these are evaluated by the direct oracle (hand-chained reference) and sent to the model
# under two different renamings into model classes (see model_requests / _decode_renamed)
WIDE_EXC = ["LenaKeyError", "LenaRuntimeError", "LenaIndexError", "LenaEnvironmentError", "Other:LenaException",
            "Other:KeyError", "Other:ZeroDivisionError", "Other:RuntimeError", "Other:NotImplementedError",
            "Other:OSError", "Other:AssertionError", "Other:LookupError", "Other:ArithmeticError", "Other:EOFError",
            "Other:OverflowError", "Other:UnicodeError", "Other:NameError", "Other:BufferError"]


def exc_class(name):
    import builtins
    import lena.core
    if name in EXC:
        return EXC[name]
    if name.startswith("Other:"):
        n = name[len("Other:"):]
        return getattr(builtins, n) if hasattr(builtins, n) else getattr(lena.core, n)
    return getattr(lena.core, name)


# how a flow object is handed over (adversary follow-up): Sequence.run / Source.__call__ promise to convert whatever
# iterable they get into an iterator (functions.flow_to_iter); elements like Count take next(flow)
FLOW_KINDS = ["iter", "list", "tuple", "deque", "reader", "iterclass", "genobj"]
CONTAINER_KINDS = ("list", "tuple", "deque")


# what Python can do with the object: next(flow) works (iterator) or only iter(flow) (iterable)
KIND_CLASS = {None: "iterator", "iter": "iterator", "iterclass": "iterator", "genobj": "iterator", "genfn": "iterator",
              "list": "iterable", "tuple": "iterable", "deque": "iterable", "reader": "iterable"}


class Reader(object):
    """an iterable that is not an iterator and has no __len__: only __iter__ (a data reader)"""
    def __init__(self, vals, exc=None):
        self._vals, self._exc = vals, exc

    def __iter__(self):
        for v in self._vals:
            yield v
        if self._exc is not None:
            raise self._exc("input flow failed")


class IterClass(object):
    """a hand-written iterator class (__next__ and __iter__), not a generator"""
    def __init__(self, vals, exc=None):
        self._it, self._exc = iter(vals), exc

    def __iter__(self):
        return self

    def __next__(self):
        try:
            return next(self._it)
        except StopIteration:
            if self._exc is not None:
                exc, self._exc = self._exc, None
                raise exc("input flow failed")
            raise


def make_flow(flow, term, as_list=False, kind=None):
    """the input flow: an iterator (or, with as_list / kind, a container, an iterable without __next__, an iterator
    of another class) over fresh copies of the values, which then raises `term` (if any)"""
    vals = dec(flow)
    exc = exc_class(term) if term is not None else None
    if as_list and kind is None:
        kind = "list"
    if kind in CONTAINER_KINDS:
        assert term is None
        if kind == "list":
            return vals
        if kind == "tuple":
            return tuple(vals)
        import collections
        return collections.deque(vals)
    if kind == "reader":
        return Reader(vals, exc)
    if kind == "iterclass":
        return IterClass(vals, exc)
    if term is None and kind != "genobj":
        return iter(vals)

    def failing():
        for v in vals:
            yield v
        if exc is not None:
            raise exc("input flow failed")
    return failing()


def observe(thunk):
    """what a draining consumer sees"""
    out = []
    try:
        it = thunk()
    except Exception as e:
        return {"r": [], "t": exc_name(e), "eager": True}
    try:
        for v in it:
            out.append(enc(v))
    except Exception as e:
        return {"r": out, "t": exc_name(e), "eager": False}
    return {"r": out, "t": None, "eager": False}


# ----------------------------------------------------------------------------------------
# the element vocabulary (real objects from specs)

def _need_int(d):
    if type(d) is not int:
        raise TypeError("int expected")
    return d


def _inc(d):
    return _need_int(d) + 1


def _neg(d):
    return -_need_int(d)


def _mod3(d):
    return _need_int(d) % 3


def _boom(d):
    if _need_int(d) == 13:
        raise ValueError("boom")
    return d


def _ident(d):
    return d


def _wrap(d):
    return [d]


ON_DATA = {"inc": _inc, "neg": _neg, "mod3": _mod3, "boom": _boom, "ident": _ident, "wrap": _wrap}


def _has_context(v):
    return isinstance(v, tuple) and len(v) == 2 and isinstance(v[1], dict)


def make_callable(f):
    """plain callable of the vocabulary: ident and wrap act on the whole value, the others on the data part"""
    g = ON_DATA[f]
    if f in ("ident", "wrap"):
        def whole(v):
            return g(v)
        whole.__name__ = "call_" + f
        return whole

    def on_data(v):
        if _has_context(v):
            return (g(v[0]), v[1])
        return g(v)
    on_data.__name__ = "call_" + f
    return on_data


def make_pred(p):
    import lena.flow

    def pred(v):
        if p == "all":
            return True
        if p == "none":
            return False
        d = _need_int(lena.flow.get_data(v))
        if p == "even":
            return d % 2 == 0
        if p == "pos":
            return d > 0
        if p == "lt5":
            return d < 5
        raise ValueError(p)
    pred.__name__ = "pred_" + p
    return pred


_SYN_CACHE = {}


def syn_class(run, call, fill, compute, nodata, request=None, fill_into=0, reset=0, alter=0):
    key = (run, call, fill, compute, nodata, request, fill_into, reset, alter)
    if key in _SYN_CACHE:
        return _SYN_CACHE[key]
    ns = {}
    if request == 2:
        def request_(self):
            yield ["rq", list(self.filled)]
        ns["request"] = request_
    elif request == 1:
        ns["request"] = "not callable"
    if fill_into == 2:
        def fill_into_(self, element, value):
            element.fill(["fi", value])
        ns["fill_into"] = fill_into_
    elif fill_into == 1:
        ns["fill_into"] = 3
    if reset == 2:
        def reset_(self):
            self.filled = []
        ns["reset"] = reset_
    elif reset == 1:
        ns["reset"] = None
    if alter == 2:
        def alter_sequence_(self, seq):
            # like Cache.alter_sequence: proposes a sequence with this element hoisted to the front (idempotent)
            import lena.core
            els = list(seq)
            if els and els[0] is not self and any(e is self for e in els):
                return lena.core.Sequence(*([self] + [e for e in els if e is not self]))
            return seq
        ns["alter_sequence"] = alter_sequence_
    elif alter == 1:
        ns["alter_sequence"] = "no"

    def __init__(self):
        self.filled = []
    ns["__init__"] = __init__
    if run == 2:
        def run_(self, flow):
            for v in flow:
                yield ["run", v]
        ns["run"] = run_
    elif run == 1:
        ns["run"] = 5
    if call:
        def __call__(self, v):
            return ["call", v]
        ns["__call__"] = __call__
    if fill == 2:
        def fill_(self, v):
            self.filled.append(v)
        ns["fill"] = fill_
    elif fill == 1:
        ns["fill"] = "not callable"
    if compute == 2:
        def compute_(self):
            yield ["fc", list(self.filled)]
        ns["compute"] = compute_
    elif compute == 1:
        ns["compute"] = 7
    if nodata:
        ns["_has_no_data"] = True
    name = "Syn_r%d_c%d_f%d_p%d_n%d" % (run, int(call), fill, compute, int(nodata))
    if request is not None:
        name += "_q%d_i%d_s%d_a%d" % (request, fill_into, reset, alter)
    cls = type(name, (object,), ns)
    _SYN_CACHE[key] = cls
    return cls


# objects with none of the interfaces (an unconvertible *iterable* is the spec {"k": "iter"}: a list)
JUNK = {"none": None}


class JunkPlain(object):
    """an object without any of the interfaces"""
    _verif_junk = True


class JunkGetItem(object):
    """an old-style sequence: __getitem__ and __len__, no __iter__ - iter() accepts it, lena's tests for a first
    element of a Source (callable or hasattr __iter__) do not"""
    _verif_junk = True
    vals = [1, 2, 3]

    def __getitem__(self, i):
        return self.vals[i]

    def __len__(self):
        return len(self.vals)


# plain Python callables whose results are outside the model's value universe (bool, dict, bytes, a 2-tuple that is
# not (data, context)): cases with them have no model side; the direct oracle (hand-chained reference) judges them
def _p_iseven(v):
    import lena.flow
    d = lena.flow.get_data(v)
    return type(d) is int and d % 2 == 0


def _p_isint(v):
    return type(v) is int


def _p_not(v):
    return not v


def _p_true(v):
    return True


def _p_false(v):
    return False


def _p_todict(v):
    return {"v": v}


def _p_tobytes(v):
    return str(v).encode("ascii", "replace")


def _p_pair(v):
    return (v, v)


def _p_zero(v):
    return 0


def _p_empty(v):
    return ()


NATIVE = {"iseven": _p_iseven, "isint": _p_isint, "not": _p_not, "true": _p_true, "false": _p_false,
          "todict": _p_todict, "tobytes": _p_tobytes, "pair": _p_pair, "zero": _p_zero, "empty": _p_empty}


def syn_raise_class():
    if "raise" not in _SYN_CACHE:
        class SynRaise(object):
            def __init__(self, exc):
                self.exc, self.filled = exc, []

            def fill(self, v):
                import lena.flow
                d = lena.flow.get_data(v)
                if type(d) is int and d == 13:
                    raise self.exc("fill failed")
                self.filled.append(v)

            def compute(self):
                yield ["fcr", list(self.filled)]
        _SYN_CACHE["raise"] = SynRaise
    return _SYN_CACHE["raise"]


def both_class():
    if "both" not in _SYN_CACHE:
        class Both(object):
            """callable without arguments (a generator) and iterable, with different contents"""
            def __init__(self, cflow, iflow):
                self.cflow, self.iflow = cflow, iflow

            def __call__(self):
                import copy
                for v in copy.deepcopy(self.cflow):       # fresh values at every call, like a generator function
                    yield v

            def __iter__(self):
                return iter(list(self.iflow))
        _SYN_CACHE["both"] = Both
    return _SYN_CACHE["both"]


def syn_alt_class(hasrun, alt):
    key = ("alt", hasrun, alt)
    if key not in _SYN_CACHE:
        ns = {}
        if hasrun:
            def run_(self, flow):
                for v in flow:
                    yield ["run", v]
            ns["run"] = run_
        if alt == 2:
            def alt_(self, flow):
                for v in flow:
                    yield ["alt", v]
            ns["alt"] = alt_
        elif alt == 1:
            ns["alt"] = 5
        _SYN_CACHE[key] = type("SynAlt_r%d_a%d" % (int(hasrun), alt), (object,), ns)
    return _SYN_CACHE[key]


# ---- user subclasses of lena's classes (and of the synthetic ones) that override the method Sequence dispatches on ----
SUB_POSTS = ("twice", "tag", "dedup")


def post_stream(post, it):
    """what the overriding method of a subclass does with the stream of the inherited method"""
    if post == "twice":
        for v in it:
            yield v
            yield v
    elif post == "tag":
        for v in it:
            yield ["sub", v]
    elif post == "dedup":            # drops a value equal (==) to the value before it
        first, last = True, None
        for v in it:
            if first or not (v == last):
                yield v
            first, last = False, v
    else:
        raise ValueError(post)


def sub_mode(fl):
    """the method Sequence (through adapters.Run) uses for an element: the one the subclass overrides"""
    return "run" if fl["run"] == 2 else "call" if fl["call"] else "fc" if (fl["fill"] == 2 and fl["compute"] == 2) else None


def sub_effective(obj, mode):
    """lena's adapters (Run, FillCompute, ...) bind run / fill / compute as INSTANCE attributes in their constructor:
    a method of a subclass is shadowed there - the element's run is what the instance says; no subclass is made"""
    name = {"run": "run", "fc": "compute"}.get(mode)
    return mode is not None and not (name and name in getattr(obj, "__dict__", {}))


def sub_class(base, mode, post):
    """a subclass of `base` (Sequence, Split, Filter, Sum, adapters.Run, a synthetic class, ...) written the way a user
    writes one: it overrides run / __call__ / compute and post-processes what the inherited method gives"""
    key = ("sub", base, mode, post)
    if key not in _SYN_CACHE:
        if mode == "run":
            class Sub(base):
                def run(self, flow):
                    for v in post_stream(post, super(Sub, self).run(flow)):
                        yield v
        elif mode == "call":
            class Sub(base):
                def __call__(self, value):
                    return ["sub", super(Sub, self).__call__(value)]
        else:
            class Sub(base):
                def compute(self):
                    for v in post_stream(post, super(Sub, self).compute()):
                        yield v
        Sub.__name__ = "Sub_%s_%s_%s" % (base.__name__, mode, post)
        _SYN_CACHE[key] = Sub
    return _SYN_CACHE[key]


class _RefRun(object):
    def __init__(self, run):
        self.run = run


class _RefCall(object):
    def __init__(self, f):
        self.f = f

    def __call__(self, value):
        return self.f(value)


class _RefFC(object):
    def __init__(self, fill, compute):
        self.fill, self.compute = fill, compute


def build(spec):
    """the real object denoted by a spec; constructors may raise (Python evaluation order: left to right, inner first)"""
    import lena.core
    import lena.flow
    import lena.math
    import lena.meta
    import lena.variables
    k = spec["k"]
    if k == "call":
        return make_callable(spec["f"])
    if k == "var":
        return lena.variables.Variable(spec["name"], getter=ON_DATA[spec["f"]])
    if k == "filter":
        return lena.flow.Filter(make_pred(spec["p"]))
    if k == "slice":
        return lena.flow.Slice(*spec["args"])
    if k == "count":
        return lena.flow.Count(spec["name"])
    if k == "runif":
        return lena.flow.RunIf(make_pred(spec["p"]), *[build(s) for s in spec["inner"]])
    if k == "reverse":
        return lena.flow.Reverse()
    if k == "end":
        return lena.flow.End()
    if k == "acc":
        a = spec["a"]
        if a == "sum":
            return lena.math.Sum()
        if a == "mean":
            return lena.math.Mean()
        if a == "store":
            return lena.flow.StoreFilled(spec["group"])
        if a == "count":
            return lena.core.FillCompute(lena.flow.Count(spec["name"]))
        raise ValueError(a)
    if k == "seq":
        return lena.core.Sequence(*[build(s) for s in spec["els"]])
    if k == "sub":
        # an instance of a user subclass of the class of build(spec["of"]): constructed by the inherited constructor
        obj = build(spec["of"])
        mode = sub_mode(flags_of(obj))
        if not sub_effective(obj, mode):
            return obj
        obj.__class__ = sub_class(type(obj), mode, spec["post"])
        return obj
    if k == "split":
        return lena.core.Split([tuple(build(s) for s in b) for b in spec["branches"]], bufsize=spec["bufsize"])
    if k == "run":
        return lena.core.Run(build(spec["el"]))
    if k == "runnamed":
        return lena.core.Run(build(spec["el"]), run="run")
    if k == "runnone":
        f = make_callable(spec["f"])

        def gen_run(flow):
            for v in flow:
                yield f(v)
        return lena.core.Run(None, run=gen_run)
    if k == "runnonebad":
        return lena.core.Run(None, run=5)
    if k == "syn":
        if spec.get("request") is not None:
            return syn_class(spec["run"], spec["call"], spec["fill"], spec["compute"], spec["nodata"],
                             spec["request"], spec["fill_into"], spec["reset"], spec["alter"])()
        return syn_class(spec["run"], spec["call"], spec["fill"], spec["compute"], spec["nodata"])()
    if k == "callx":
        to_none, exc = spec["none"], spec.get("exc")

        def callx(v):
            d = lena.flow.get_data(v)
            if type(d) is int:
                if to_none:
                    return None if d % 2 == 1 else v
                if d == 13:
                    raise exc_class(exc)("callable failed")
            return v
        return callx
    if k == "filterx":
        exc = spec["exc"]

        def predx(v):
            d = lena.flow.get_data(v)
            if type(d) is int and d == 13:
                raise exc_class(exc)("predicate failed")
            return True
        return lena.flow.Filter(predx)
    if k == "synraise":
        return syn_raise_class()(exc_class(spec["exc"]))
    if k == "both":
        return both_class()(dec(spec["cflow"]), dec(spec["iflow"]))
    if k == "runalt":
        return lena.core.Run(syn_alt_class(spec["hasrun"], spec["alt"])(), run="alt")
    if k == "classobj":
        return lena.flow.Reverse
    if k == "iterobj":
        import itertools
        vals, term, cls = dec(spec["flow"]), spec.get("term"), spec["cls"]
        if cls == "generator":
            def g():
                for v in vals:
                    yield v
                if term is not None:
                    raise exc_class(term)("first element failed")
            return g()
        if cls == "list_iterator":
            return iter(vals)
        if cls == "map":
            return map(_ident, vals)
        if cls == "islice":
            return itertools.islice(iter(vals), None)
        raise ValueError(cls)
    if k == "junk":
        jk = spec.get("kind", "none")
        return None if jk == "none" else JunkPlain() if jk == "plain" else JunkGetItem()
    if k == "callp":
        return NATIVE[spec["f"]]
    if k == "setctx":
        return lena.meta.SetContext("verif", 1)
    if k == "gen":
        flow, ret = spec["flow"], spec.get("ret", "iter")
        if ret == "genfn":
            def genfn():
                for v in dec(flow):
                    yield v
            return genfn
        # a callable whose result is an iterator, a container, an iterable without __next__, an iterator class
        return lambda: make_flow(flow, None, kind=ret)
    if k == "iter":
        if spec.get("cont"):
            # (only as first element of a Source) a deque, a reader object with __iter__ only
            return make_flow(spec["flow"], None, kind=spec["cont"])
        return tuple(dec(spec["flow"])) if spec.get("tuple") else dec(spec["flow"])
    raise ValueError(k)


def flags_of(el):
    def attr(name):
        if not hasattr(el, name):
            return 0
        return 2 if callable(getattr(el, name)) else 1
    return {"run": attr("run"), "call": bool(callable(el)), "fill": attr("fill"), "compute": attr("compute"),
            "nodata": hasattr(el, "_has_no_data"), "iter": hasattr(el, "__iter__"),
            "request": attr("request"), "fill_into_attr": attr("fill_into"),
            "fill_into": callable(getattr(el, "fill_into", None)), "can_break_flow": hasattr(el, "_can_break_flow"),
            "is_split": isinstance(el, __import__("lena.core").core.Split)}


def convertible(fl):
    """the property's criterion: a callable run, or callable, or callable fill and compute"""
    return fl["run"] == 2 or fl["call"] or (fl["fill"] == 2 and fl["compute"] == 2)


# ----------------------------------------------------------------------------------------
# bracketings: a nested list over the indices 0..n-1 (in order); [] is an empty nested Sequence

def nest(els, brk):
    """element specs grouped as the bracketing says (the argument list of the outer Sequence)"""
    return [els[b] if isinstance(b, int) else {"k": "seq", "els": nest(els, b)} for b in brk]


def _forests2(lo, hi, memo):
    """all lists of >= 2 trees covering lo..hi-1"""
    key = (2, lo, hi)
    if key not in memo:
        res = []
        for mid in range(lo + 1, hi):
            for t in _trees(lo, mid, memo):
                for rest in _forests(mid, hi, memo):
                    res.append([t] + rest)
        memo[key] = res
    return memo[key]


def _trees(lo, hi, memo):
    """a tree over one index is the index, over more indices a list of >= 2 trees"""
    return [lo] if hi == lo + 1 else _forests2(lo, hi, memo)


def _forests(lo, hi, memo):
    """all lists of >= 1 trees covering lo..hi-1 (the empty list for an empty range)"""
    if lo == hi:
        return [[]]
    return [[t] for t in _trees(lo, hi, memo)] + _forests2(lo, hi, memo)


def all_bracketings(n):
    return _forests(0, n, {})


def random_bracketing(rng, n, deco=0.15):
    """a random tree over 0..n-1, possibly with empty and unary nested sequences"""
    def go(lo, hi, depth):
        out = []
        i = lo
        while i < hi:
            if rng.random() < deco / 2:
                out.append([])
            if depth < 4 and rng.random() < 0.35:
                j = rng.randint(i + 1, hi)
                out.append(go(i, j, depth + 1))
                i = j
            else:
                out.append(i)
                i += 1
        if rng.random() < deco / 2:
            out.append([])
        return out
    return go(0, n, 0)


def flat_bracketing(n):
    return list(range(n))


# ----------------------------------------------------------------------------------------
# running the real code

def _construct(thunk):
    try:
        return thunk(), None
    except Exception as e:
        return None, {"e": exc_name(e), "phase": "init"}


def nest_objs(objs, brk):
    """Sequence arguments from already built top-level objects, grouped as the bracketing says"""
    import lena.core
    return [objs[b] if isinstance(b, int) else lena.core.Sequence(*nest_objs(objs, b)) for b in brk]


def build_shared(els, share):
    """top-level objects where position share[1] IS the object at position share[0] (one object passed twice)"""
    objs = [build(s) for s in els]
    objs[share[1]] = objs[share[0]]
    return objs


def run_variant(els, brk, flow, term, as_list=False, share=None, kind=None):
    import lena.core
    if share:
        seq, err = _construct(lambda: lena.core.Sequence(*nest_objs(build_shared(els, share), brk)))
        if err:
            return err
        return observe(lambda: seq.run(make_flow(flow, term, as_list, kind)))
    seq, err = _construct(lambda: lena.core.Sequence(*[build(s) for s in nest(els, brk)]))
    if err:
        return err
    return observe(lambda: seq.run(make_flow(flow, term, as_list, kind)))


def run_flat(els, brk, flow, term):
    import lena.core
    seq, err = _construct(lambda: lena.core.Sequence(*[build(s) for s in nest(els, brk)]))
    if err:
        return err
    seq2, err = _construct(lambda: lena.core.Sequence(*lena.core.meta.flatten(seq)))
    if err:
        return err
    return observe(lambda: seq2.run(make_flow(flow, term)))


def shape_of(els, brk):
    """len(Sequence(*args)), and what meta.flatten gives for the first argument alone: the element itself, or the
    number of elements of a (nested) sequence; also checks __getitem__/__iter__ against the arguments"""
    import lena.core
    args, err = _construct(lambda: [build(s) for s in nest(els, brk)])
    if err:
        return {"len": None, "first": None}
    seq, err = _construct(lambda: lena.core.Sequence(*args))
    if err:
        return {"len": None, "first": None}
    if list(seq) != list(args) or any(seq[i] is not args[i] for i in range(len(args))):
        return {"len": "__iter__/__getitem__ do not return the arguments", "first": None}
    first = None
    if args:
        fl = lena.core.flatten(args[0])
        first = "element" if fl is args[0] and not isinstance(fl, lena.core.LenaSequence) else len(list(fl))
    return {"len": len(seq), "first": first}


def element_facts(els):
    """per top-level element: does its own constructor raise, its flags, convertibility (Python introspection only)"""
    facts = []
    for s in els:
        el, err = _construct(lambda: build(s))
        if err:
            facts.append({"ctor": err["e"]})
        else:
            fl = flags_of(el)
            mode = "run" if fl["run"] == 2 else "call" if fl["call"] else "fc" if (fl["fill"] == 2 and fl["compute"] == 2) else None
            facts.append({"ctor": None, "nodata": fl["nodata"], "conv": convertible(fl), "mode": mode, "flags": fl})
    return facts


class _Skip(Exception):
    pass


class _Virtual(object):
    """stands for an adapters.Run object in the hand-chained reference: an object with a run method, nothing else"""
    def __init__(self, run):
        self.run = run


def _dispatch(el, fl):
    """the documented transformation of an object: its run; else its map over the flow; else fill all, then compute"""
    if fl["run"] == 2:
        return el.run
    if fl["call"]:
        return lambda it: (el(v) for v in it)
    if fl["fill"] == 2 and fl["compute"] == 2:
        def fc(it):
            for v in it:
                el.fill(v)
            return el.compute()
        return fc
    raise _Skip("unconvertible element")


def ref_object(spec):
    """the object a top-level spec denotes, for the hand-chained reference: the adapter under test (adapters.Run) is
    not used - Run(x) stands for x's own transformation (run, else callable, else fill/compute), Run(x, run=name)
    for x.name ("the name of the method run can be customized"), Run(None, run=g) for g"""
    k = spec["k"]
    if k == "run":
        inner = ref_object(spec["el"])
        return _Virtual(_dispatch(inner, flags_of(inner)))
    if k == "runnamed":
        inner = ref_object(spec["el"])
        if flags_of(inner)["run"] != 2:
            raise _Skip("no callable run")
        return _Virtual(inner.run)
    if k == "runalt":
        if spec["alt"] != 2:
            raise _Skip("no callable alt")
        return _Virtual(syn_alt_class(spec["hasrun"], spec["alt"])().alt)
    if k == "runnone":
        f = make_callable(spec["f"])

        def gen_run(flow):
            for v in flow:
                yield f(v)
        return _Virtual(gen_run)
    if k == "runnonebad":
        raise _Skip("run not callable")
    if k == "sub":
        # no subclass of a lena class here: a plain object whose transformation is the post-processing of the
        # transformation of the (fresh) base object
        inner, post = ref_object(spec["of"]), spec["post"]
        mode = sub_mode(flags_of(inner))
        if not sub_effective(inner, mode):
            return inner
        if mode == "run":
            def run_(flow):                  # a generator function, as the method of the subclass is
                for v in post_stream(post, inner.run(flow)):
                    yield v
            return _RefRun(run_)
        if mode == "call":
            return _RefCall(lambda v: ["sub", inner(v)])
        if mode == "fc":
            def compute_():
                for v in post_stream(post, inner.compute()):
                    yield v
            return _RefFC(inner.fill, compute_)
        return inner
    return build(spec)


def ref_objects(specs):
    """fresh objects for the reference, or None (a constructor raises / an adapter cannot be built)"""
    objs = []
    for s in specs:
        try:
            objs.append(ref_object(s))
        except Exception:
            return None
    return objs


def reference(els, flow, term, share=None):
    """The property's own statement: feed each element's stream transformation with the output of the previous one.
    No Sequence, no adapters: fresh elements, chained by hand.  Run's documented transformations: an element with
    run -> run(flow); a callable -> its map over the flow; fill/compute -> fill the whole flow, then compute."""
    objs = ref_objects(els)
    if objs is None:
        return {"skip": "element constructor raised"}
    if share:
        objs[share[1]] = objs[share[0]]
    stages = []
    for el in objs:
        fl = flags_of(el)
        if fl["nodata"]:
            continue
        if not convertible(fl):
            return {"skip": "unconvertible element"}
        stages.append((el, fl))

    def chain():
        cur = make_flow(flow, term)
        for el, fl in stages:
            if fl["run"] == 2:
                cur = el.run(cur)
            elif fl["call"]:
                cur = (lambda f, it: (f(v) for v in it))(el, cur)
            else:
                for v in cur:
                    el.fill(v)
                cur = el.compute()
        return iter(cur)
    return observe(chain)


def run_impl(case):
    import lena.core
    op = case["op"]
    if op == "regroup":
        els, flow, term = case["els"], case["flow"], case.get("term")
        res = {"variants": [run_variant(els, b, flow, term, bool(case.get("lst")), case.get("share"), case.get("kind"))
                            for b in case["brks"]],
               "flat": [] if case.get("noflat") else [run_flat(els, b, flow, term) for b in case["brks"][:2]],
               "facts": [{k: v for k, v in f.items() if k != "flags"} for f in element_facts(els)],
               "ref": reference(els, flow, term, case.get("share")),
               "shape": shape_of(els, case["brks"][-1])}
        return res
    if op == "rerun":
        els, k = case["els"], case["cut"]
        flows = list(case["pasts"]) + [case["flow"]]

        kind = case.get("kind")

        def runs(mk):
            seq, err = _construct(mk)
            if err:
                return err
            outs = []
            for fl in flows:
                o = observe(lambda: seq.run(make_flow(fl, None, kind=kind)))
                outs.append(o)
                if o["t"] is not None:
                    break            # after an exception the objects are not run again
            return outs
        whole = runs(lambda: lena.core.Sequence(*[build(s) for s in els]))
        nested = runs(lambda: lena.core.Sequence(lena.core.Sequence(*[build(s) for s in els[:k]]),
                                                 lena.core.Sequence(*[build(s) for s in els[k:]])))

        def runs_rebuilt():
            """the element objects are built once; before every run NEW Sequence objects are put around them (flat
            and nested at the cut in turn): elements shared between sequences, elements that were used before the
            sequence around them was constructed"""
            objs, err = _construct(lambda: [build(s) for s in els])
            if err:
                return err
            outs = []
            for i, fl in enumerate(flows):
                if i % 2 == 0:
                    seq, err = _construct(lambda: lena.core.Sequence(*objs))
                else:
                    seq, err = _construct(lambda: lena.core.Sequence(lena.core.Sequence(*objs[:k]),
                                                                     lena.core.Sequence(*objs[k:])))
                if err:
                    return err
                o = observe(lambda: seq.run(make_flow(fl, None, kind=kind)))
                outs.append(o)
                if o["t"] is not None:
                    break
            return outs
        rebuilt = runs_rebuilt()
        # hand-chained reference that re-uses its element objects
        facts = element_facts(els)
        ref = None
        robjs = ref_objects(els) if all(f["ctor"] is None for f in facts) and all(f["nodata"] or f["conv"] for f in facts) else None
        if robjs is not None:
            objs = robjs
            stages = [(el, flags_of(el)) for el in objs]
            stages = [(el, fl) for el, fl in stages if not fl["nodata"]]

            def chain(fl0):
                cur = make_flow(fl0, None)
                for el, fl in stages:
                    if fl["run"] == 2:
                        cur = el.run(cur)
                    elif fl["call"]:
                        cur = (lambda f, it: (f(v) for v in it))(el, cur)
                    else:
                        for v in cur:
                            el.fill(v)
                        cur = el.compute()
                return iter(cur)
            ref = []
            for fl0 in flows:
                o = observe(lambda: chain(fl0))
                ref.append(o)
                if o["t"] is not None:
                    break
        return {"whole": whole, "nested": nested, "rebuilt": rebuilt, "ref": ref,
                "facts": [{k2: v for k2, v in f.items() if k2 != "flags"} for f in facts]}
    if op == "splits":
        def form(bare):
            def mk():
                # (all elements are built first, as in the tuple form, so that constructor exceptions come in the
                # same order); a branch given as a Sequence object goes through the loop of meta.alter_sequence,
                # a tuple does not
                ells = [[build(s) for s in b] for b in case["branches"]]
                brs = [lena.core.Sequence(*els) if bare else tuple(els) for els in ells]
                return lena.core.Sequence(lena.core.Split(brs, bufsize=case["bufsize"]))
            seq, err = _construct(mk)
            if err:
                return err
            return observe(lambda: seq.run(make_flow(case["flow"], case.get("term"))))
        res = form(False)
        res = dict(res, bare=form(True))
        return res
    if op == "source_rerun":
        args, k = [case["first"]] + case["els"], case["k"]
        src, err = _construct(lambda: lena.core.Source(*[build(s) for s in args]))
        facts = element_facts(args)
        outs = err
        if not err:
            outs = []
            for _i in range(k):
                o = observe(lambda: src())
                outs.append(o)
                if o["t"] is not None:
                    break
        # hand-chained reference: ONE first object and one object per tail element, used k times
        ref = None
        robjs = None
        if not err and all(f["ctor"] is None for f in facts) and all(f["nodata"] or f["conv"] for f in facts[1:]) \
                and not facts[0]["nodata"]:
            robjs = ref_objects(args[1:])
        if robjs is not None:
            objs = [build(args[0])] + robjs
            first = objs[0]
            stages = [(el, flags_of(el)) for el in objs[1:]]
            stages = [(el, fl) for el, fl in stages if not fl["nodata"]]

            def chain():
                cur = first() if callable(first) else first
                cur = iter(cur)
                for el, fl in stages:
                    if fl["run"] == 2:
                        cur = el.run(cur)
                    elif fl["call"]:
                        cur = (lambda f, it: (f(v) for v in it))(el, cur)
                    else:
                        for v in cur:
                            el.fill(v)
                        cur = el.compute()
                return iter(cur)
            ref = []
            for _i in range(k):
                o = observe(chain)
                ref.append(o)
                if o["t"] is not None:
                    break
        return {"outs": outs, "ref": ref, "facts": [{k2: v for k2, v in f.items() if k2 != "flags"} for f in facts]}
    if op == "tie":
        what = case["what"]
        if what == "runifs":
            mk = lambda: lena.core.Sequence(lena.flow.RunIf(make_pred(case["p"]), *[build(s) for s in case["inner"]]))
        elif what == "accold":
            mk = lambda: lena.core.Sequence(build(dict(case["acc"], k="acc")))
        elif what == "rawrun":
            # one element's own run (its adapter's, if it has none) handed the flow object directly, without the
            # conversion of Sequence.run: what the model assumes about next(flow) (Count.run)
            def mk():
                el = build(case["spec"])
                return el if (hasattr(el, "run") and callable(el.run)) else lena.core.Run(el)
        else:
            mk = lambda: lena.core.Sequence(lena.flow.Slice(*case["args"]))
        seq, err = _construct(mk)
        if err:
            return err
        return observe(lambda: seq.run(make_flow(case["flow"], case.get("term"), kind=case.get("kind"))))
    if op == "source0":
        src, err = _construct(lambda: lena.core.Source())
        return err if err else {"built": True}
    if op == "source":
        first, els = case["first"], case["els"]
        n = len(els)
        variants = []
        for cut in case["cuts"]:
            # Source(first, *els[:cut])() fed into Sequence(*els[cut:]); cut == n+1 means Source(first, *els)() alone
            def go(cut=cut):
                if cut == n + 1:
                    src, err = _construct(lambda: lena.core.Source(*[build(s) for s in [first] + els]))
                    if err:
                        return err
                    return observe(lambda: src())
                src, err = _construct(lambda: lena.core.Source(*[build(s) for s in [first] + els[:cut]]))
                if err:
                    return err
                seq, err = _construct(lambda: lena.core.Sequence(*[build(s) for s in els[cut:]]))
                if err:
                    return err
                return observe(lambda: seq.run(src()))
            variants.append(go())
        full_facts = element_facts([first] + els)
        res = {"variants": variants,
               "facts": [{k: v for k, v in f.items() if k != "flags"} for f in full_facts]}
        # the effective first element: arguments without data (SetContext, ...) before it are skipped by Source
        args = [first] + els
        eff = None
        for i, f in enumerate(res["facts"]):
            if f["ctor"] is not None:
                break
            if not f["nodata"]:
                eff = i
                break
        res["eff"] = eff
        if eff is not None:
            # what Python says about the effective first element: callable / has __iter__ (the documented
            # requirement "an object with a generator function __call__() or an iterable") / accepted by iter()
            fo, _err = _construct(lambda: build(args[eff]))
            try:
                iter(fo)
                pyiter = True
            except Exception:
                pyiter = False
            res["first_caps"] = {"call": bool(full_facts[eff]["flags"]["call"]), "iter": bool(full_facts[eff]["flags"]["iter"]),
                                 "pyiter": pyiter}
        # the flow of the first element itself, fed to a plain chain of the tail elements
        if eff is not None and args[eff]["k"] in ("gen", "iter", "iterobj", "both"):
            # Source(first, *tl)() == the tail elements chained by hand on <the values of first>
            # (an object that is callable and iterable is called: "an object with a generator function __call__()
            # or an iterable")
            res["ref"] = reference(args[eff + 1:], args[eff]["cflow" if args[eff]["k"] == "both" else "flow"],
                                   args[eff].get("term"))
        return res
    if op == "flags":
        el, err = _construct(lambda: build(case["spec"]))
        if err:
            return err
        return flags_of(el)
    raise ValueError(op)


# ----------------------------------------------------------------------------------------
# model side

def _walk(o):
    yield o
    if isinstance(o, dict):
        for v in o.values():
            yield from _walk(v)
    elif isinstance(o, list):
        for v in o:
            yield from _walk(v)


def model_free(case):
    """does the case use Python objects the model has no description for (plain callables with bool / dict / bytes
    results, bool / bytes values)?  Then it has no model side: the direct oracle judges it"""
    for o in _walk(case):
        if isinstance(o, dict) and (o.get("k") in ("callp", "sub") or "bool" in o or "bytes" in o):
            return True
    return False


def wide_names(case):
    return sorted({o for o in _walk(case) if isinstance(o, str) and o in WIDE_EXC})


# the model is asked twice, with the classes it has no name for renamed into two different sets of model classes
# (none of which any modelled element treats specially): where the two replies differ exactly by the renaming the
# exception is the renamed one - the anchored code (and the model) must not depend on the class of an exception
REPR_A = ["LenaNotImplementedError", "Other:AttributeError"]
REPR_B = ["LenaAttributeError", "Other:IndexError"]


def _subst(o, m):
    if isinstance(o, dict):
        return {k: _subst(v, m) for k, v in o.items()}
    if isinstance(o, list):
        return [_subst(v, m) for v in o]
    if isinstance(o, str) and o in m:
        return m[o]
    return o


def _decode_renamed(a, b, back):
    """merge the replies to the two renamed requests; `back` maps (name in a, name in b) -> original class"""
    if isinstance(a, dict) and isinstance(b, dict) and set(a) == set(b):
        return {k: _decode_renamed(a[k], b[k], back) for k in a}
    if isinstance(a, list) and isinstance(b, list) and len(a) == len(b):
        return [_decode_renamed(x, y, back) for x, y in zip(a, b)]
    if a == b:
        return a
    if isinstance(a, str) and isinstance(b, str) and (a, b) in back:
        return back[(a, b)]
    raise ValueError(f"the model is not parametric in the exception class: {a} vs {b}")


def model_requests(case):
    if model_free(case):
        return []
    wide = wide_names(case)
    if not wide:
        return _model_requests(case)
    if len(wide) > 2:
        return []
    return (_model_requests(_subst(case, {w: REPR_A[i] for i, w in enumerate(wide)}))
            + _model_requests(_subst(case, {w: REPR_B[i] for i, w in enumerate(wide)})))


def _model_requests(case):
    op = case["op"]
    if op == "regroup":
        els, flow, term = case["els"], case["flow"], case.get("term")
        reqs = [{"op": "run", "prog": nest(els, b), "flow": flow, "term": term} for b in case["brks"]]
        for b in case["brks"][:2]:
            reqs.append({"op": "flat", "prog": nest(els, b), "flow": flow, "term": term})
        b0 = case["brks"][0]
        reqs.append({"op": "tree", "prog": nest(els, b0), "flow": flow, "term": term})
        reqs.append({"op": "fold", "prog": nest(els, b0), "flow": flow, "term": term})
        reqs.append({"op": "flats", "prog": nest(els, case["brks"][-1])})
        reqs.append({"op": "sound", "prog": els})
        if els and all(e["k"] in ("call", "var") for e in els):
            reqs.append({"op": "callall", "prog": els, "flow": flow, "term": term})
        if case.get("kind") or case.get("lst"):
            # Sequence.run with its two flow_to_iter on a flow object of this kind (Model/C01Kinds.lean)
            reqs.append({"op": "runk", "prog": nest(els, b0), "flow": flow, "term": term,
                         "kind": KIND_CLASS["list" if case.get("lst") else case["kind"]]})
        return reqs
    if op == "source":
        first, els = case["first"], case["els"]
        n = len(els)
        reqs = []
        for cut in case["cuts"]:
            if cut == n + 1:
                reqs.append({"op": "source", "args": [first] + els})
            else:
                reqs.append({"op": "source_then", "args": [first] + els[:cut], "prog": els[cut:]})
        if first["k"] == "gen" and first.get("ret"):
            # Source.__call__ when the callable first element returns an object of this kind (Src.callObj)
            reqs.append({"op": "sourcek", "args": [first] + els, "kind": KIND_CLASS[first["ret"]]})
        return reqs
    if op == "flags":
        return [{"op": "flags", "spec": case["spec"]}]
    if op == "source0":
        return [{"op": "source", "args": []}]
    if op == "source_rerun":
        return [{"op": "source_rerun", "args": [case["first"]] + case["els"], "k": case["k"]}]
    if op == "tie":
        what = case["what"]
        if what == "runifs":
            return [{"op": "runifs", "p": case["p"], "inner": case["inner"], "flow": case["flow"], "term": case.get("term")}]
        if what == "accold":
            return [dict(case["acc"], op="accold", flow=case["flow"])]
        if what == "rawrun":
            return [{"op": "rawrun", "spec": case["spec"], "flow": case["flow"], "term": case.get("term"),
                     "kind": KIND_CLASS[case["kind"]]}]
        return [{"op": "pyslice", "args": case["args"], "flow": case["flow"]}]
    if op == "splits":
        return [{"op": "splits", "branches": case["branches"], "bufsize": case["bufsize"], "flow": case["flow"],
                 "term": case.get("term")},
                {"op": "run", "prog": [{"k": "split", "branches": case["branches"], "bufsize": case["bufsize"]}],
                 "flow": case["flow"], "term": case.get("term")}]
    if op == "rerun":
        return [{"op": "rerun", "prog": case["els"], "pasts": case["pasts"], "flow": case["flow"], "cut": case["cut"]}]
    raise ValueError(op)


def _differs(m, v):
    """model reply (canonical) against impl observation; {"f": "*"} in the model matches any float"""
    if isinstance(m, dict) and m.get("f") == "*":
        return not (isinstance(v, dict) and "f" in v)
    if isinstance(m, dict) and isinstance(v, dict):
        return set(m) != set(v) or any(_differs(m[k], v[k]) for k in m)
    if isinstance(m, list) and isinstance(v, list):
        return len(m) != len(v) or any(_differs(a, b) for a, b in zip(m, v))
    return m != v


def _canon_reply(m):
    if "r" in m:
        return {"r": model_value(m["r"]), "t": m["t"], "eager": m["eager"]}
    return m


def compare(case, res, replies):
    for m in replies:
        if "err" in m:
            return f"model driver error: {m['err']}"
    wide = wide_names(case)
    if wide:
        n = len(replies) // 2
        back = {(REPR_A[i], REPR_B[i]): w for i, w in enumerate(wide)}
        try:
            replies = [_decode_renamed(a, b, back) for a, b in zip(replies[:n], replies[n:])]
        except ValueError as e:
            return str(e)
    return _compare(case, res, replies)


def _compare(case, res, replies):
    op = case["op"]
    if op == "regroup":
        nb = len(case["brks"])
        for i in range(nb):
            m = _canon_reply(replies[i])
            if _differs(m, res["variants"][i]):
                return f"bracketing {case['brks'][i]}: impl {res['variants'][i]} vs model (Spec.toElement) {m}"
        for i, fl in enumerate(res["flat"]):
            m = _canon_reply(replies[nb + i])
            if _differs(m, fl):
                return f"flatten of bracketing {case['brks'][i]}: impl {fl} vs model (mkSequence ∘ flatten) {m}"
        k = nb + len(res["flat"])
        m = _canon_reply(replies[k])
        if _differs(m, res["variants"][0]):
            return f"bracketing {case['brks'][0]}: impl {res['variants'][0]} vs model (build ∘ Spec.toTree) {m}"
        m = _canon_reply(replies[k + 1])
        if "e" not in res["variants"][0] and _differs(m, res["variants"][0]):
            return f"impl {res['variants'][0]} vs model fold of Element.den {m}"
        if replies[k + 2].get("n") != len(case["els"]):
            return f"Spec.flats of bracketing {case['brks'][-1]} has {replies[k + 2]} elements, expected {len(case['els'])}"
        if replies[k + 2].get("nargs") != res["shape"]["len"] or (
                res["shape"]["len"] is not None and replies[k + 2].get("first") != res["shape"]["first"]):
            return f"len / flatten(first argument): impl {res['shape']} vs model {replies[k + 2]} (bracketing {case['brks'][-1]})"
        snd = replies[k + 3]
        facts = res["facts"]
        if all(f["ctor"] is None for f in facts):
            if all(f["nodata"] or f["conv"] for f in facts):
                want = [f["mode"] for f in facts if not f["nodata"]]
                if snd.get("modes") != want or not all(snd.get("sound", [False])):
                    return f"conversion per data element: documented precedence gives {want}, model {snd}"
            elif snd != {"e": "LenaTypeError", "phase": "init"}:
                return f"unconvertible argument: model {snd}"
        has_callall = bool(case["els"]) and all(e["k"] in ("call", "var") for e in case["els"])
        if has_callall:
            m = _canon_reply(replies[k + 4])
            if "e" not in res["variants"][0] and _differs(m, res["variants"][0]):
                return f"impl {res['variants'][0]} vs model mapS (callAll es) {m}"
        if case.get("kind") or case.get("lst"):
            mk = replies[k + 4 + int(has_callall)]
            if _differs(_canon_reply(mk), res["variants"][0]) or mk.get("kind", "iterator") != "iterator":
                return (f"bracketing {case['brks'][0]}, flow handed over as {case.get('kind') or 'list'}: impl "
                        f"{res['variants'][0]} vs model (runObj: Sequence.run with flow_to_iter) {mk}")
        return None
    if op == "source":
        for i, cut in enumerate(case["cuts"]):
            m = _canon_reply(replies[i])
            if _differs(m, res["variants"][i]):
                return f"cut {cut}: impl {res['variants'][i]} vs model {m}"
            sp = replies[i].get("spec")
            if cut == len(case["els"]) + 1 and sp is not None and "e" not in res["variants"][i] \
                    and _differs(_canon_reply(sp), res["variants"][i]):
                return f"Source()(): impl {res['variants'][i]} vs model right-hand side of source_tail {_canon_reply(sp)}"
        if case["first"]["k"] == "gen" and case["first"].get("ret") and (len(case["els"]) + 1) in case["cuts"]:
            mk = replies[len(case["cuts"])]
            v = res["variants"][case["cuts"].index(len(case["els"]) + 1)]
            if _differs(_canon_reply(mk), v) or mk.get("kind", "iterator") != "iterator":
                return (f"Source(first, *els)() with a first element that returns a {case['first']['ret']}: impl {v} vs "
                        f"model (Src.callObj) {mk}")
        return None
    if op == "source0":
        return None if res == replies[0] else f"Source(): impl {res} vs model {replies[0]}"
    if op == "source_rerun":
        m = replies[0]
        if "e" in m or not isinstance(res["outs"], list):
            return None if m == res["outs"] else f"impl {res['outs']} vs model {m}"
        for i, o in enumerate(res["outs"]):
            if _differs(_canon_reply(m["outs"][i]), o):
                return f"call {i} of one Source object: impl {o} vs model (Src.callAt) {_canon_reply(m['outs'][i])}"
        return None
    if op == "tie":
        m = replies[0]
        if "e" in m or "e" in res:
            return None if m == res else f"impl {res} vs model {m}"
        if case["what"] == "runifs":
            return None if not _differs(_canon_reply(m), res) else f"RunIf: impl {res} vs model runIfS {_canon_reply(m)}"
        if case["what"] == "rawrun":
            return None if not _differs(_canon_reply(m), res) else (
                f"el.run(flow) on a flow handed over as {case['kind']}: impl {res} vs model Stored.runObj {_canon_reply(m)}")
        if _differs(model_value(m["r"]), res["r"]) or (case["what"] == "accold" and m["t"] != res["t"]):
            return f"{case['what']}: impl {res} vs model {m}"
        return None
    if op == "splits":
        obs = {k: v for k, v in res.items() if k != "bare"}
        for nm, m in (("splitS", replies[0]), ("splitH", replies[1])):
            if _differs(_canon_reply(m), obs):
                return f"Split.run: impl {obs} vs model {nm} {_canon_reply(m)}"
        return None
    if op == "rerun":
        m = replies[0]
        w = res["whole"]
        if "e" in m or not isinstance(w, list):
            return None if m == w else f"impl {w} vs model {m}"
        outs_m = [_canon_reply(x) for x in m["pasts"]] + [_canon_reply(m["whole"])]
        for i, o in enumerate(w):
            if _differs(outs_m[i], o):
                return f"run {i} of the re-used sequence: impl {o} vs model (Seq.rerun) {outs_m[i]}"
        if len(w) == len(outs_m) and _differs(_canon_reply(m["split"]), w[-1]):
            return f"last run: impl {w[-1]} vs model (split form of seq_rerun_append) {_canon_reply(m['split'])}"
        rb = res.get("rebuilt")
        if isinstance(rb, list):
            for i, o in enumerate(rb):
                if _differs(outs_m[i], o):
                    return f"run {i} with new Sequence objects around the used elements: impl {o} vs model (Seq.rerun) {outs_m[i]}"
            if len(rb) == len(outs_m) and _differs(_canon_reply(m["hist"]), rb[-1]):
                return (f"last run with new Sequence objects around the used elements: impl {rb[-1]} vs model "
                        f"(runWithHist: every element with its own history) {_canon_reply(m['hist'])}")
        return None
    if op == "flags":
        m = replies[0]
        if "e" in res or "e" in m:
            return None if res == m else f"impl {res} vs model {m}"
        keys = ["run", "call", "fill", "compute", "nodata", "iter", "fill_into", "can_break_flow", "is_split",
                "request", "fill_into_attr"]
        for k in keys:
            if res[k] != m[k]:
                return f"flag {k}: impl {res[k]} vs model {m[k]} ({res} vs {m})"
        if convertible(res) != m["convertible"]:
            return f"convertible: criterion {convertible(res)} vs model {m['convertible']}"
        return None
    raise ValueError(op)


# ----------------------------------------------------------------------------------------
# oracle: the property statement on the real code's results

def _init_expectation(facts):
    """('ctor', None): some element constructor raises itself (only the phase is determined);
    ('reject', None): an unconvertible data element -> LenaTypeError at construction; ('ok', None)"""
    if any(f["ctor"] for f in facts):
        return "ctor"
    if any((not f["nodata"]) and (not f["conv"]) for f in facts):
        return "reject"
    return "ok"


def oracle(case, res):
    op = case["op"]
    if op == "flags":
        return None
    if op == "rerun":
        exp = _init_expectation(res["facts"])
        what = f"elements {case['els']} flows {case['pasts'] + [case['flow']]} (one Sequence object, run repeatedly)"
        for nm, v in (("Sequence(*els)", res["whole"]),
                      (f"Sequence(Sequence(*els[:{case['cut']}]), Sequence(*els[{case['cut']}:]))", res["nested"]),
                      ("new Sequence objects around the same element objects before every run", res["rebuilt"])):
            if exp == "reject":
                if v != {"e": "LenaTypeError", "phase": "init"}:
                    return f"{nm}: unconvertible argument must be rejected with LenaTypeError at construction, got {v}; {what}"
            elif exp == "ctor":
                if not (isinstance(v, dict) and v.get("phase") == "init"):
                    return f"{nm}: an element constructor raises, but got {v}; {what}"
            elif not isinstance(v, list):
                return f"{nm}: every argument is convertible but construction raised {v}; {what}"
            elif any(o["t"] == "LenaTypeError" for o in v) and not any(
                    o["t"] == "LenaTypeError" for o in (res["ref"] or [])):
                return f"{nm}: LenaTypeError raised during a run: {v}; {what}"
        if exp != "ok":
            return None
        if res["whole"] != res["nested"]:
            return f"regrouping changes the result of a repeated run: Sequence(*els) gives {res['whole']}, nested at {case['cut']} gives {res['nested']}; {what}"
        if res["whole"] != res["rebuilt"]:
            return (f"a Sequence constructed around element objects that were used before does not compute the composition of "
                    f"their transformations: one Sequence object run repeatedly gives {res['whole']}, new Sequence objects "
                    f"(flat / nested at {case['cut']} in turn) around the same elements give {res['rebuilt']}; {what}")
        ref = res["ref"]
        if ref is not None:
            for i, (o, r) in enumerate(zip(res["whole"], ref)):
                if o["r"] != r["r"] or o["t"] != r["t"]:
                    return (f"run {i}: Sequence.run gives {o} but the hand-chained elements give {r['r']}"
                            + (f" and then raise {r['t']}" if r["t"] else "") + f"; {what}")
        return None
    if op == "tie":
        return None          # ties of auxiliary model functions to the code; the statements are checked by the other ops
    if op == "source_rerun":
        outs, ref = res["outs"], res["ref"]
        what = f"one Source({case['first']}, *{case['els']}) object called {case['k']} times"
        exp = _init_expectation(res["facts"][1:])
        if res["facts"][0]["ctor"] is not None or res["facts"][0]["nodata"]:
            return None
        if exp == "reject":
            if outs != {"e": "LenaTypeError", "phase": "init"}:
                return f"unconvertible argument must be rejected with LenaTypeError at construction, got {outs}; {what}"
            return None
        if exp == "ctor" or ref is None:
            return None
        if not isinstance(outs, list):
            return f"every argument is convertible but construction raised {outs}; {what}"
        for i, (o, r) in enumerate(zip(outs, ref)):
            if o["r"] != r["r"] or o["t"] != r["t"]:
                return (f"call {i}: Source.__call__ gives {o} but the flow of the first element chained by hand through "
                        f"the (same) tail elements gives {r['r']}" + (f" and then raises {r['t']}" if r["t"] else "")
                        + f"; {what}")
        return None
    if op == "splits":
        # Split's schedule is the subject of C03 (the two model forms are tied to the code by the correspondence); the
        # statement checked here: meta.alter_sequence / flatten keep the element order - a branch given as a Sequence
        # object (which Split passes through alter_sequence) behaves as the tuple of the same elements
        obs = {k: v for k, v in res.items() if k != "bare"}
        bare = res["bare"]
        # (the bufsize test comes after the conversion of the branches, so the constructor exception is the same)
        if obs != bare:
            return (f"Split([Sequence(*els)..]) gives {bare} but Split([tuple(els)..]) gives {obs}: alter_sequence / flatten "
                    f"must keep the elements and their order; branches {case['branches']} bufsize {case['bufsize']} "
                    f"flow {case['flow']} term {case.get('term')}")
        return None
    if op == "source0":
        if res != {"e": "LenaTypeError", "phase": "init"}:
            return f"Source() without arguments must raise LenaTypeError at construction, got {res}"
        return None
    if op == "regroup":
        vs = res["variants"] + res["flat"]
        names = [f"Sequence grouped as {b}" for b in case["brks"]] + \
                [f"Sequence(*flatten(Sequence grouped as {b}))" for b in case["brks"][:2]]
        exp = _init_expectation(res["facts"])
        what = f"elements {case['els']} flow {case['flow']} term {case.get('term')}"
        for v, nm in zip(vs, names):
            if exp == "reject":
                if v != {"e": "LenaTypeError", "phase": "init"}:
                    return (f"{nm}: an argument that cannot be converted to an element must be rejected with LenaTypeError "
                            f"at construction, got {v}; {what}")
            elif exp == "ctor":
                if v.get("phase") != "init":
                    return f"{nm}: an element constructor raises, but the sequence was built and gave {v}; {what}"
            else:
                if "e" in v:
                    return f"{nm}: every argument is convertible but construction raised {v}; {what}"
                if v["t"] == "LenaTypeError" and res["ref"].get("t") != "LenaTypeError":
                    # (an element of the vocabulary may raise LenaTypeError itself: then the hand-chained elements do too)
                    return f"{nm}: LenaTypeError raised during the run, not at construction: {v}; {what}"
        if exp != "ok":
            return None
        # regrouping never changes the result
        for v, nm in zip(vs[1:], names[1:]):
            if v != vs[0]:
                return f"regrouping changes the result: {names[0]} gives {vs[0]} but {nm} gives {v}; {what}"
        # the result is the left-to-right composition of the elements' own stream transformations
        ref = res["ref"]
        if "skip" not in ref and (vs[0]["r"] != ref["r"] or vs[0]["t"] != ref["t"]):
            return (f"Sequence.run gives {vs[0]} but feeding each element's transformation with the output of the "
                    f"previous one gives {ref['r']}" + (f" and then raises {ref['t']}" if ref["t"] else "") + f"; {what}")
        # an empty sequence is the identity
        n_data = sum(1 for f in res["facts"] if not f["nodata"])
        if n_data == 0:
            want = {"r": [enc(v) for v in dec(case["flow"])], "t": case.get("term"), "eager": False}
            if vs[0] != want:
                return f"a Sequence without data elements must be the identity, got {vs[0]}; {what}"
        return None
    if op == "source":
        eff = res.get("eff")
        args = [case["first"]] + case["els"]
        n = len(case["els"])
        caps = res.get("first_caps")
        if eff is not None and caps and not caps["call"] and not caps["iter"] and all(f["ctor"] is None for f in res["facts"]):
            # a first element that is neither callable nor iterable cannot be converted: LenaTypeError when the
            # Source is constructed, never later (every variant constructs a Source around it).  An object that only
            # iter() accepts (__getitem__) may alternatively be accepted - then it must work.
            for c, v in zip(case["cuts"], res["variants"]):
                if (c == n + 1 or c >= eff) and v != {"e": "LenaTypeError", "phase": "init"}:
                    if caps["pyiter"] and "e" not in v and v.get("t") is None:
                        continue
                    return (f"the first element of a Source is neither callable nor iterable: it must be rejected with "
                            f"LenaTypeError when the Source is constructed, got {v} (cut {c}); first {case['first']} "
                            f"elements {case['els']}")
            return None
        if eff is None or args[eff]["k"] not in ("gen", "iter", "seq", "iterobj", "both"):
            return None      # first-element rules are covered by the correspondence, not by this statement
        # the cuts whose Source contains the effective first element (arguments before it carry no data)
        keep = [i for i, c in enumerate(case["cuts"]) if c == n + 1 or c >= eff]
        vs = [res["variants"][i] for i in keep]
        exp = _init_expectation(res["facts"][eff + 1:])
        what = f"first {case['first']} elements {case['els']}"
        names = [("Source(first, *els)()" if c == n + 1 else f"Sequence(*els[{c}:]).run(Source(first, *els[:{c}])())")
                 for c in (case["cuts"][i] for i in keep)]
        if not vs:
            return None
        for v, nm in zip(vs, names):
            if exp == "reject":
                if v != {"e": "LenaTypeError", "phase": "init"}:
                    return f"{nm}: unconvertible argument must be rejected with LenaTypeError at construction, got {v}; {what}"
            elif exp == "ctor":
                if v.get("phase") != "init":
                    return f"{nm}: an element constructor raises, but got {v}; {what}"
            else:
                if "e" in v:
                    return f"{nm}: every argument is convertible but construction raised {v}; {what}"
                if v["t"] == "LenaTypeError" and (res.get("ref") or {}).get("t") != "LenaTypeError":
                    return f"{nm}: LenaTypeError raised during the run, not at construction: {v}; {what}"
        if exp != "ok":
            return None
        for v, nm in zip(vs[1:], names[1:]):
            if v != vs[0]:
                return f"placing elements after the first element of a Source changes the result: {names[0]} gives {vs[0]} but {nm} gives {v}; {what}"
        ref = res.get("ref")
        if ref and "skip" not in ref and vs and (vs[0]["r"] != ref["r"] or vs[0]["t"] != ref["t"]):
            return (f"{names[0]} gives {vs[0]} but the tail elements chained by hand on the first element's flow give "
                    f"{ref['r']}" + (f" and then raise {ref['t']}" if ref["t"] else "") + f"; {what}")
        return None
    raise ValueError(op)


# ----------------------------------------------------------------------------------------
# generators

INTS = [0, 1, 2, 3, 4, 5, 6, 7, -1, -2, 13, 10]
KEYS = ["a", "b", "c"]
COUNT_NAMES = ["count", "n", "a"]
SLICES = [[0], [1], [2], [5], [None], [1, 4], [0, 5, 2], [3, 1], [2, None], [1, None, 3], [None, None, 2], [0, 0],
          [-1], [-2], [-9], [1, -1], [3, -2], [0, -9], [-3, None], [-2, None, 2], [-3, -1], [-1, -3], [-2, -2],
          [-3, 2], [-2, 5], [-3, 0], [-9, 3], [-4, -1, 2], [None, -1, 3], [-9, None]]
BAD_SLICES = [[0, 5, 0], [1, -1, 0], [-3, None, -1], [None, None, 0]]
PREDS = ["even", "pos", "lt5", "all", "none"]
FNS = ["inc", "neg", "mod3", "ident", "wrap", "boom"]


def gen_ctx(rng, depth=0):
    d = {}
    for k in rng.sample(KEYS, rng.randint(0, 2)):
        r = rng.random()
        if r < 0.6:
            d[k] = rng.choice(INTS)
        elif r < 0.8 or depth >= 1:
            d[k] = rng.choice(["x", "y"])
        else:
            d[k] = {"d": gen_ctx(rng, depth + 1)}
    return d


def gen_value(rng, kind):
    r = rng.random()
    if kind == "ints":
        return rng.choice(INTS)
    if kind == "pairs":
        return {"t": [rng.choice(INTS), {"d": gen_ctx(rng)}]}
    # mixed
    if r < 0.45:
        return rng.choice(INTS)
    if r < 0.72:
        return {"t": [rng.choice(INTS), {"d": gen_ctx(rng)}]}
    if r < 0.76:
        return NONE                                                   # None
    if r < 0.80:
        return {"q": rng.choice([[1, 2], [3, 2], [5, 1], [-1, 4], [0, 1]])}    # a float (dyadic, given exactly)
    if r < 0.87:
        return rng.choice(["s", "tt"])
    if r < 0.92:
        return [rng.choice(INTS)]
    if r < 0.96:
        return {"t": [rng.choice(INTS), rng.choice(INTS)]}           # a tuple that is not (data, context)
    return {"t": [rng.choice(["s", [1]]), {"d": gen_ctx(rng)}]}       # non-numeric data with context


def gen_flow(rng, maxlen=8, free=False):
    kind = rng.choice(["ints", "ints", "pairs", "mixed", "mixed"])
    n = rng.choice([0, 1, 2, 3, 3, 4, 5, 6, 7, 8])
    n = min(n, maxlen)
    vals = [gen_value(rng, kind) for _ in range(n)]
    if free:
        # values outside the model's universe (cases without a model side): bool, bytes, a dict as data
        for i in range(len(vals)):
            if rng.random() < 0.25:
                vals[i] = rng.choice([{"bool": 1}, {"bool": 0}, {"bytes": "ab"}, {"d": {"a": 1}}, {"t": []},
                                      {"t": [{"bool": 1}, {"d": {}}]}])
    return vals


def pick_exc(rng, allow_stopfill=True, wide=0.25):
    """an exception class for a callable / predicate / fill / input iterator: mostly the classes generated so far,
    also the other classes the model names, and (adversary follow-up) classes it has no name for"""
    r = rng.random()
    if r < wide:
        return rng.choice(WIDE_EXC)
    if r < wide + 0.2:
        return rng.choice(MODEL_LENA_EXC[3:] + MODEL_PY_EXC)
    return rng.choice([e for e in LENA_EXC if allow_stopfill or e != "LenaStopFill"])


def gen_term(rng, p=0.12):
    if rng.random() >= p:
        return None
    return rng.choice(list(EXC)) if rng.random() < 0.6 else pick_exc(rng, wide=0.6)


def gen_kind(rng, term, p=0.4):
    """how the input flow is handed over: None = an iterator (list_iterator; a generator if it raises)"""
    if rng.random() >= p:
        return None
    return rng.choice(FLOW_KINDS[1:] if term is None else ["reader", "iterclass", "genobj"])


GEN_RETS = ["iter", "list", "tuple", "deque", "reader", "iterclass", "genobj", "genfn"]


def gen_syn(rng, stateless=False):
    while True:
        s = {"k": "syn", "run": rng.choice([0, 0, 1, 2]), "call": rng.random() < 0.4, "fill": rng.choice([0, 1, 2, 2]),
             "compute": rng.choice([0, 1, 2, 2]), "nodata": rng.random() < 0.15}
        if stateless and not (s["run"] == 2 or s["call"]) and s["fill"] == 2 and s["compute"] == 2:
            continue     # would be run through fill/compute, which keeps the filled values between runs
        if rng.random() < 0.4:
            add_extras(rng, s)
        return s


def fc_capable(spec):
    """does the object have callable fill and compute (is_fill_compute_el)? decided from the spec alone"""
    k = spec["k"]
    if k in ("acc", "count", "synraise"):
        return True
    if k == "syn":
        return spec["fill"] == 2 and spec["compute"] == 2
    if k == "split":
        return bool(spec["branches"]) and all(any(fc_capable(e) for e in b) for b in spec["branches"])
    return False


def fr_capable(spec):
    """callable fill and request (is_fill_request_el): a tuple with such an element and no fill/compute element
    would become a FillRequestSeq branch of Split (C16), which this model does not cover"""
    return spec["k"] == "syn" and spec["fill"] == 2 and spec.get("request") == 2


def add_extras(rng, s):
    """the further capabilities of a synthetic class: request, fill_into, reset, alter_sequence (absent / not
    callable / method)"""
    s.update({"request": rng.choice([0, 1, 2, 2]), "fill_into": rng.choice([0, 0, 1, 2]), "reset": rng.choice([0, 1, 2]),
              "alter": rng.choice([0, 0, 1, 2])})
    return s


def new_state(rerun=False, stateless=False, region=None):
    """generation state.  rerun: the element is run more than once (inside RunIf / a Split sequence branch);
    stateless: only elements without state between runs (the old restriction; still used where the model runs
    an element without its history: RunIf before a fill/compute element, the sequence after it inside a rerun region);
    region: shared flags of one rerun region - after an element with state (a Count updates its counter only when its
    generator was driven to the end; a RunIf/Split that is not driven to the end does not run its inner elements on the
    remaining values) no Slice (the only element that stops pulling early) is generated in the region: the model
    describes a repeated run by the complete earlier inputs"""
    return {"rerun": rerun, "stateless": stateless, "no_stopfill": False, "region": region if region is not None else ({"stateful_seen": False} if rerun else None)}


def gen_atom(rng, st):
    """a non-nested element"""
    rerun, stateless, region = st["rerun"], st["stateless"], st["region"]
    r = rng.random()
    nsf = not st.get("no_stopfill")
    if r < 0.22:
        rr = rng.random()
        if st.get("free") and rr < 0.45:
            return {"k": "callp", "f": rng.choice(sorted(NATIVE))}         # bool / dict / bytes / tuple results
        if rr < 0.08:
            return {"k": "callx", "none": True, "exc": None}               # returns None for odd data
        if rr < 0.16:
            return {"k": "callx", "none": False, "exc": pick_exc(rng, nsf)}   # raises an exception on 13
        return {"k": "call", "f": rng.choice(FNS)}
    if r < 0.30:
        return {"k": "var", "name": rng.choice(["x", "y"]), "f": rng.choice(["inc", "neg", "ident", "mod3"])}
    if r < 0.42:
        if rng.random() < 0.12:
            return {"k": "filterx", "exc": pick_exc(rng, nsf)}
        return {"k": "filter", "p": rng.choice(PREDS)}
    if r < 0.58:
        if region is not None and region["stateful_seen"]:
            return {"k": "filter", "p": rng.choice(PREDS)}
        return {"k": "slice", "args": rng.choice(SLICES) if rng.random() < 0.97 else rng.choice(BAD_SLICES)}
    if r < 0.64:
        return {"k": "reverse"}
    if r < 0.67:
        return {"k": "end"}
    if r < 0.70:
        rr = rng.random()
        if rr < 0.25:
            jk = rng.choice(["none", "none", "plain", "getitem"])
            return {"k": "junk"} if jk == "none" else {"k": "junk", "kind": jk}
        if rr < 0.5:
            return {"k": "setctx"}
        if rr < 0.57:
            return {"k": "runnonebad"}
        if rr < 0.64:
            return {"k": "iter", "flow": [1, 2]}          # a list as an element: iterable, not convertible
        if rr < 0.71:
            return {"k": "classobj"}                       # a class instead of an instance
        if rr < 0.80:
            return {"k": "runalt", "hasrun": rng.random() < 0.7, "alt": rng.choice([0, 1, 2, 2])}
        if rr < 0.87:
            return {"k": "both", "cflow": [1, 2], "iflow": [7]}
        return {"k": "runnone", "f": rng.choice(FNS)}
    if r < 0.78:
        s = gen_syn(rng, stateless=stateless)
        if region is not None and s["fill"] == 2 and s["compute"] == 2 and not (s["run"] == 2 or s["call"]):
            region["stateful_seen"] = True
        return s
    if stateless:
        return {"k": "call", "f": rng.choice(FNS)}
    if region is not None:
        region["stateful_seen"] = True
    if r < 0.86:
        return {"k": "count", "name": rng.choice(COUNT_NAMES)}
    # accumulators
    a = rng.choice(["sum", "mean", "store", "store", "count", "raise"])
    if a == "raise":
        return {"k": "synraise", "exc": pick_exc(rng, nsf)}     # a fill that raises an exception on 13
    if a == "store":
        # a StoreFilled that is run again yields its stored value objects again; with yield_as_a_group=False the
        # elements after it (Count, Variable) would have changed their contexts in place in the earlier run
        # (aliasing is the subject of C04; this model has value semantics): only the group form where runs repeat
        return {"k": "acc", "a": "store", "group": True if rerun else rng.random() < 0.5}
    if a == "count":
        return {"k": "acc", "a": "count", "name": rng.choice(COUNT_NAMES)}
    return {"k": "acc", "a": a}


def gen_branch(rng, st, depth):
    """a tuple for Split.  Either no element of it has fill and compute (type "sequence": Sequence(*tuple), run once per
    buffer) or it is [FillInto-able..., fill/compute element, ...] (type "fill_compute": FillComputeSeq(*tuple))"""
    if not st["stateless"] and rng.random() < 0.35:
        # fill_compute branch
        pre = []
        for _ in range(rng.choice([0, 0, 1, 1, 2])):
            rr = rng.random()
            if rr < 0.4:
                pre.append({"k": "call", "f": rng.choice(FNS)})
            elif rr < 0.55:
                pre.append({"k": "var", "name": "x", "f": rng.choice(["inc", "neg", "ident"])})
            elif rr < 0.8:
                pre.append({"k": "filter", "p": rng.choice(PREDS)})
            elif rr < 0.88 and depth < 2:
                # FillInto runs a RunIf value by value (the model runs it without history: stateless inner elements)
                ist = new_state(rerun=True, stateless=True)
                ist["no_stopfill"] = True      # Split treats a LenaStopFill out of seq.fill() specially (C03/C05)
                pre.append({"k": "runif", "p": rng.choice(PREDS),
                            "inner": [gen_elem(rng, ist, depth + 2) for _ in range(rng.choice([0, 1, 2]))]})
            elif rr < 0.90:
                pre.append({"k": "syn", "run": rng.choice([0, 2]), "call": True, "fill": rng.choice([0, 1]), "compute": 0,
                            "nodata": rng.random() < 0.2})
            elif rr < 0.92:
                # an element with its own fill_into (FillSeq uses it as it is), callable or not
                pre.append({"k": "syn", "run": rng.choice([0, 2]), "call": rng.random() < 0.5, "fill": 0, "compute": 0,
                            "nodata": False, "request": rng.choice([0, 1, 2]), "fill_into": rng.choice([1, 2, 2]),
                            "reset": rng.choice([0, 2]), "alter": rng.choice([0, 1, 2])})
            elif rr < 0.96:
                pre.append({"k": "setctx"})
            else:
                pre.append(rng.choice([{"k": "reverse"}, {"k": "junk"}, {"k": "end"},
                                       {"k": "seq", "els": []}, {"k": "split", "branches": [], "bufsize": 1}]))
        rr = rng.random()
        if rr < 0.2:
            fc = {"k": "count", "name": rng.choice(COUNT_NAMES)}
        elif rr < 0.3:
            fc = {"k": "syn", "run": rng.choice([0, 2]), "call": rng.random() < 0.3, "fill": 2, "compute": 2, "nodata": False}
        else:
            a = rng.choice(["sum", "mean", "store", "store", "count"])
            fc = ({"k": "acc", "a": "store", "group": True if st["rerun"] else rng.random() < 0.5} if a == "store" else
                  {"k": "acc", "a": "count", "name": rng.choice(COUNT_NAMES)} if a == "count" else {"k": "acc", "a": a})
        # the sequence after the element is run once per Split.run (the model runs it without history)
        ast = new_state(rerun=False, stateless=st["rerun"])
        ast["no_stopfill"] = st.get("no_stopfill", False)
        after = [gen_elem(rng, ast, depth + 1) for _ in range(rng.choice([0, 0, 1, 2]))]
        return pre + [fc] + after
    # sequence branch: one rerun region
    bst = new_state(rerun=True, stateless=st["stateless"])
    bst["no_stopfill"] = st.get("no_stopfill", False)
    b = []
    for _ in range(rng.choice([0, 1, 1, 2, 3])):
        for _try in range(20):
            if rng.random() < 0.25 and depth < 2:
                e = {"k": "seq", "els": [gen_elem(rng, bst, depth + 2) for _ in range(rng.choice([0, 1, 2]))]}
            else:
                e = gen_elem(rng, bst, depth + 1)
            if not fc_capable(e) and not fr_capable(e):       # it would change the type of the branch
                break
        else:
            e = {"k": "call", "f": "ident"}
        b.append(e)
    return b


def gen_elem(rng, st, depth):
    """an element; (adversary follow-up) the caller may wrap ANY element - also a nested one, also an adapter - with
    adapters.Run itself: Run(RunIf(..)), Run(Split(..)), Run(Sequence(..)), Run(Run(obj, run="alt")), ..."""
    e = _gen_elem0(rng, st, depth)
    while rng.random() < (0.04 if e["k"] not in ("run", "runnamed") else 0.25):
        e = {"k": "run" if rng.random() < 0.65 else "runnamed", "el": e}
    return e


def _gen_elem0(rng, st, depth):
    """an element, possibly nested (RunIf, Split, Sequence inside those)"""
    r = rng.random()
    if depth >= 3 or r < 0.78:
        a = gen_atom(rng, st)
        rr = rng.random()
        if rr < 0.06:
            return {"k": "run", "el": a}          # the caller wraps the element with adapters.Run itself
        if rr < 0.09:
            return {"k": "runnamed", "el": a}     # Run(el, run="run")
        return a
    if r < 0.88:
        # the inner sequence of a RunIf is a rerun region of its own objects
        ist = new_state(rerun=True, stateless=st["stateless"], region=st["region"] if st["rerun"] else None)
        ist["no_stopfill"] = st.get("no_stopfill", False)
        n = rng.choice([0, 1, 1, 2, 3])
        inner = [gen_elem(rng, ist, depth + 1) for _ in range(n)]
        if rng.random() < 0.25:
            inner = [{"k": "seq", "els": inner}]
        return {"k": "runif", "p": rng.choice(PREDS), "inner": inner}
    if r < 0.96:
        nb = rng.choice([0, 1, 2, 2, 3])
        branches = [gen_branch(rng, st, depth) for _ in range(nb)]
        if st["rerun"] and st["region"] is not None:
            # an element with state somewhere in the branches is upstream of whatever follows the Split in this region
            if any(k in ("count", "synraise") or k.startswith("acc:") or k == "syn:fc" for b in branches for k in _kinds_of(b)):
                st["region"]["stateful_seen"] = True
        bufsize = rng.choice([None, 1, 2, 3, 4, 1000]) if rng.random() < 0.97 else 0
        return {"k": "split", "branches": branches, "bufsize": bufsize}
    if st["rerun"]:
        return {"k": "seq", "els": [gen_elem(rng, st, depth + 1) for _ in range(rng.choice([0, 1, 2]))]}
    return gen_atom(rng, st)


def _kinds_of(specs):
    out = []
    for s in specs:
        _kinds(s, out)
    return out


def gen_prog(rng, n):
    st = new_state()
    return [gen_elem(rng, st, 0) for _ in range(n)]


REPRESENTATIVES = (
    [{"k": "call", "f": f} for f in ("inc", "wrap", "boom", "ident")]
    + [{"k": "var", "name": "x", "f": "inc"}]
    + [{"k": "filter", "p": p} for p in ("even", "lt5")]
    + [{"k": "slice", "args": a} for a in ([2], [0], [1, 4], [0, 5, 2], [-1], [1, -1], [-2, None], [-3, -1], [-3, 2], [-1, -3])]
    + [{"k": "count", "name": "n"}, {"k": "reverse"}, {"k": "end"}]
    + [{"k": "acc", "a": "sum"}, {"k": "acc", "a": "mean"}, {"k": "acc", "a": "store", "group": True},
       {"k": "acc", "a": "store", "group": False}, {"k": "acc", "a": "count", "name": "n"}]
    + [{"k": "runif", "p": "even", "inner": [{"k": "call", "f": "inc"}, {"k": "call", "f": "wrap"}]},
       {"k": "runif", "p": "pos", "inner": [{"k": "seq", "els": [{"k": "filter", "p": "lt5"}]}]},
       {"k": "split", "branches": [[{"k": "call", "f": "inc"}], [{"k": "slice", "args": [1]}]], "bufsize": 2},
       {"k": "split", "branches": [[{"k": "reverse"}], []], "bufsize": None},
       {"k": "split", "branches": [], "bufsize": 3}]
    + [{"k": "syn", "run": 2, "call": False, "fill": 0, "compute": 0, "nodata": False},
       {"k": "syn", "run": 0, "call": True, "fill": 0, "compute": 0, "nodata": False},
       {"k": "syn", "run": 0, "call": False, "fill": 2, "compute": 2, "nodata": False},
       {"k": "syn", "run": 1, "call": True, "fill": 2, "compute": 2, "nodata": False},
       {"k": "syn", "run": 2, "call": True, "fill": 2, "compute": 2, "nodata": True},
       {"k": "syn", "run": 0, "call": False, "fill": 2, "compute": 1, "nodata": False},
       {"k": "junk"}, {"k": "setctx"},
       {"k": "slice", "args": [0, 5, 0]},
       {"k": "run", "el": {"k": "call", "f": "inc"}}, {"k": "run", "el": {"k": "acc", "a": "sum"}},
       {"k": "run", "el": {"k": "count", "name": "n"}}, {"k": "run", "el": {"k": "junk"}},
       {"k": "runnamed", "el": {"k": "count", "name": "n"}}, {"k": "runnone", "f": "inc"},
       # elements that keep state between the runs of their sequence
       {"k": "runif", "p": "all", "inner": [{"k": "count", "name": "n"}, {"k": "acc", "a": "sum"}]},
       {"k": "runif", "p": "lt5", "inner": [{"k": "acc", "a": "store", "group": False}, {"k": "acc", "a": "mean"}]},
       {"k": "split", "branches": [[{"k": "seq", "els": [{"k": "count", "name": "n"}]}],
                                   [{"k": "seq", "els": [{"k": "acc", "a": "sum"}]}, {"k": "call", "f": "neg"}]], "bufsize": 2},
       # Split branches of type fill_compute, alone and next to a sequence branch
       {"k": "split", "branches": [[{"k": "call", "f": "inc"}, {"k": "acc", "a": "sum"}, {"k": "call", "f": "neg"}],
                                   [{"k": "call", "f": "wrap"}]], "bufsize": 2},
       {"k": "split", "branches": [[{"k": "filter", "p": "even"}, {"k": "count", "name": "n"}],
                                   [{"k": "acc", "a": "mean"}, {"k": "acc", "a": "sum"}]], "bufsize": None},
       {"k": "split", "branches": [[{"k": "reverse"}, {"k": "acc", "a": "sum"}]], "bufsize": 1},
       # None results, Lena exceptions from callables / predicates / fill, explicit method names, a class object
       {"k": "callx", "none": True, "exc": None}, {"k": "callx", "none": False, "exc": "LenaStopFill"},
       {"k": "filterx", "exc": "LenaValueError"}, {"k": "synraise", "exc": "LenaStopFill"},
       {"k": "synraise", "exc": "LenaValueError"}, {"k": "runalt", "hasrun": True, "alt": 2}, {"k": "classobj"}]
)

# a run element with a callable alter_sequence that proposes itself hoisted to the front (see syn_class)
HOIST = {"k": "syn", "run": 2, "call": False, "fill": 0, "compute": 0, "nodata": False, "request": 0, "fill_into": 0,
         "reset": 0, "alter": 2}


def hash_str(x):
    return sum(ord(c) for c in x)


FLOW_A = [1, 2, 3, 4, 13, 6]
FLOW_B = [{"t": [3, {"d": {"a": 1}}]}, 4, {"t": [5, {"d": {"b": "x"}}]}, "s", 8]


def all_syn():
    for run in (0, 1, 2):
        for call in (False, True):
            for fill in (0, 1, 2):
                for compute in (0, 1, 2):
                    for nodata in (False, True):
                        yield {"k": "syn", "run": run, "call": call, "fill": fill, "compute": compute, "nodata": nodata}


def _floaty_conflict(els):
    """(no longer a restriction: float totals are modelled, see accFillQ)"""
    return False


def _floaty_conflict_old(els):
    seen = False
    for e in els:
        if e["k"] == "run":
            e = e["el"]
        if e["k"] == "acc" and e["a"] in ("sum", "mean"):
            if seen:
                return True
            if e["a"] == "mean":
                seen = True
    return False


# ---- elements that are instances of user SUBCLASSES of lena's classes -------------------------------------------
SUBABLE = ("seq", "split", "filter", "slice", "count", "reverse", "acc", "runif", "syn", "run", "runnone", "runalt",
           "runnamed", "filterx", "synraise")


def sub_bases():
    inc = {"k": "call", "f": "inc"}
    return [{"k": "seq", "els": [{"k": "call", "f": "mod3"}]}, {"k": "seq", "els": []},
            {"k": "seq", "els": [inc, {"k": "filter", "p": "even"}]}, {"k": "seq", "els": [{"k": "acc", "a": "sum"}]},
            {"k": "seq", "els": [{"k": "seq", "els": [{"k": "call", "f": "mod3"}]}, {"k": "count", "name": "n"}]},
            {"k": "split", "branches": [[inc], [{"k": "slice", "args": [1]}]], "bufsize": 2},
            {"k": "filter", "p": "even"}, {"k": "slice", "args": [1, 4]}, {"k": "count", "name": "n"},
            {"k": "reverse"}, {"k": "acc", "a": "sum"},
            {"k": "acc", "a": "store", "group": False}, {"k": "acc", "a": "count", "name": "n"},
            {"k": "runif", "p": "even", "inner": [inc]},
            {"k": "syn", "run": 2, "call": False, "fill": 0, "compute": 0, "nodata": False},
            {"k": "syn", "run": 0, "call": True, "fill": 0, "compute": 0, "nodata": False},
            {"k": "syn", "run": 0, "call": False, "fill": 2, "compute": 2, "nodata": False},
            {"k": "run", "el": {"k": "call", "f": "mod3"}}, {"k": "run", "el": {"k": "acc", "a": "sum"}},
            {"k": "runnone", "f": "mod3"}, {"k": "runalt", "hasrun": True, "alt": 2}]


def gen_sub(rng, st, depth=0):
    """a spec of an instance of a subclass (overriding run / __call__ / compute) of the class of a generated element"""
    if rng.random() < 0.5:
        els = []
        for _e in range(rng.choice([0, 1, 1, 2, 3])):
            els.append(gen_sub(rng, st, depth + 1) if depth < 2 and rng.random() < 0.2 else gen_elem(rng, st, depth + 1))
        of = {"k": "seq", "els": els}
    else:
        for _try in range(30):
            of = gen_elem(rng, st, depth + 1)
            if of["k"] in SUBABLE and not (of["k"] == "syn" and of["nodata"]):
                break
        else:
            of = {"k": "seq", "els": [{"k": "call", "f": "mod3"}]}
    return {"k": "sub", "of": of, "post": rng.choice(SUB_POSTS)}


def gen_sub_prog(rng, n, rerun=False):
    st = new_state(rerun=True) if rerun else new_state()
    els = [gen_elem(rng, st, 0) for _e in range(n)]
    for i in rng.sample(range(n), rng.choice([1, 1, 2]) if n > 1 else 1):
        e = gen_sub(rng, st)
        r = rng.random()
        if r < 0.2:
            e = {"k": "seq", "els": [e]}                     # nested by the caller, not only by the bracketing
        elif r < 0.3:
            e = {"k": "seq", "els": [gen_elem(rng, st, 1), e]}
        els[i] = e
    return els


def sub_cases(rng, thorough):
    inc, wrap = {"k": "call", "f": "inc"}, {"k": "call", "f": "wrap"}
    flow = [0, 1, 2, 3, 4, 5, 8]
    brks3 = all_bracketings(3) + [[0, [1], 2], [[0, [[1]]], 2], [[], 0, 1, [], 2]]
    for base in sub_bases():
        for post in SUB_POSTS:
            sub = {"k": "sub", "of": base, "post": post}
            yield {"op": "regroup", "els": [inc, sub, inc], "flow": flow, "term": None, "brks": brks3, "noflat": True}
            yield {"op": "source", "first": {"k": "gen", "flow": flow}, "els": [inc, sub, inc], "cuts": [0, 1, 2, 3, 4]}
        sub = {"k": "sub", "of": base, "post": "twice"}
        yield {"op": "regroup", "els": [sub], "flow": flow, "term": None, "brks": [[0], [[0]], [[], [0]]], "noflat": True}
        yield {"op": "regroup", "els": [inc, {"k": "seq", "els": [sub]}, wrap], "flow": flow, "term": "LenaValueError",
               "brks": [[0, 1, 2], [[0, 1], 2], [0, [1, 2]]], "noflat": True}
        yield {"op": "regroup", "els": [{"k": "sub", "of": {"k": "seq", "els": [sub, inc]}, "post": "dedup"}, sub],
               "flow": flow, "term": None, "brks": [[0, 1], [[0], 1], [[0, 1]]], "noflat": True}
        yield {"op": "rerun", "els": [inc, sub], "pasts": [[1, 2]], "flow": [3, 4, 4], "cut": 1}
    for _ in range(250 if not thorough else 4000):
        n = rng.choice([1, 2, 2, 3, 3, 4, 5])
        case = {"op": "regroup", "els": gen_sub_prog(rng, n), "flow": gen_flow(rng), "term": gen_term(rng),
                "brks": [flat_bracketing(n)] + [random_bracketing(rng, n) for _b in range(3)], "noflat": True}
        kd = gen_kind(rng, case["term"], 0.3)
        if kd:
            case["kind"] = kd
        yield case
    for _ in range(60 if not thorough else 1000):
        n = rng.choice([1, 2, 3, 4])
        first = {"k": "gen", "flow": gen_flow(rng)} if rng.random() < 0.6 else {"k": "iter", "flow": gen_flow(rng)}
        yield {"op": "source", "first": first, "els": gen_sub_prog(rng, n), "cuts": list(range(n + 2))}
    for _ in range(60 if not thorough else 1000):
        n = rng.choice([1, 2, 2, 3, 4])
        yield {"op": "rerun", "els": gen_sub_prog(rng, n, rerun=True), "pasts": [gen_flow(rng, 5) for _p in range(rng.choice([1, 2]))],
               "flow": gen_flow(rng, 5), "cut": rng.randint(0, n)}


def gen_cases(ctx):
    rng = ctx.rng
    thorough = ctx.tier == "thorough"
    # ---- exhaustive scopes -------------------------------------------------------------------------
    kinds = list(REPRESENTATIVES) + [{"k": "gen", "flow": [1, 2]}, {"k": "iter", "flow": [1, 2]},
                                      {"k": "seq", "els": [{"k": "call", "f": "inc"}]}, {"k": "seq", "els": []},
                                      {"k": "slice", "args": [1, -1, 0]},
                                      {"k": "runnonebad"}, {"k": "runnone", "f": "inc"},
                                      {"k": "callx", "none": True, "exc": None},
                                      {"k": "callx", "none": False, "exc": "LenaStopFill"},
                                      {"k": "filterx", "exc": "LenaValueError"}, {"k": "synraise", "exc": "LenaStopFill"},
                                      {"k": "synraise", "exc": "LenaTypeError"}, {"k": "both", "cflow": [1, 2], "iflow": [7]},
                                      {"k": "runalt", "hasrun": True, "alt": 2}, {"k": "runalt", "hasrun": True, "alt": 1},
                                      {"k": "runalt", "hasrun": True, "alt": 0}, {"k": "runalt", "hasrun": False, "alt": 2},
                                      {"k": "classobj"}, {"k": "iter", "flow": [1, 2]}, {"k": "iter", "flow": [1, 2], "tuple": True},
                                      {"k": "runnamed", "el": {"k": "call", "f": "inc"}},
                                      {"k": "runnamed", "el": {"k": "reverse"}}, {"k": "runnamed", "el": {"k": "junk"}},
                                      {"k": "seq", "els": [{"k": "call", "f": "inc"}, {"k": "setctx"}, {"k": "count", "name": "n"},
                                                           {"k": "junk"}]},
                                      {"k": "split", "branches": [[{"k": "junk"}]], "bufsize": 1},
                                      {"k": "split", "branches": [[]], "bufsize": 0},
                                      {"k": "runif", "p": "all", "inner": [{"k": "junk"}]},
                                      {"k": "runif", "p": "all", "inner": []}]
    for s in kinds:
        yield ({"op": "flags", "spec": s})
    inc = {"k": "call", "f": "inc"}
    for s in all_syn():
        yield ({"op": "flags", "spec": s})
        yield ({"op": "flags", "spec": {"k": "run", "el": s}})
        yield ({"op": "regroup", "els": [{"k": "run", "el": s}], "flow": [1, 2], "term": None, "brks": [[0], [[0]]]})
        yield ({"op": "regroup", "els": [s], "flow": [1, 2], "term": None, "brks": [[0], [[0]]]})
        yield ({"op": "regroup", "els": [inc, s, inc], "flow": [1, 2, 3], "term": None,
                      "brks": [[0, 1, 2], [[0, 1], 2], [0, [1, 2]], [0, [1], 2]]})
        yield ({"op": "source", "first": {"k": "gen", "flow": [1, 2]}, "els": [s, inc], "cuts": [0, 1, 2, 3]})
        yield ({"op": "source", "first": s, "els": [inc], "cuts": [0, 1, 2]})
    # the same capability classes with a `request` attribute (not callable / method): irrelevant for Sequence, Run and
    # Source - an element with fill and request but no compute is NOT convertible
    for s0 in all_syn():
        for rq in (1, 2):
            s = dict(s0, request=rq, fill_into=0, reset=0, alter=0)
            yield ({"op": "flags", "spec": s})
            yield ({"op": "regroup", "els": [s], "flow": [1, 2], "term": None, "brks": [[0], [[0]]]})
            if rq == 2:
                yield ({"op": "source", "first": {"k": "gen", "flow": [1, 2]}, "els": [s, inc], "cuts": [0, 1, 2, 3]})
    # a sample of the full product with fill_into / reset / alter_sequence in {absent, not callable, method}
    syns = list(all_syn())
    for _ in range(150 if not thorough else 1500):
        s = add_extras(rng, dict(rng.choice(syns)))
        yield ({"op": "flags", "spec": s})
        yield ({"op": "regroup", "els": [inc, s, {"k": "run", "el": s}], "flow": [1, 2, 3], "term": None,
                "brks": [[0, 1, 2], [[0, 1], 2], [0, [1, 2]]]})
    # one-pass iterator objects as first element of a Source: nothing may be taken from them at construction
    tails = [[], [inc], [inc, {"k": "count", "name": "n"}], [{"k": "acc", "a": "sum"}], [{"k": "slice", "args": [2]}],
             [{"k": "setctx"}, inc, {"k": "acc", "a": "store", "group": True}], [{"k": "junk"}]]
    for cls in ("generator", "list_iterator", "map", "islice"):
        for fl in ([], [1, 2, 3], FLOW_B):
            for tl in tails:
                yield ({"op": "source", "first": {"k": "iterobj", "cls": cls, "flow": fl, "term": None}, "els": tl,
                        "cuts": list(range(len(tl) + 2))})
        yield ({"op": "flags", "spec": {"k": "iterobj", "cls": cls, "flow": [1], "term": None}})
        yield ({"op": "regroup", "els": [{"k": "iterobj", "cls": cls, "flow": [1], "term": None}], "flow": [1], "term": None,
                "brks": [[0], [[0]]]})
    for tl in tails:
        yield ({"op": "source", "first": {"k": "iterobj", "cls": "generator", "flow": [1, 2], "term": "Other:ValueError"},
                "els": tl, "cuts": list(range(len(tl) + 2))})
    # empty sequences / sources
    for fl in ([], [1], FLOW_B):
        yield ({"op": "regroup", "els": [], "flow": fl, "term": None, "brks": [[], [[]], [[], [[]]]]})
        yield ({"op": "regroup", "els": [], "flow": fl, "term": "Other:ValueError", "brks": [[], [[]]]})
        yield ({"op": "regroup", "els": [{"k": "setctx"}], "flow": fl, "term": None, "brks": [[0], [[0]], [[], 0]]})
    yield ({"op": "source", "first": {"k": "gen", "flow": [1, 2]}, "els": [], "cuts": [0, 1]})
    yield ({"op": "source", "first": {"k": "iter", "flow": [1, 2]}, "els": [], "cuts": [0, 1]})
    yield ({"op": "source", "first": {"k": "setctx"}, "els": [], "cuts": [1]})
    yield ({"op": "source", "first": {"k": "setctx"}, "els": [{"k": "setctx"}], "cuts": [2]})
    yield ({"op": "source", "first": {"k": "setctx"}, "els": [{"k": "gen", "flow": [3, 4]}, inc], "cuts": [1, 2, 3]})
    yield ({"op": "source", "first": {"k": "gen", "flow": [3, 4]}, "els": [{"k": "setctx"}], "cuts": [0, 1, 2]})
    store = {"k": "acc", "a": "store", "group": True}
    for s in kinds:
        yield ({"op": "source", "first": s, "els": [inc], "cuts": [0, 1, 2]})
        # a LenaSequence as first element is iterated: its arguments are the flow (a Sequence nested directly in
        # it would travel as an object the generic model has no value for: left out)
        if s["k"] != "seq":
            yield ({"op": "source", "first": {"k": "seq", "els": [s]}, "els": [store], "cuts": [0, 1, 2]})
    yield ({"op": "source0"})
    # objects that are not elements, as arguments of a Sequence: None, a list, a single tuple of elements (the docstring
    # of Sequence.__init__ mentions it; the code rejects it like any other tuple), Run(None, run=5) (itself rejected by
    # Run.__init__ since /repo 0ff1b62), a class object
    for s in ({"k": "junk"}, {"k": "iter", "flow": [1, 2]}, {"k": "iter", "flow": [1, 2], "tuple": True},
              {"k": "runnonebad"}, {"k": "classobj"}, {"k": "both", "cflow": [1], "iflow": [2]}):
        yield ({"op": "regroup", "els": [s], "flow": [1, 2], "term": None, "brks": [[0], [[0]]]})
        yield ({"op": "regroup", "els": [inc, s], "flow": [1, 2], "term": None, "brks": [[0, 1], [[0], [1]], [0, [1]]]})
    # all ordered pairs of representative elements
    reps = REPRESENTATIVES
    for i, a in enumerate(reps):
        for j, b in enumerate(reps):
            if _floaty_conflict([a, b]):
                continue
            # quick: one of the two flows per pair (alternating); thorough: both
            for fl in ((FLOW_A, FLOW_B) if thorough else ((FLOW_A,) if (i + j) % 2 == 0 else (FLOW_B,))):
                case = {"op": "regroup", "els": [a, b], "flow": fl, "term": None, "brks": [[0, 1], [[0], [1]], [[0, 1]]]}
                kd = FLOW_KINDS[(i + 2 * j) % len(FLOW_KINDS)]       # how the flow is handed over: in turn
                if kd != "iter":
                    case["kind"] = kd
                yield (case)
    for i, a in enumerate(reps):
        for fl, term in ((FLOW_A, "Other:IndexError"), ([], None), ([7], "Other:TypeError")):
            yield ({"op": "regroup", "els": [a], "flow": fl, "term": term, "brks": [[0], [[0]]]})
            yield ({"op": "source", "first": {"k": "gen", "flow": fl}, "els": [a, inc], "cuts": [0, 1, 2, 3]})
        # every representative as the first element that receives a flow handed over in every way (a container, an
        # iterable without __next__, a hand-written iterator, a generator object), from run() and from the callable
        # first element of a Source
        for kd in FLOW_KINDS[1:]:
            yield ({"op": "regroup", "els": [a, {"k": "call", "f": "wrap"}], "flow": FLOW_A, "term": None, "kind": kd,
                    "brks": [[0, 1], [[0], 1]]})
        for kd in ("reader", "iterclass", "genobj"):
            yield ({"op": "regroup", "els": [a], "flow": [1, 2], "term": WIDE_EXC[i % len(WIDE_EXC)], "kind": kd,
                    "brks": [[0], [[0]]]})
        for rt in GEN_RETS[1:]:
            yield ({"op": "source", "first": {"k": "gen", "flow": FLOW_A, "ret": rt}, "els": [a, {"k": "call", "f": "wrap"}],
                    "cuts": [0, 1, 3]})
        for ct in ("tuple", "deque", "reader"):
            yield ({"op": "source", "first": {"k": "iter", "flow": FLOW_A, "cont": ct}, "els": [a, {"k": "call", "f": "wrap"}],
                    "cuts": [0, 1, 3]})
    # adapters put by the caller around every kind of element: nested ones, other adapters, adapters with another method
    # name (the reference takes the inner object's own transformation, never adapters.Run)
    inner_kinds = [{"k": "runalt", "hasrun": True, "alt": 2}, {"k": "runalt", "hasrun": False, "alt": 2},
                   {"k": "runalt", "hasrun": True, "alt": 1}, {"k": "runnone", "f": "inc"}, {"k": "runnonebad"},
                   {"k": "run", "el": {"k": "call", "f": "inc"}}, {"k": "run", "el": {"k": "acc", "a": "sum"}},
                   {"k": "run", "el": {"k": "count", "name": "n"}}, {"k": "runnamed", "el": {"k": "count", "name": "n"}},
                   {"k": "seq", "els": [inc, {"k": "count", "name": "n"}]}, {"k": "seq", "els": []},
                   {"k": "runif", "p": "even", "inner": [inc]},
                   {"k": "split", "branches": [[inc], [{"k": "acc", "a": "sum"}]], "bufsize": 2},
                   {"k": "syn", "run": 2, "call": True, "fill": 2, "compute": 2, "nodata": False},
                   {"k": "syn", "run": 1, "call": True, "fill": 2, "compute": 2, "nodata": True},
                   {"k": "syn", "run": 0, "call": False, "fill": 2, "compute": 2, "nodata": False},
                   {"k": "setctx"}, {"k": "classobj"}, {"k": "junk", "kind": "plain"}]
    for x in inner_kinds:
        for w in ({"k": "run", "el": x}, {"k": "runnamed", "el": x}, {"k": "run", "el": {"k": "run", "el": x}},
                  {"k": "runnamed", "el": {"k": "run", "el": x}}, {"k": "run", "el": {"k": "runnamed", "el": x}}):
            yield ({"op": "flags", "spec": w})
            yield ({"op": "regroup", "els": [inc, w, {"k": "call", "f": "wrap"}], "flow": FLOW_A, "term": None,
                    "brks": [[0, 1, 2], [0, [1, 2]], [[0, 1], 2]]})
            yield ({"op": "source", "first": {"k": "gen", "flow": [1, 2, 3]}, "els": [w, inc], "cuts": [0, 1, 3]})
            yield ({"op": "rerun", "els": [w, inc], "pasts": [[1, 2]], "flow": [3], "cut": 1})
    # a first element of a Source that is neither callable nor iterable (an object without interfaces, an old-style
    # sequence with __getitem__ only), alone and with a tail
    for jk in ("none", "plain", "getitem"):
        j = {"k": "junk"} if jk == "none" else {"k": "junk", "kind": jk}
        for tl in ([], [inc], [{"k": "count", "name": "n"}, inc], [{"k": "setctx"}], [{"k": "junk"}]):
            yield ({"op": "source", "first": j, "els": tl, "cuts": list(range(len(tl) + 2))})
        yield ({"op": "source", "first": {"k": "setctx"}, "els": [j, inc], "cuts": [1, 2, 3]})
        yield ({"op": "regroup", "els": [inc, j], "flow": [1, 2], "term": None, "brks": [[0, 1], [0, [1]]]})
        yield ({"op": "flags", "spec": j})
    # every exception class, raised by a callable / a predicate / a fill / the input iterator, in front of and behind
    # a fill/compute element, a callable and a run element
    for x in MODEL_LENA_EXC + MODEL_PY_EXC + WIDE_EXC:
        for raiser in ({"k": "callx", "none": False, "exc": x}, {"k": "filterx", "exc": x}, {"k": "synraise", "exc": x}):
            yield ({"op": "regroup", "els": [inc, raiser, {"k": "acc", "a": "sum"}], "flow": [1, 12, 3, 12], "term": None,
                    "brks": [[0, 1, 2], [[0, 1], 2], [0, [1, 2]]]})
        yield ({"op": "regroup", "els": [inc, {"k": "acc", "a": "store", "group": True}, inc], "flow": [1, 2], "term": x,
                "brks": [[0, 1, 2], [[0, 1], 2]]})
        yield ({"op": "source", "first": {"k": "iterobj", "cls": "generator", "flow": [1, 2], "term": x},
                "els": [inc, {"k": "acc", "a": "sum"}], "cuts": [0, 1, 2, 3]})
    # all bracketings of random lists
    plan = [(2, 30), (3, 40), (4, 30)] if not thorough else [(2, 200), (3, 300), (4, 200), (5, 60)]
    for n, count in plan:
        brks = all_bracketings(n)
        for _ in range(count):
            els = gen_prog(rng, n)
            case = {"op": "regroup", "els": els, "flow": gen_flow(rng), "term": gen_term(rng), "brks": brks}
            kd = gen_kind(rng, case["term"], 0.3)
            if kd:
                case["kind"] = kd
            yield (case)
    # ---- sampled ------------------------------------------------------------------------------------
    n_rand = 2500 if not thorough else 40000
    for _ in range(n_rand):
        n = rng.choice([0, 1, 2, 2, 3, 3, 4, 4, 5, 6, 7, 8])
        els = gen_prog(rng, n)
        nb = rng.randint(2, 5)
        brks = [flat_bracketing(n)] + [random_bracketing(rng, n) for _ in range(nb)]
        case = {"op": "regroup", "els": els, "flow": gen_flow(rng), "term": gen_term(rng), "brks": brks}
        if case["term"] is None and rng.random() < 0.15:
            case["lst"] = True       # Sequence.run is handed the list itself, not an iterator over it
        else:
            kd = gen_kind(rng, case["term"], 0.35)
            if kd:
                case["kind"] = kd
        yield (case)
    # the same over Python objects the model does not describe (plain callables with bool / dict / bytes / tuple
    # results; bool, bytes, dicts as values): no model side, judged by the hand-chained reference alone
    for _ in range(500 if not thorough else 8000):
        n = rng.choice([1, 2, 2, 3, 3, 4, 5])
        st = new_state()
        st["free"] = True
        els = [gen_elem(rng, st, 0) for _e in range(n)]
        if not any(k == "callp" for k in _kinds_of(els)):
            els[rng.randrange(n)] = {"k": "callp", "f": rng.choice(sorted(NATIVE))}
        case = {"op": "regroup", "els": els, "flow": gen_flow(rng, free=True), "term": gen_term(rng),
                "brks": [flat_bracketing(n)] + [random_bracketing(rng, n) for _b in range(2)]}
        kd = gen_kind(rng, case["term"], 0.35)
        if kd:
            case["kind"] = kd
        yield (case)
    # elements that are instances of user subclasses of Sequence / Split / Filter / Sum / Run / ... overriding the
    # method a Sequence dispatches on (no model side: the reference post-processes the base element's transformation)
    for case in sub_cases(rng, thorough):
        yield case
    # one Sequence object run several times (its elements keep their state): the whole program is a rerun region
    n_rerun = 700 if not thorough else 12000
    for _ in range(n_rerun):
        n = rng.choice([1, 1, 2, 2, 3, 3, 4, 5])
        st = new_state(rerun=True)
        els = [gen_elem(rng, st, 0) for _ in range(n)]
        case = {"op": "rerun", "els": els, "pasts": [gen_flow(rng, 5) for _ in range(rng.choice([1, 1, 2]))],
                "flow": gen_flow(rng, 5), "cut": rng.randint(0, n)}
        kd = gen_kind(rng, None, 0.3)
        if kd:
            case["kind"] = kd
        yield (case)
    # Split over stateless sequence branches: the simple schedule splitS and the general splitH against the code
    for _ in range(300 if not thorough else 4000):
        bst = new_state(rerun=True, stateless=True)
        branches = []
        for _b in range(rng.choice([0, 1, 2, 2, 3])):
            b = []
            for _e in range(rng.choice([0, 1, 1, 2, 3])):
                for _try in range(20):
                    e = gen_elem(rng, bst, 1)
                    if not fc_capable(e) and not fr_capable(e):
                        break
                else:
                    e = {"k": "call", "f": "ident"}
                b.append(e)
            branches.append(b)
        if branches and rng.random() < 0.3:
            # an element with a callable alter_sequence (it proposes a sequence with itself in front, the way Cache
            # proposes a Source) somewhere in a branch: as a Sequence object the branch goes through the loop of
            # meta.alter_sequence
            b = rng.choice(branches)
            b.insert(rng.randint(0, len(b)), dict(HOIST, call=rng.random() < 0.3))
        for b in branches:
            # two elements that both propose themselves in front never agree: alter_sequence would recurse for ever
            # (ill-behaved elements, not a sequence of the vocabulary): at most one proposer per branch
            seen = False
            for i, e in enumerate(b):
                if e["k"] == "syn" and e.get("alter") == 2:
                    if seen:
                        b[i] = dict(e, alter=0)
                    seen = True
        yield ({"op": "splits", "branches": branches, "bufsize": rng.choice([None, 1, 2, 3, 4, 1000, 0]),
                "flow": gen_flow(rng), "term": gen_term(rng)})
    wrap = {"k": "call", "f": "wrap"}
    for br in ([inc, HOIST], [HOIST, inc], [inc, HOIST, wrap], [inc, wrap, HOIST], [HOIST], [inc, dict(HOIST, call=True)],
               [{"k": "filter", "p": "even"}, HOIST, {"k": "slice", "args": [1]}]):
        for bufsize in (None, 2):
            yield ({"op": "splits", "branches": [br], "bufsize": bufsize, "flow": FLOW_A, "term": None})
            yield ({"op": "splits", "branches": [[wrap], br], "bufsize": bufsize, "flow": [1, 2, 3], "term": None})
    # one Source object called two or three times
    for _ in range(350 if not thorough else 8000):
        r = rng.random()
        if r < 0.3:
            first = {"k": "gen", "flow": gen_flow(rng, 5)}
            if rng.random() < 0.5:
                first["ret"] = rng.choice(GEN_RETS[1:])      # what the callable returns: a container, a reader, ...
        elif r < 0.5:
            # a container is iterated again and yields the SAME value objects: only immutable values (a Count or
            # Variable in the tail changes contexts in place - aliasing is C04, this model has value semantics)
            first = {"k": "iter", "flow": [rng.choice(INTS + ["s", NONE]) for _v in range(rng.randint(0, 5))]}
            if rng.random() < 0.5:
                first["cont"] = rng.choice(["tuple", "deque", "reader"])
        elif r < 0.9:
            first = {"k": "iterobj", "cls": rng.choice(["generator", "list_iterator", "map", "islice"]),
                     "flow": gen_flow(rng, 5), "term": None}
        else:
            first = {"k": "both", "cflow": gen_flow(rng, 4), "iflow": gen_flow(rng, 3)}
        st = new_state(rerun=True)
        if first["k"] == "iterobj":
            st["region"]["stateful_seen"] = True      # no Slice: what is left in a one-pass iterator is pull accounting
        n = rng.choice([0, 1, 1, 2, 2, 3, 4])
        yield ({"op": "source_rerun", "first": first, "els": [gen_elem(rng, st, 0) for _ in range(n)],
                "k": rng.choice([2, 2, 3])})
    # one object passed twice to one Sequence (stateless elements)
    for _ in range(100 if not thorough else 3000):
        n = rng.choice([2, 3, 3, 4, 5])
        st = new_state(rerun=True, stateless=True)
        els = []
        for _e in range(n):
            for _try in range(20):
                e = gen_atom(rng, st)
                if e["k"] in ("call", "var", "filter", "slice", "reverse", "end", "callx", "filterx") and not (
                        e["k"] == "slice" and e["args"] in BAD_SLICES):
                    break
            else:
                e = {"k": "call", "f": "inc"}
            els.append(e)
        i, j = sorted(rng.sample(range(n), 2))
        els[j] = els[i]
        yield ({"op": "regroup", "els": els, "flow": gen_flow(rng), "term": gen_term(rng), "share": [i, j],
                "brks": [flat_bracketing(n)] + [random_bracketing(rng, n) for _b in range(2)]})
    # auxiliary model functions that theorems mention, against the code: runIfS, accFill/accCompute, pySlice
    for _ in range(80 if not thorough else 2000):
        ist = new_state(rerun=True, stateless=True)
        yield ({"op": "tie", "what": "runifs", "p": rng.choice(PREDS),
                "inner": [gen_elem(rng, ist, 1) for _e in range(rng.choice([0, 1, 2]))], "flow": gen_flow(rng),
                "term": gen_term(rng)})
        a = rng.choice([{"a": "sum"}, {"a": "mean"}, {"a": "store", "group": True}, {"a": "store", "group": False},
                        {"a": "count", "name": "n"}])
        fl = [v for v in gen_flow(rng) if not (isinstance(v, dict) and "q" in v)]
        yield ({"op": "tie", "what": "accold", "acc": a, "flow": fl})
        yield ({"op": "tie", "what": "pyslice", "args": rng.choice(SLICES), "flow": gen_flow(rng)})
    # one element's own run on a flow object of every kind, without the conversion of Sequence.run (Count.run takes
    # next(flow): a TypeError for a container / a reader; everything else iterates)
    for a in REPRESENTATIVES:
        if "split" in _kinds_of([a]):
            continue         # Split.run reads blocks with islice(flow, n): on a container it would read the first block for ever
        for kd in FLOW_KINDS:
            yield ({"op": "tie", "what": "rawrun", "spec": a, "flow": FLOW_A if kd in ("list", "iterclass") else [1, 2],
                    "term": None, "kind": kd})
    n_src = 1000 if not thorough else 15000
    for _ in range(n_src):
        n = rng.choice([0, 1, 2, 3, 4, 5, 6])
        els = gen_prog(rng, n)
        r = rng.random()
        if r < 0.35:
            first = {"k": "gen", "flow": gen_flow(rng)}
            if rng.random() < 0.5:
                first["ret"] = rng.choice(GEN_RETS[1:])
        elif r < 0.6:
            first = {"k": "iter", "flow": gen_flow(rng)}
            if rng.random() < 0.5:
                first["cont"] = rng.choice(["tuple", "deque", "reader"])
        elif r < 0.9:
            cls = rng.choice(["generator", "generator", "list_iterator", "map", "islice"])
            first = {"k": "iterobj", "cls": cls, "flow": gen_flow(rng),
                     "term": gen_term(rng, 0.2) if cls == "generator" else None}
        elif r < 0.93:
            first = {"k": "both", "cflow": gen_flow(rng, 4), "iflow": gen_flow(rng, 3)}
        elif r < 0.96:
            first = gen_elem(rng, new_state(), 1)
        else:
            # a Sequence of (non-sequence) elements: iterated, its arguments become the values of the flow
            first = {"k": "seq", "els": [e for e in (gen_atom(rng, new_state()) for _ in range(rng.randint(0, 3)))]}
        if rng.random() < 0.1:
            # arguments without data before the first data element
            for _k in range(rng.choice([1, 1, 2])):
                els = [first] + els
                first = rng.choice([{"k": "setctx"}, {"k": "syn", "run": rng.choice([0, 2]), "call": rng.random() < 0.5,
                                                      "fill": 0, "compute": 0, "nodata": True}])
            n = len(els)
        yield ({"op": "source", "first": first, "els": els, "cuts": list(range(n + 2))})


def search_cases(ctx):
    return gen_cases(ctx)


# ----------------------------------------------------------------------------------------

def _kinds(spec, out):
    k = spec["k"]
    if k == "acc":
        out.append("acc:" + spec["a"])
    elif k == "slice":
        a = spec["args"]
        out.append("slice:" + ("neg" if any(x is not None and x < 0 for x in a) else "islice"))
    elif k == "syn":
        mode = ("nodata" if spec["nodata"] else "run" if spec["run"] == 2 else "call" if spec["call"] else
                "fc" if spec["fill"] == 2 and spec["compute"] == 2 else "unconvertible")
        out.append("syn:" + mode)
    else:
        out.append(k)
    if k == "sub":
        out.append("sub:" + spec["post"])
    for s in spec.get("inner", []) + spec.get("els", []) + ([spec["el"]] if "el" in spec else []) + (
            [spec["of"]] if "of" in spec else []):
        _kinds(s, out)
    for b in spec.get("branches", []):
        for s in b:
            _kinds(s, out)


def _depth(b):
    return 0 if isinstance(b, int) else 1 + max([_depth(x) for x in b] + [0])


def nontrivial(case, res):
    if case["op"] in ("flags", "source0"):
        return False
    if case["op"] in ("splits", "tie"):
        return bool(res.get("r")) or res.get("t") is not None
    if case["op"] == "source_rerun":
        return isinstance(res["outs"], list) and len(res["outs"]) >= 2
    if case["op"] == "rerun":
        w = res["whole"]
        return isinstance(w, list) and len(w) >= 2 and any(o["r"] or o["t"] for o in w)
    v = res["variants"][0] if res["variants"] else {}
    n_data = sum(1 for f in res["facts"] if f["ctor"] is None and not f["nodata"])
    return n_data >= 2 and ("e" in v or bool(v.get("r")) or v.get("t") is not None)


def classify(case, res):
    op = case["op"]
    if op in ("flags", "source0", "splits", "source_rerun"):
        return ["op:" + op]
    if op == "tie":
        return ["op:tie:" + case["what"]]
    labels = ["op:" + op]
    if case.get("kind"):
        labels.append("flow-handed-as:" + case["kind"])
    if model_free(case):
        labels.append("no-model-side")
    if wide_names(case):
        labels.append("exception-class-without-model-name")
    ks = []
    for s in case["els"]:
        _kinds(s, ks)
    labels += ["el:" + k for k in sorted(set(ks))]
    labels.append("len:%d" % len(case["els"]))
    if op == "rerun":
        w = res["whole"]
        labels.append("rerun:" + ("init-error" if not isinstance(w, list) else "runs=%d" % len(w)))
        return labels
    v = res["variants"][0] if res["variants"] else {}
    if "e" in v:
        labels.append("init:" + v["e"])
    else:
        labels.append("run:" + ("ok" if v.get("t") is None else ("eager:" if v.get("eager") else "lazy:") + v["t"]))
        labels.append("out:" + ("empty" if not v.get("r") else "nonempty"))
    if op == "regroup":
        labels.append("flowlen:%d" % len(case["flow"]))
        labels.append("variants:%d" % min(len(case["brks"]), 10) + ("+" if len(case["brks"]) > 10 else ""))
        labels.append("nestdepth:%d" % max(_depth(b) for b in case["brks"]))
        if case.get("term"):
            labels.append("input-raises")
        if case.get("lst"):
            labels.append("input-is-list")
    return labels


def signature(case, failure):
    ks = []
    for s in case.get("els", []) or [case.get("spec", {"k": "?"})]:
        _kinds(s, ks)
    return case["op"] + ":" + ",".join(ks) + ":" + str(len(case.get("flow", [])))


def _drop_index(brk, i):
    out = []
    for b in brk:
        if isinstance(b, int):
            if b == i:
                continue
            out.append(b - 1 if b > i else b)
        else:
            out.append(_drop_index(b, i))
    return out


def shrink(case):
    op = case["op"]
    if op == "regroup":
        if len(case["brks"]) > 2:
            for i in range(1, len(case["brks"])):
                yield dict(case, brks=[case["brks"][0], case["brks"][i]])
            yield dict(case, brks=case["brks"][:1])
        for i in range(len(case["els"])):
            yield dict(case, els=case["els"][:i] + case["els"][i + 1:], brks=[_drop_index(b, i) for b in case["brks"]])
        for i in range(len(case["flow"])):
            yield dict(case, flow=case["flow"][:i] + case["flow"][i + 1:])
        if case.get("term"):
            yield dict(case, term=None)
        if case.get("lst"):
            yield {k: v for k, v in case.items() if k != "lst"}
        if case.get("kind") in ("tuple", "deque", "genobj"):
            yield dict(case, kind="list" if case["kind"] != "genobj" else "iterclass")
        for i, e in enumerate(case["els"]):
            if e["k"] in ("run", "runnamed"):
                yield dict(case, els=case["els"][:i] + [e["el"]] + case["els"][i + 1:])
            if e["k"] == "sub":
                yield dict(case, els=case["els"][:i] + [e["of"]] + case["els"][i + 1:])
                if e["of"].get("els"):
                    for j in range(len(e["of"]["els"])):
                        o2 = dict(e["of"], els=e["of"]["els"][:j] + e["of"]["els"][j + 1:])
                        yield dict(case, els=case["els"][:i] + [dict(e, of=o2)] + case["els"][i + 1:])
            for sub in ("inner", "els"):
                if e.get(sub):
                    for j in range(len(e[sub])):
                        e2 = dict(e, **{sub: e[sub][:j] + e[sub][j + 1:]})
                        yield dict(case, els=case["els"][:i] + [e2] + case["els"][i + 1:])
            if e["k"] not in ("call",):
                yield dict(case, els=case["els"][:i] + [{"k": "call", "f": "ident"}] + case["els"][i + 1:])
    elif op == "rerun":
        for i in range(len(case["pasts"])):
            yield dict(case, pasts=case["pasts"][:i] + case["pasts"][i + 1:])
        for i in range(len(case["els"])):
            els = case["els"][:i] + case["els"][i + 1:]
            yield dict(case, els=els, cut=min(case["cut"], len(els)))
        for j, fl in enumerate(case["pasts"]):
            for i in range(len(fl)):
                yield dict(case, pasts=case["pasts"][:j] + [fl[:i] + fl[i + 1:]] + case["pasts"][j + 1:])
        for i in range(len(case["flow"])):
            yield dict(case, flow=case["flow"][:i] + case["flow"][i + 1:])
    elif op == "splits":
        bs = case["branches"]
        for i in range(len(bs)):
            yield dict(case, branches=bs[:i] + bs[i + 1:])
        for i, b in enumerate(bs):
            for j in range(len(b)):
                yield dict(case, branches=bs[:i] + [b[:j] + b[j + 1:]] + bs[i + 1:])
        for i in range(len(case["flow"])):
            yield dict(case, flow=case["flow"][:i] + case["flow"][i + 1:])
        if case.get("term"):
            yield dict(case, term=None)
    elif op == "source":
        n = len(case["els"])
        if len(case["cuts"]) > 2:
            for c in case["cuts"]:
                if c != n + 1:
                    yield dict(case, cuts=[c, n + 1])
        for i in range(n):
            els = case["els"][:i] + case["els"][i + 1:]
            yield dict(case, els=els, cuts=list(range(n + 1)))
        if case["first"]["k"] in ("gen", "iter", "iterobj"):
            fl = case["first"]["flow"]
            for i in range(len(fl)):
                yield dict(case, first=dict(case["first"], flow=fl[:i] + fl[i + 1:]))


# ---- MANIFEST texts ------------------------------------------------------------------------
LEVEL_TEXT = ("Lean 4 theorems about a transcribed model of Sequence/Source/LenaSequence/adapters.Run/meta.flatten: which "
              "adapter the constructors choose and that no method is missing later (all capability combinations), and the "
              "algebra of the composition of stream stages for ALL element lists, bracketings (any depth) and streams (no "
              "bound) - the stream model keeps Python's lazy exception order; that generator chains ARE such compositions "
              "is validated, not proved here (Bridge/Flow.lean relates it to the pull-level machines of C02) -, also for sequence objects that are run again with the state their elements keep (inside "
              "RunIf, in Split branches); the model is tied to /repo by a correspondence check over the real element "
              "vocabulary (incl. Split with sequence and fill_compute branches, stateful elements inside RunIf/Split, a "
              "Sequence as first element of a Source) and all 108 synthetic capability classes (exhaustive small scopes + "
              "seeded random programs), plus a direct oracle: pairwise equality of all bracketings / Source forms / "
              "repeated runs and a hand-chained reference composition on the real code.")
LEVEL_NOTE = ("Trusted: Lean kernel (+ propext, Classical.choice, Quot.sound), the hand transcription validated by the "
              "correspondence run, the stream abstraction of generator chains, islice/deque semantics as transcribed, the "
              "JSON protocol. 33 theorems carry the property; 21 auxiliary ones (definitional / model-internal) are audited "
              "but not counted.")
TECHNIQUE = "Lean 4 proof over hand-written model + correspondence check (exhaustive small scopes, seeded sampling)"
DESIGN_REF = "DESIGN.md section 3, C01"
