"""C20 translator: Python `ast` + `symtable` of every module under <repo>/lena  ->  facts for the Lean resolver.

The facts are the *model data* of property C20 (DESIGN.md section 3, C20).  They are written to
`lean/LenaModel/Gen/C20Facts.lean` (regenerated from the current working tree on every run of the check) and the
Lean kernel re-checks `Lena.C20.current_tree_resolves` against them.  The same facts are returned as a Python
dictionary so that the harness can name modules / functions / names.

What is translated (everything else the resolver never sees, and is counted in `stats`):

* every module `lena[.pkg[.mod]]` found as a file, with its parent package and attribute name on the parent;
* the **module-level code** of each module as a list of events in source (= execution) order; class bodies and the
  decorators / default values / annotations of `def`s are executed at import time and therefore belong here;
* every **function / method / lambda body** (qualified name, line) as its own list of events (call-time code);
* `__all__` when it is a literal list.

Events (see `Lena.C20.Ev` in lean/LenaModel/Model/C20.lean):

    bind n            n := some object the resolver knows nothing about   (def, class, assignment, external import)
    bindMod n m       n := the lena module m                               (`import lena.flow` binds `lena`)
    unbind n          `del n`
    load n            a read of the global (or import-bound local) name n
    attr n [a,b,..]   a read of n.a.b...   (n global or import-bound local)
    ensure m          the import machinery loads module m unless it is in sys.modules (parents are listed first)
    from m n as       `from m import n as as` for one name (submodule fall-back is the resolver's business)
    star m            `from m import *`
    nomodule n        import of a module lena.* that does not exist in the tree
    enter / leave     a region (branch of an `if`, loop body, exception handler...) whose effects the resolver must
                      not assume afterwards
    ext x             import-time `import x` of the third-party module x (ImportError when the environment lacks it)
    tryBegin / tryExcept / tryEnd   a `try` with a handler that catches ImportError / NameError / AttributeError
    tryElse           between the handler and tryEnd: the `else:` part (runs when the body ran to its end; its failures
                      are not caught by the handlers of its own `try`)
    gbind n / gunbind n             in a function: `global n; n = ...` / `global n; del n`

Name classification (local / global / free) is taken from CPython's own `symtable`, so LEGB is exactly the
compiler's.  Locals are invisible to the resolver except locals that are bound *only* by import statements
(`import lena.flow` inside a function makes `lena` such a local).

Control flow.  A block that may or may not run (branch of an `if`, loop body, exception handler, `match` case) is
bracketed by enter/leave: its loads are checked, its effects are dropped.  Module level only: a `for` over a non-empty
literal / `range(k)` runs its body (inline); after a statement whose branches are not decided statically the names
bound on *every* path are bound, and the names bound on *some* path only are **assumed** bound (listed per module
under `assumed`, counted in `stats`): whether they exist is what the fresh interpreter shows, and a function that
loads one that does not exist is found by the bytecode oracle.  Inside a function a `try` body is taken to run to
its end (the path on which an optional module is installed), its handlers are regions.

Closures.  A local of a function that its inner functions (`def`, `lambda`; not its own comprehensions) read as a
free variable is followed like an import-bound local: its bindings are `bind` events of the function (parameters at
the start; after an `if` chain, what every branch that goes on binds), and the reads of the inner functions are
checked when the statement that creates the inner function is done -- the earliest moment it can be called; a cell
that is not certainly bound by then is a NameError ("free variable referenced before assignment"); a cell bound by an
import is followed through attribute chains.  `global n` writes in functions are `gbind` / `gunbind` events
(call-time changes of the module namespace, explored by the resolver's closure over call sequences);
`globals()["n"] = ...` likewise, `globals()[computed] = ...` can only add opaque bindings and is ignored (cautious).

Handlers.  A `try` with a handler that catches ImportError / NameError / AttributeError (or Exception, or a bare
`except`) is translated with its structure (`tryBegin … tryExcept mask … tryEnd`, several handlers nest): the
resolver runs the handler exactly when the body raises such a failure, so `try: unicode / except NameError:` is not
a failure.  Inside a function the handlers are, in addition, always checked as regions.  The `else:` part is NOT
guarded by the handlers (`tryElse`).  A handler that contains a `raise` statement does not make a NameError /
AttributeError harmless (the function still fails because of the undefined name, whatever class it re-raises): its
mask loses those two bits.  A handler that contains an import statement repairs the failure (the lazy-import idiom):
bit 3 of its mask, which catches nothing, says so (such a catch is not an import-order dependence).
`hasattr(m.a, "b")` / `getattr(m.a, "b", default)` with a literal name are, in addition to their arguments, a guarded
read of `m.a.b` (tryBegin, attr, tryExcept 4, tryEnd): they ask whether a lena module has an attribute.

Aliases.  `x = name.a.b` at module level, or in a function for a local `x` that nothing else binds and whose root is
a global / import-bound local / another alias, is an `alias` event: `x` is bound to what the chain denotes.

Classes.  Every `class` statement (bases resolved against the whole tree: a class of the tree, a builtin, unknown),
every `raise X(...)` / `raise X` whose `X` is a name or attribute chain not rooted at a local, and every read of a local
that CPython's compiler marks as possibly unbound (LOAD_FAST_CHECK; AUDITED_MAYBE_UNBOUND is the allow-list).

Coverage.  Every Name, Attribute, import statement and function of the source is accounted for (translated, in a
dead interpreter-version branch, or in an annotation that is never evaluated); `coverage` per module, checked
against an independent ast.walk count by the harness.

Locals that are certainly unbound (class DeadLoads below).  Per function, a definite-UNassignment analysis of its own
scope: a read (or `del`) of a local that is unbound on every path from the function's entry -- after the end of
`except E as x:` (x is deleted there, however the clause is left), after `del x`, before any binding -- is a
`dead_loads` fact (module, function, variable, line, cause); rendered as `Gen.currentDeadLoads`.  Conditionally
bound locals are never listed.

A local that only import statements bind gets an identifier of its own (`lena (local)`): reading it where no import
has certainly bound it is an UnboundLocalError (a NameError), never a read of the module's global of the same name.

Environment.  A module outside lena and outside the standard library that import-time code imports (`jinja2` at
the top of output/render_latex.py) is a *third-party* module: its import is an `ext` event, and whether it can be
imported is a parameter of the resolver (`Facts.absent`, a bit set over `facts["ext"]`), not something the
translator decides.  A module-level `try:` with a handler that catches ImportError is translated with its structure
(tryBegin, body, tryExcept, handler, tryEnd), so the resolver takes the handler path exactly when an import of the
body fails -- here or in a lena module imported from the body.  `facts["envs"]` lists the environments the instance
theorem ranges over: every subset of the third-party modules (at most 3 of them; otherwise: as installed, none
absent, each one absent, all absent); Python-2 standard-library modules (`future_builtins`) are absent in all of them.
Imports of third-party modules inside functions stay plain bindings: a call that raises ImportError there has ended
in the documented way, and everything after the import is still checked.

Static evaluation, under the assumption "CPython 3.12": `if` tests (and `and`/`or`/`not`/conditional expressions)
decided by `sys.version_info` / `sys.version` alone, and `TYPE_CHECKING`, are evaluated and only the live branch is
translated (the Python-2 branches are counted, not checked).
"""
from __future__ import annotations

import ast
import builtins
import hashlib
import importlib.util
import json
import os
import symtable
import sys
import tempfile
import warnings
from pathlib import Path

GEN_REL = "LenaModel/Gen/C20Facts.lean"
IMPLICIT = ["__name__", "__doc__", "__package__", "__loader__", "__spec__", "__file__", "__cached__", "__builtins__"]
LOCAL_SUFFIX = " (local)"
# what a handler catches of the failures the resolver knows: bit 0 ImportError, bit 1 NameError, bit 2 AttributeError
HANDLER_MASK = {"ImportError": 1, "ModuleNotFoundError": 1, "NameError": 2, "UnboundLocalError": 2, "AttributeError": 4,
                "Exception": 7, "BaseException": 7}
PROTOCOL_METHODS = {"__getattr__", "__setattr__", "__delattr__", "__getattribute__"}
# Reads of locals that CPython's own definite-assignment analysis cannot prove bound (LOAD_FAST_CHECK), looked at one
# by one: (module, qualified function name, variable) -> why the read cannot find the variable unbound.  Any other
# such read is reported as a possible UnboundLocalError.
AUDITED_MAYBE_UNBOUND = {
    ("lena.core.fill_compute_seq", "_init_sequence_with_el", "ind"):
        "the loop ran at least once: otherwise `el is None` and the function has raised LenaTypeError before the read",
    ("lena.core.fill_compute_seq", "FillComputeSeq.__init__", "ind"):
        "the loop ran at least once: otherwise `fc_el is None` and LenaTypeError was raised before the read",
    ("lena.core.source", "Source.__call__", "flow"):
        "`first` is callable or has __iter__: Source.__init__ raises LenaTypeError otherwise, so one branch binds `flow`",
    ("lena.math.elements", "Mean.compute", "scont"):
        "read only `if sums:`; `sums` is non-empty only in the branch that binds `scont` (the other sets sums = [])",
    ("lena.output.to_csv", "iterable_to_table", "format_str"):
        "bound under `format_ is not None`, read only in the `else` of `format_ is None`",
    ("lena.output.to_csv", "hist2d_to_csv", "bin_content"):
        "the loops over edges[k][:-1] run at least once: histogram edges have at least two values per axis "
        "(check_edges_increasing raises LenaValueError otherwise)",
    ("lena.output.to_csv", "hist2d_to_csv", "x_ind"):
        "as for bin_content: the outer loop ran at least once",
    ("lena.output.write", "Write.run", "existing_data"):
        "bound in the body of the `with open(...)` just before; the compiler only cannot exclude that __exit__ swallowed an exception",
    ("lena.output.write_root_tree", "WriteROOTTree.run", "root_file"):
        "self._root_file is a TFile, a str or a tuple: WriteROOTTree.__init__ raises LenaValueError for anything else",
    ("lena.structures.graph", "graph._parse_error_names", "err_tail"):
        "read only when len(err_coords) == 1, i.e. the branch that binds it ran (the other cases raise LenaValueError)",
}
STDLIB = set(sys.stdlib_module_names)
# modules of the Python-2 standard library: never importable under CPython 3 (not an environment dimension)
PY2_ONLY = {"future_builtins", "cPickle", "cStringIO", "StringIO", "__builtin__", "ConfigParser", "Queue", "urllib2",
            "urlparse", "HTMLParser", "httplib", "cookielib", "copy_reg", "commands", "dummy_thread", "thread",
            "Tkinter", "xmlrpclib", "SocketServer", "UserDict", "UserList", "UserString", "anydbm", "dbhash", "gdbm",
            "whichdb", "itertools_izip"}
IMPORT_EXC = {"ImportError", "ModuleNotFoundError", "Exception", "BaseException"}


# ------------------------------------------------------------------------------------------------------------
class Interner:
    def __init__(self):
        self.names = []
        self.ids = {}

    def __call__(self, s):
        i = self.ids.get(s)
        if i is None:
            i = self.ids[s] = len(self.names)
            self.names.append(s)
        return i


def _ext_available(name):
    try:
        return importlib.util.find_spec(name.split(".")[0]) is not None
    except (ImportError, ValueError, AttributeError):
        return False


class _Scope:
    def __init__(self, kind, table, qual, implocals=(), parent=None, is_comp=False):
        self.kind, self.table, self.qual = kind, table, qual
        self.implocals = set(implocals)
        self.kids = list(table.get_children())
        self.used = [False] * len(self.kids)
        self.parent, self.is_comp = parent, is_comp
        # locals of this function that inner functions read (closure cells), and those reads (events that are
        # appended to this function's own events: "the closure check at the end of the owner")
        self.cells = _cells(table) if kind == "function" and not is_comp else set()
        self.closure_reads = []
        self.aliases = set()        # locals bound by nothing but `x = <name>.<attr>...` (aliases of modules)
        self.fname = None           # qualified name of the def / lambda this scope is the body of

    def reader(self):
        """the def / lambda whose code this scope belongs to (comprehensions belong to their enclosing code)"""
        sc = self
        while sc is not None and (sc.is_comp or sc.kind != "function"):
            if sc.kind in ("module", "class"):
                return None
            sc = sc.parent
        return sc

    def owner_of(self, name):
        """the enclosing function whose local `name` a free variable of this scope refers to"""
        sc = self.parent
        while sc is not None:
            if sc.kind == "function" and not sc.is_comp:
                try:
                    sym = sc.table.lookup(name)
                    if sym.is_local():
                        return sc
                except KeyError:
                    pass
            sc = sc.parent
        return None

    def inlined(self, comp_locals):
        """the same scope, with the iteration variables of an inlined comprehension hidden"""
        sub = _Scope.__new__(_Scope)
        sub.__dict__.update(self.__dict__)      # shares kids/used with the enclosing scope
        sub.comp_locals = set(getattr(self, "comp_locals", ())) | set(comp_locals)
        return sub

    def child(self, name, lineno):
        for want_line in (True, False):
            for i, k in enumerate(self.kids):
                if not self.used[i] and k.get_name() == name and (not want_line or k.get_lineno() == lineno):
                    self.used[i] = True
                    return k
        raise KeyError((name, lineno))


def _cells(table):
    """locals of the function `table` that some inner scope reads as a free variable"""
    loc = {s.get_name() for s in table.get_symbols() if s.is_local()}
    out = set()

    def walk(t, shadow):
        for c in t.get_children():
            if c.get_type() == "class":
                walk(c, shadow)         # a class body does not hide the function's locals from its methods
                continue
            here = {s.get_name() for s in c.get_symbols() if s.is_local() and c.get_type() == "function"}
            for s in c.get_symbols():
                if s.is_free() and s.get_name() in loc and s.get_name() not in shadow:
                    out.add(s.get_name())
            walk(c, shadow | here)
    walk(table, set())
    return out


def _implocals(table):
    out = set()
    for s in table.get_symbols():
        if s.is_imported() and s.is_local() and not s.is_assigned() and not s.is_parameter():
            out.add(s.get_name())
    return out


class ModuleTranslator:
    def __init__(self, tr, modname, is_pkg, path):
        self.tr, self.modname, self.is_pkg, self.path = tr, modname, is_pkg, path
        self.package = modname if is_pkg else modname.rpartition(".")[0]
        self.funcs = []
        self.all = None
        self.all_dynamic = False
        self.may = set()            # names that may be bound at module level (for the namespace upper bound)
        self.assumed = set()        # names bound on some path only of a module-level statement (assumed bound)
        self.classdefs, self.raise_sites = [], []
        self.seen, self.deadset, self.uneval = set(), set(), set()      # translator coverage (node ids)
        self.coverage = {}
        self.future_annotations = False

    # ---- helpers --------------------------------------------------------------------------------------
    def N(self, s):
        return self.tr.intern(s)

    def LN(self, scope, name):
        """the identifier of `name` as code of `scope` means it: a local that only import statements bind is a
        name of its own ("lena (local)"), so that it can never be mistaken for the module's global `lena`"""
        if self.tracked(scope, name):
            return self.tr.intern(name + LOCAL_SUFFIX)
        return self.tr.intern(name)

    def tracked(self, scope, name):
        """a local of a function the resolver follows: bound only by imports, or read by inner functions"""
        return scope.kind == "function" and \
            (name in scope.implocals or name in scope.cells or name in scope.aliases) \
            and name not in getattr(scope, "comp_locals", ())

    @staticmethod
    def chain_of(node):
        """(root name, [attrs]) if `node` is `name.a.b` (or just `name`), else None"""
        chain = []
        while isinstance(node, ast.Attribute):
            chain.append(node.attr)
            node = node.value
        if isinstance(node, ast.Name) and isinstance(node.ctx, ast.Load):
            return node.id, chain[::-1]
        return None

    def alias_locals(self, fnode, table):
        """locals of the function that are bound by nothing but assignments `x = name.a.b` whose root is a global,
        an import-bound local or another such alias: the resolver follows them (`flow_mod = lena.flow`)"""
        binds = {}      # name -> list of ("chain", root) | ("other",)

        def visit(node, top):
            for ch in ast.iter_child_nodes(node):
                if isinstance(ch, (ast.FunctionDef, ast.AsyncFunctionDef, ast.Lambda, ast.ClassDef)) and not top:
                    pass
                if isinstance(ch, (ast.FunctionDef, ast.AsyncFunctionDef, ast.ClassDef)):
                    binds.setdefault(ch.name, []).append(("other",))
                    continue            # another scope
                if isinstance(ch, ast.Lambda):
                    continue
                if isinstance(ch, ast.Assign) and len(ch.targets) == 1 and isinstance(ch.targets[0], ast.Name) \
                        and self.chain_of(ch.value) is not None:
                    binds.setdefault(ch.targets[0].id, []).append(("chain", self.chain_of(ch.value)[0]))
                    continue
                if isinstance(ch, ast.Name) and isinstance(ch.ctx, (ast.Store, ast.Del)):
                    binds.setdefault(ch.id, []).append(("other",))
                if isinstance(ch, (ast.Import, ast.ImportFrom)):
                    for a in ch.names:
                        binds.setdefault(a.asname or a.name.split(".")[0], []).append(("other",))
                if isinstance(ch, ast.ExceptHandler) and ch.name:
                    binds.setdefault(ch.name, []).append(("other",))
                visit(ch, False)
        for stmt in fnode.body:
            visit(ast.Module(body=[stmt], type_ignores=[]), True)
        params = {a.arg for a in fnode.args.posonlyargs + fnode.args.args + fnode.args.kwonlyargs} | \
            {x.arg for x in (fnode.args.vararg, fnode.args.kwarg) if x}
        cand = {n for n, bs in binds.items() if n not in params and all(b[0] == "chain" for b in bs)}

        def root_ok(root, seen=()):
            if root in cand:
                return True
            try:
                sym = table.lookup(root)
            except KeyError:
                return True
            if sym.is_global():
                return True
            return sym.is_local() and sym.is_imported() and not sym.is_assigned() and not sym.is_parameter()
        changed = True
        while changed:
            changed = False
            for n in list(cand):
                if not all(root_ok(b[1]) for b in binds[n]):
                    cand.discard(n)
                    changed = True
        out = set()
        for n in cand:
            try:
                sym = table.lookup(n)
                if sym.is_local():
                    out.add(n)
            except KeyError:
                pass
        return out

    def free_read(self, scope, name, chain):
        """a read of the free variable `name` (followed by the attribute chain `chain`) in an inner function:
        checked against what the owner has certainly bound at its end"""
        owner = scope.owner_of(name)
        reader = scope.reader()
        self.tr.stats["free_variable_reads"] = self.tr.stats.get("free_variable_reads", 0) + 1
        if owner is None or reader is None or reader is owner:
            self.tr.stats["free_variable_reads_in_comprehensions_of_the_owner"] = \
                self.tr.stats.get("free_variable_reads_in_comprehensions_of_the_owner", 0) + 1
            return
        lid = self.tr.intern(name + LOCAL_SUFFIX)
        owner.closure_reads.append(("attr", lid, [self.N(a) for a in chain]) if chain else ("load", lid))

    def class_expr(self, node, scope):
        """a base class / raised class as written: ("chain", root, [attrs]) when it is `name.a.b` and `name` is not
        an ordinary local, else ("unknown",) -- resolved against the whole tree afterwards"""
        c = self.chain_of(node)
        if c is None:
            return ("unknown",)
        root, chain = c
        if scope.kind != "module":
            cl = self.classify(scope, root)
            if scope.kind == "function" and cl not in ("global",):
                return ("unknown",)
            if scope.kind == "class" and cl != "global":
                return ("unknown",)
        return ("chain", root, chain)

    def note(self, kind, node, text=""):
        self.tr.stats[kind] = self.tr.stats.get(kind, 0) + 1
        self.tr.notes.append(f"{kind}: {self.modname}:{getattr(node, 'lineno', 0)} {text}"[:200])

    def classify(self, scope, name):
        """'global' | 'implocal' | 'skip' for a read of `name` in `scope`."""
        if name in getattr(scope, "comp_locals", ()):
            return "skip"
        if scope.kind == "module":
            return "global"
        try:
            s = scope.table.lookup(name)
        except KeyError:
            return "global"
        if s.is_global():
            return "global"
        if scope.kind == "class":
            return "skip"
        if s.is_local():
            return "implocal" if (name in scope.implocals or name in scope.aliases) else "skip"
        if s.is_free() and name != "__class__":
            return "free"
        return "skip"

    # ---- expressions ------------------------------------------------------------------------------------
    def expr(self, node, scope, out):
        if node is None:
            return
        if isinstance(node, list):
            for n in node:
                self.expr(n, scope, out)
            return
        if isinstance(node, ast.Name):
            self.seen.add(id(node))
            if isinstance(node.ctx, ast.Load):
                c = self.classify(scope, node.id)
                if c == "free":
                    self.free_read(scope, node.id, [])
                elif c != "skip":
                    out.append(("load", self.LN(scope, node.id)))
                    self.tr.stats["loads"] += 1
            elif isinstance(node.ctx, ast.Store):
                self.target(node, scope, out)       # walrus, comprehension targets
            return
        if isinstance(node, ast.Attribute):
            chain, base = [], node
            while isinstance(base, ast.Attribute):
                chain.append(base.attr)
                base = base.value
            chain.reverse()
            b = node
            while isinstance(b, ast.Attribute):
                self.seen.add(id(b))
                b = b.value
            if isinstance(base, ast.Name) and isinstance(base.ctx, ast.Load):
                self.seen.add(id(base))
                if not isinstance(node.ctx, ast.Load):
                    chain = chain[:-1]          # the last attribute is written / deleted, not read
                c = self.classify(scope, base.id)
                if c == "free":
                    self.free_read(scope, base.id, chain)
                elif c != "skip":
                    if chain:
                        out.append(("attr", self.LN(scope, base.id), [self.N(a) for a in chain]))
                        self.tr.stats["attr_chains"] += 1
                    else:
                        out.append(("load", self.LN(scope, base.id)))
                        self.tr.stats["loads"] += 1
                return
            self.expr(base, scope, out)
            return
        if isinstance(node, ast.Lambda):
            a = node.args
            self.expr(a.defaults, scope, out)
            self.expr([d for d in a.kw_defaults if d is not None], scope, out)
            self.seen.add(id(node))
            tab = scope.child("lambda", node.lineno)
            sub = _Scope("function", tab, scope.qual + "<lambda>.", _implocals(tab), parent=scope)
            sub.fname = scope.qual + "<lambda>"
            body = []
            self.bind_params(a, sub, body)
            self.expr(node.body, sub, body)
            body.extend(sub.closure_reads)
            self.add_func(scope.qual + "<lambda>", node.lineno, body)
            return
        if isinstance(node, (ast.ListComp, ast.SetComp, ast.DictComp, ast.GeneratorExp)):
            nm = {ast.ListComp: "listcomp", ast.SetComp: "setcomp", ast.DictComp: "dictcomp",
                  ast.GeneratorExp: "genexpr"}[type(node)]
            try:
                tab = scope.child(nm, node.lineno)
                sub = _Scope("function", tab, scope.qual, (), parent=scope, is_comp=True)
            except KeyError:
                # PEP 709: the comprehension is inlined, its iteration variables live in the enclosing table
                sub = scope.inlined({n.id for g in node.generators for n in ast.walk(g.target)
                                     if isinstance(n, ast.Name)})
            # the first iterable is evaluated in the enclosing scope, everything else inside the comprehension
            self.expr(node.generators[0].iter, scope, out)
            for i, g in enumerate(node.generators):
                if i:
                    self.expr(g.iter, sub, out)
                self.expr(g.target, sub, out)
                self.expr(g.ifs, sub, out)
            if isinstance(node, ast.DictComp):
                self.expr(node.key, sub, out)
                self.expr(node.value, sub, out)
            else:
                self.expr(node.elt, sub, out)
            return
        if isinstance(node, ast.BoolOp):
            # operands after one that decides the result statically (interpreter version) are never evaluated
            for v in node.values:
                self.expr(v, scope, out)
                sv = self.static_test(v)
                if (isinstance(node.op, ast.Or) and sv is True) or (isinstance(node.op, ast.And) and sv is False):
                    if v is not node.values[-1]:
                        self.tr.stats["statements_in_dead_version_branches"] += 1
                        self.dead(node.values[node.values.index(v) + 1:])
                    break
            return
        if isinstance(node, ast.IfExp):
            sv = self.static_test(node.test)
            self.expr(node.test, scope, out)
            if sv is not False:
                self.expr(node.body, scope, out)
            else:
                self.dead(node.body)
            if sv is not True:
                self.expr(node.orelse, scope, out)
            else:
                self.dead(node.orelse)
            return
        if isinstance(node, ast.NamedExpr):
            self.expr(node.value, scope, out)
            self.expr(node.target, scope, out)
            return
        probe = self.attr_probe(node, scope)
        for child in ast.iter_child_nodes(node):
            if isinstance(child, (ast.expr, ast.keyword, ast.comprehension, ast.arguments, ast.arg,
                                  ast.FormattedValue, ast.JoinedStr, ast.Starred, ast.Slice)):
                self.expr(child, scope, out)
            elif isinstance(child, (ast.expr_context, ast.operator, ast.boolop, ast.unaryop, ast.cmpop)):
                pass
            else:
                self.expr(child, scope, out)
        if probe is not None:
            out.extend(probe)

    def attr_probe(self, node, scope):
        """`hasattr(m.a, "b")`, `getattr(m.a, "b", default)`: a guarded read of `m.a.b` (the question whether a lena
        module has an attribute -- `lena.flow` is an attribute of `lena` only after somebody imported it);
        `getattr(m.a, "b")` without a default: the plain read of `m.a.b`.  Only for a literal name and a chain
        rooted at a global or a followed local; the arguments themselves are translated as usual."""
        if not (isinstance(node, ast.Call) and isinstance(node.func, ast.Name) and node.func.id in ("hasattr", "getattr")
                and not node.keywords and len(node.args) in (2, 3)
                and isinstance(node.args[1], ast.Constant) and isinstance(node.args[1].value, str)
                and node.args[1].value.isidentifier()):
            return None
        if node.func.id == "hasattr" and len(node.args) != 2:
            return None
        c = self.chain_of(node.args[0])
        if c is None or self.classify(scope, node.func.id) != "global":
            return None
        root, chain = c
        if self.classify(scope, root) not in ("global", "implocal"):
            return None
        ev = ("attr", self.LN(scope, root), [self.N(a) for a in chain] + [self.N(node.args[1].value)])
        self.tr.stats["attribute_probes"] = self.tr.stats.get("attribute_probes", 0) + 1
        if node.func.id == "getattr" and len(node.args) == 2:
            return [ev]
        # in the test of an `if` whose branches import something, the question is the lazy-import idiom (bit 3)
        return [("tryBegin",), ev, ("tryExcept", 12 if getattr(self, "lazy_test", False) else 4), ("tryEnd",)]

    # ---- binding targets ----------------------------------------------------------------------------------
    def bind_params(self, a, sub, evs):
        """parameters that inner functions read are bound when the function starts"""
        for arg in a.posonlyargs + a.args + a.kwonlyargs + [x for x in (a.vararg, a.kwarg) if x]:
            if arg.arg in sub.cells:
                evs.append(("bind", self.LN(sub, arg.arg)))

    def declared_global(self, scope, name):
        if scope.kind != "function":
            return False
        try:
            return scope.table.lookup(name).is_declared_global()
        except KeyError:
            return False

    def target(self, t, scope, out):
        if isinstance(t, ast.Name):
            self.seen.add(id(t))
            if t.id in getattr(scope, "comp_locals", ()):
                return                          # the variables of a comprehension do not leak
            if scope.kind == "module":
                out.append(("bind", self.N(t.id)))
                self.may.add(t.id)
            elif self.declared_global(scope, t.id):
                out.append(("gbind", self.N(t.id)))     # `global n; n = ...` inside a function
                self.tr.stats["global_writes_in_functions"] = self.tr.stats.get("global_writes_in_functions", 0) + 1
            elif self.tracked(scope, t.id) and not scope.is_comp:
                out.append(("bind", self.LN(scope, t.id)))
        elif isinstance(t, ast.Subscript) and isinstance(t.value, ast.Call) and isinstance(t.value.func, ast.Name) \
                and t.value.func.id == "globals" and not t.value.args and scope.kind == "function":
            # globals()[key] = ...: a literal key is a call-time binding of that global; a computed key can only add
            # bindings to opaque objects, which never makes a resolution fail (ignoring it is the cautious reading)
            self.expr(t.value, scope, out)
            self.expr(t.slice, scope, out)
            if isinstance(t.slice, ast.Constant) and isinstance(t.slice.value, str):
                out.append(("gbind", self.N(t.slice.value)))
            else:
                self.note("globals_write_with_computed_key", t, "globals()[...] = ... (adds opaque bindings only)")
        elif isinstance(t, (ast.Tuple, ast.List)):
            for e in t.elts:
                self.target(e, scope, out)
        elif isinstance(t, ast.Starred):
            self.target(t.value, scope, out)
        else:
            self.expr(t, scope, out)

    def add_func(self, qual, line, evs):
        self.tr.stats["functions"] += 1
        self.funcs.append({"name": qual, "line": line, "evs": evs})

    # ---- statements ---------------------------------------------------------------------------------------
    def region(self, body, scope, out, force=False):
        """events of a block that may or may not run"""
        if not body:
            return
        need = force or self.needs_region(scope, body)
        sub = []
        self.stmts(body, scope, sub)
        if not sub:
            return
        if need:
            out.append(("enter",))
            out.extend(sub)
            out.append(("leave",))
        else:
            out.extend(sub)

    @staticmethod
    def needs_region(scope, body):
        """must the effects of this block be dropped afterwards?  (module level: always; in a function: when it can
        bind something the resolver follows -- an import, or a local that inner functions read)"""
        return scope.kind == "module" or bool(getattr(scope, "cells", ())) or bool(getattr(scope, "aliases", ())) or any(
            isinstance(n, (ast.Import, ast.ImportFrom)) for b in body for n in ast.walk(b))

    def dead(self, nodes):
        """statements / expressions in a branch this interpreter never takes: counted, not translated"""
        for b in nodes if isinstance(nodes, list) else [nodes]:
            for n in ast.walk(b):
                self.deadset.add(id(n))

    def static_test(self, test):
        """value of a test that is decided by the interpreter version alone, else None (`and` / `or` / `not`
        are followed: `method == "pickle" or sys.version_info.major > 2` is True)"""
        if isinstance(test, ast.BoolOp):
            vals = [self.static_test(v) for v in test.values]
            if isinstance(test.op, ast.Or):
                return True if any(v is True for v in vals) else (False if all(v is False for v in vals) else None)
            return False if any(v is False for v in vals) else (True if all(v is True for v in vals) else None)
        if isinstance(test, ast.UnaryOp) and isinstance(test.op, ast.Not):
            v = self.static_test(test.operand)
            return None if v is None else (not v)
        return self.static_atom(test)

    @staticmethod
    def surely_iterates(it):
        """the iterable of a `for` is a non-empty literal or `range(c)` with a positive constant"""
        if isinstance(it, (ast.Tuple, ast.List, ast.Set)):
            return bool(it.elts) and not any(isinstance(e, ast.Starred) for e in it.elts)
        if isinstance(it, ast.Dict):
            return bool(it.keys) and all(k is not None for k in it.keys)
        if isinstance(it, ast.Constant) and isinstance(it.value, (str, bytes)):
            return len(it.value) > 0
        if isinstance(it, ast.Call) and isinstance(it.func, ast.Name) and it.func.id == "range" and not it.keywords \
                and it.args and all(isinstance(a, ast.Constant) and isinstance(a.value, int) for a in it.args):
            try:
                return len(range(*[a.value for a in it.args])) > 0
            except Exception:
                return False
        return False

    def static_atom(self, test):
        if (isinstance(test, ast.Name) and test.id == "TYPE_CHECKING") or \
                (isinstance(test, ast.Attribute) and test.attr == "TYPE_CHECKING"):
            return False        # typing.TYPE_CHECKING is False at run time
        names = {n.id for n in ast.walk(test) if isinstance(n, ast.Name)}
        attrs = {n.attr for n in ast.walk(test) if isinstance(n, ast.Attribute)}
        if names == {"sys"} and attrs and attrs <= {"version_info", "version", "major", "minor", "hexversion"} \
                and not any(isinstance(n, (ast.Call, ast.Lambda, ast.Await, ast.Yield)) for n in ast.walk(test)):
            try:
                return bool(eval(compile(ast.Expression(test), "<static>", "eval"), {"sys": sys, "__builtins__": {}}))
            except Exception:
                return None
        return None

    def must_binds(self, body):
        """names certainly bound (at this scope level) once `body` has run to its end"""
        s = set()
        for st in body:
            if isinstance(st, (ast.FunctionDef, ast.AsyncFunctionDef, ast.ClassDef)):
                s.add(st.name)
            elif isinstance(st, ast.Assign):
                for t in st.targets:
                    s |= {n.id for n in ast.walk(t) if isinstance(n, ast.Name) and isinstance(n.ctx, ast.Store)}
            elif isinstance(st, (ast.AnnAssign, ast.AugAssign)):
                if isinstance(st.target, ast.Name) and (not isinstance(st, ast.AnnAssign) or st.value is not None):
                    s.add(st.target.id)
            elif isinstance(st, ast.Import):
                for a in st.names:
                    s.add(a.asname or a.name.split(".")[0])
            elif isinstance(st, ast.ImportFrom):
                for a in st.names:
                    if a.name != "*":
                        s.add(a.asname or a.name)
            elif isinstance(st, ast.If) and st.orelse:
                s |= self.must_binds(st.body) & self.must_binds(st.orelse)
            elif isinstance(st, ast.With):
                s |= self.must_binds(st.body)
        return s

    def falls(self, body):
        """names certainly bound when `body` runs to its end and goes on; None if it never goes on (it ends with
        raise / return / continue / break on every path)"""
        s = set()
        for st in body:
            if isinstance(st, (ast.Raise, ast.Return, ast.Continue, ast.Break)):
                return None
            if isinstance(st, ast.If):
                outs = [self.falls(b) for b in (st.body, st.orelse)]
                live = [o for o in outs if o is not None]
                if not live:
                    return None
                s |= set.intersection(*live)
            else:
                s |= self.must_binds([st])
        return s

    def may_binds(self, body):
        """names that `body` may bind at this scope level (every branch, loop bodies, handlers)"""
        s = set(self.must_binds(body))
        for st in body:
            for fld in ("body", "orelse", "finalbody"):
                sub = getattr(st, fld, None)
                if isinstance(sub, list) and not isinstance(st, (ast.FunctionDef, ast.AsyncFunctionDef, ast.ClassDef)):
                    s |= self.may_binds([x for x in sub if isinstance(x, ast.stmt)])
            if isinstance(st, (ast.For, ast.AsyncFor)):
                s |= {n.id for n in ast.walk(st.target) if isinstance(n, ast.Name)}
            if isinstance(st, (ast.With, ast.AsyncWith)):
                for it in st.items:
                    if it.optional_vars is not None:
                        s |= {n.id for n in ast.walk(it.optional_vars) if isinstance(n, ast.Name)}
            for h in getattr(st, "handlers", []) or []:
                s |= self.may_binds(h.body)
            for c in getattr(st, "cases", []) or []:
                s |= self.may_binds(c.body)
        return s

    def assume(self, names, must, scope, out):
        """module level, after a statement whose branches are not decided statically: names bound on some path only
        are *assumed* bound (the fresh interpreter shows whether they are; a function that loads one that is not
        there is found by the bytecode oracle), names bound on every path are bound"""
        if scope.kind != "module":
            return
        for n in sorted(names):
            out.append(("bind", self.N(n)))
            self.may.add(n)
            if n not in must:
                self.assumed.add(n)
                self.tr.stats["assumed_conditional_bindings"] = self.tr.stats.get("assumed_conditional_bindings", 0) + 1

    def stmts(self, body, scope, out):
        for st in body:
            self.stmt(st, scope, out)
            if scope.kind == "function" and not scope.is_comp and scope.closure_reads:
                # the closure check: what the inner functions created by this statement read of this function's
                # locals must be bound once the statement is done (the earliest moment they can be called)
                out.extend(scope.closure_reads)
                del scope.closure_reads[:]

    def funcdef(self, st, scope, out):
        self.expr(st.decorator_list, scope, out)
        a = st.args
        self.expr(a.defaults, scope, out)
        self.expr([d for d in a.kw_defaults if d is not None], scope, out)
        if not self.future_annotations:
            for arg in a.posonlyargs + a.args + a.kwonlyargs + [x for x in (a.vararg, a.kwarg) if x]:
                self.expr(arg.annotation, scope, out)
            self.expr(st.returns, scope, out)
        else:
            for arg in a.posonlyargs + a.args + a.kwonlyargs + [x for x in (a.vararg, a.kwarg) if x]:
                self.unevaluated(arg.annotation)
            self.unevaluated(st.returns)
        self.seen.add(id(st))
        tab = scope.child(st.name, st.lineno)
        qual = scope.qual + st.name
        sub = _Scope("function", tab, qual + ".<locals>.", _implocals(tab), parent=scope)
        sub.aliases = self.alias_locals(st, tab)
        sub.fname = qual
        sub.exc_locals = self.exception_locals(st, sub)
        self.tr.stats["module_alias_locals"] = self.tr.stats.get("module_alias_locals", 0) + len(sub.aliases)
        evs = []
        self.bind_params(a, sub, evs)
        self.stmts(st.body, sub, evs)
        # the line CPython records for the code object (`co_firstlineno`): the first decorator, if there is one
        self.add_func(qual, min([st.lineno] + [d.lineno for d in st.decorator_list]), evs)
        self.bind_def(st.name, scope, out)

    def exception_locals(self, fnode, sub):
        """locals of the function that are bound by nothing but `v = X(...)` / `v = X` where `X` is a name or an
        attribute chain that is not rooted at a local: `raise v` then raises (an instance of) one of those `X`
        (`wrong_bins_error = LenaValueError(...)` ... `raise wrong_bins_error`)"""
        a = fnode.args
        params = {x.arg for x in a.posonlyargs + a.args + a.kwonlyargs} | {x.arg for x in (a.vararg, a.kwarg) if x}
        binds = {}
        for n in self.own_nodes(fnode.body):
            if isinstance(n, ast.Assign) and len(n.targets) == 1 and isinstance(n.targets[0], ast.Name):
                v = n.value.func if isinstance(n.value, ast.Call) else n.value
                binds.setdefault(n.targets[0].id, []).append(("cls", v) if self.chain_of(v) is not None else ("other",))
                binds[n.targets[0].id].append(("skip-store",))
            elif isinstance(n, ast.Name) and isinstance(n.ctx, (ast.Store, ast.Del)):
                binds.setdefault(n.id, []).append(("other",))
            elif isinstance(n, ast.ExceptHandler) and n.name:
                binds.setdefault(n.name, []).append(("other",))
            elif isinstance(n, (ast.Import, ast.ImportFrom)):
                for x in n.names:
                    binds.setdefault(x.asname or x.name.split(".")[0], []).append(("other",))
            elif isinstance(n, (ast.FunctionDef, ast.AsyncFunctionDef, ast.ClassDef)):
                binds.setdefault(n.name, []).append(("other",))
        out = {}
        for name, bs in binds.items():
            # every `v = X(...)` contributes one Store node of its own target: cancel them pairwise
            n_assign = sum(1 for b in bs if b[0] == "skip-store")
            others = sum(1 for b in bs if b[0] == "other") - n_assign
            if name in params or others > 0 or any(b[0] == "other" and False for b in bs):
                continue
            if any(b[0] not in ("cls", "skip-store", "other") for b in bs):
                continue
            cls_nodes = [b[1] for b in bs if b[0] == "cls"]
            if len(cls_nodes) != n_assign or not cls_nodes:
                continue
            refs = [self.class_expr(v, sub) for v in cls_nodes]
            refs = [r for r in refs if r != ("unknown",)]
            if refs:
                out[name] = refs
        return out

    def unevaluated(self, node):
        if node is not None:
            for n in ast.walk(node):
                self.uneval.add(id(n))

    def bind_def(self, name, scope, out):
        """the binding made by a `def` / `class` statement"""
        if scope.kind == "module":
            out.append(("bind", self.N(name)))
            self.may.add(name)
        elif self.declared_global(scope, name):
            out.append(("gbind", self.N(name)))
        elif self.tracked(scope, name):
            out.append(("bind", self.LN(scope, name)))

    def stmt(self, st, scope, out):
        N = self.N
        if isinstance(st, (ast.FunctionDef, ast.AsyncFunctionDef)):
            self.funcdef(st, scope, out)
        elif isinstance(st, ast.ClassDef):
            self.expr(st.decorator_list, scope, out)
            self.expr(st.bases, scope, out)
            self.expr([k.value for k in st.keywords], scope, out)
            tab = scope.child(st.name, st.lineno)
            sub = _Scope("class", tab, scope.qual + st.name + ".", parent=scope)
            self.classdefs.append({"qual": scope.qual + st.name, "name": st.name, "line": st.lineno,
                                   "bases": [self.class_expr(b, scope) for b in st.bases],
                                   "top": scope.kind == "module"})
            self.stmts(st.body, sub, out)
            self.bind_def(st.name, scope, out)
        elif isinstance(st, ast.Assign) and len(st.targets) == 1 and isinstance(st.targets[0], ast.Name) \
                and self.chain_of(st.value) is not None \
                and st.targets[0].id not in getattr(scope, "comp_locals", ()) \
                and (scope.kind == "module" or (scope.kind == "function" and st.targets[0].id in scope.aliases)) \
                and self.classify(scope, self.chain_of(st.value)[0]) in ("global", "implocal") \
                and st.targets[0].id != "__all__":
            # `x = name.a.b`: the chain is read and `x` is bound to what it denotes (a module stays a module)
            root, chain = self.chain_of(st.value)
            t = st.targets[0]
            node = st.value
            while isinstance(node, ast.Attribute):
                self.seen.add(id(node))
                node = node.value
            self.seen.add(id(node))
            self.seen.add(id(t))
            out.append(("alias", self.LN(scope, t.id), self.LN(scope, root), [N(a) for a in chain]))
            self.tr.stats["attr_chains" if chain else "loads"] += 1
            if scope.kind == "module":
                self.may.add(t.id)
        elif isinstance(st, ast.Assign):
            self.expr(st.value, scope, out)
            for t in st.targets:
                self.target(t, scope, out)
            if scope.kind == "module":
                for t in st.targets:
                    if isinstance(t, ast.Name) and t.id == "__all__":
                        self.set_all(st.value, replace=True)
        elif isinstance(st, ast.AugAssign):
            self.expr(st.value, scope, out)
            if isinstance(st.target, ast.Name):
                if self.classify(scope, st.target.id) in ("global", "implocal"):
                    out.append(("load", self.LN(scope, st.target.id)))
                if scope.kind == "module" and st.target.id == "__all__":
                    self.set_all(st.value, replace=False)
            self.target(st.target, scope, out)
        elif isinstance(st, ast.AnnAssign):
            if not self.future_annotations and scope.kind != "function":
                self.expr(st.annotation, scope, out)
            else:
                self.unevaluated(st.annotation)
            if st.value is None:
                self.unevaluated(st.target)
            if st.value is not None:
                self.expr(st.value, scope, out)
                self.target(st.target, scope, out)
        elif isinstance(st, ast.Delete):
            for t in st.targets:
                if isinstance(t, ast.Name):
                    self.seen.add(id(t))
                    if scope.kind == "module" or self.tracked(scope, t.id):
                        out.append(("unbind", self.LN(scope, t.id)))
                    elif self.declared_global(scope, t.id):
                        out.append(("gunbind", self.N(t.id)))       # `global n; del n` inside a function
                else:
                    self.expr(t, scope, out)
        elif isinstance(st, (ast.For, ast.AsyncFor)):
            self.expr(st.iter, scope, out)
            body = []
            self.target(st.target, scope, body)
            self.stmts(st.body, scope, body)
            if scope.kind != "function" and self.surely_iterates(st.iter) and not any(isinstance(n, (ast.Break, ast.Continue, ast.Return, ast.Raise))
                                                          for b in st.body for n in ast.walk(b)):
                out.extend(body)        # the body runs at least once, to its end: what it binds is bound
            else:
                self._emit_region(body, st.body, scope, out)
                self.assume(self.may_binds([st]), set(), scope, out)
            self.region(st.orelse, scope, out)
        elif isinstance(st, ast.While):
            self.expr(st.test, scope, out)
            self.region(st.body, scope, out)
            self.region(st.orelse, scope, out)
            self.assume(self.may_binds([st]), set(), scope, out)
        elif isinstance(st, ast.If):
            v = self.static_test(st.test)
            if v is not None:
                self.tr.stats["static_version_tests"] += 1
                dead = st.orelse if v else st.body
                self.dead(dead)
                self.tr.stats["statements_in_dead_version_branches"] += sum(1 for b in dead for _ in ast.walk(b)
                                                                            if isinstance(_, ast.stmt))
                # the test itself is executed
                self.expr(st.test, scope, out)
                self.stmts(st.body if v else st.orelse, scope, out)
            else:
                self.lazy_test = any(isinstance(n, (ast.Import, ast.ImportFrom))
                                     for b in st.body + st.orelse for n in ast.walk(b))
                self.expr(st.test, scope, out)
                self.lazy_test = False
                self.region(st.body, scope, out)
                self.region(st.orelse, scope, out)
                must = (self.must_binds(st.body) & self.must_binds(st.orelse)) if st.orelse else set()
                self.assume(self.may_binds([st]), must, scope, out)
                if scope.kind == "function" and not scope.is_comp and \
                        (scope.cells or scope.implocals or scope.aliases):
                    # followed locals: bound after the statement if every branch that goes on binds them
                    outs = [self.falls(b) for b in (st.body, st.orelse)]
                    live = [o for o in outs if o is not None]
                    if live:
                        for n in sorted(set.intersection(*live) & (scope.cells | scope.implocals | scope.aliases)):
                            out.append(("bind", self.LN(scope, n)))
        elif isinstance(st, (ast.With, ast.AsyncWith)):
            for it in st.items:
                self.expr(it.context_expr, scope, out)
                if it.optional_vars is not None:
                    self.target(it.optional_vars, scope, out)
            self.stmts(st.body, scope, out)
        elif isinstance(st, (ast.Try, getattr(ast, "TryStar", ast.Try))):
            self.try_(st, scope, out)
        elif isinstance(st, ast.Import):
            self.seen.add(id(st))
            for a in st.names:
                self.import_(a, st, scope, out)
        elif isinstance(st, ast.ImportFrom):
            self.seen.add(id(st))
            self.import_from(st, scope, out)
        elif isinstance(st, (ast.Global, ast.Nonlocal, ast.Pass, ast.Break, ast.Continue)):
            pass
        elif isinstance(st, ast.Match):
            self.expr(st.subject, scope, out)
            for c in st.cases:
                sub = []
                for pn in ast.walk(c.pattern):      # value patterns and class patterns evaluate expressions
                    if isinstance(pn, ast.MatchValue):
                        self.expr(pn.value, scope, sub)
                    elif isinstance(pn, ast.MatchClass):
                        self.expr(pn.cls, scope, sub)
                self.expr(c.guard, scope, sub)
                self.stmts(c.body, scope, sub)
                self._emit_region(sub, c.body, scope, out)
            self.assume(self.may_binds([st]), set(), scope, out)
        else:   # Expr, Return, Raise, Assert, ...
            if isinstance(st, ast.Raise) and st.exc is not None:
                exc = st.exc.func if isinstance(st.exc, ast.Call) else st.exc
                rd = scope.reader() if scope.kind == "function" else None
                fname = rd.fname if rd is not None else None
                whats = [self.class_expr(exc, scope)]
                if whats == [("unknown",)] and isinstance(exc, ast.Name) and rd is not None \
                        and exc.id not in getattr(scope, "comp_locals", ()):
                    # `raise v` where the local `v` is bound only by `v = X(...)`: raises X
                    whats = getattr(rd, "exc_locals", {}).get(exc.id) or whats
                    if whats != [("unknown",)]:
                        self.tr.stats["raises_through_a_local"] = self.tr.stats.get("raises_through_a_local", 0) + 1
                for what in whats:
                    self.raise_sites.append({"fn": fname or "<module>", "line": st.lineno, "what": what,
                                             "protocol": bool(fname) and fname.rsplit(".", 1)[-1] in PROTOCOL_METHODS})
            for child in ast.iter_child_nodes(st):
                self.expr(child, scope, out)

    def _emit_region(self, evs, body, scope, out, force=False):
        if not evs:
            return
        if force or self.needs_region(scope, body):
            out.append(("enter",))
            out.extend(evs)
            out.append(("leave",))
        else:
            out.extend(evs)

    @staticmethod
    def own_nodes(body):
        """the nodes of a block that belong to the enclosing code itself (not to inner defs, lambdas, classes)"""
        stack = list(body)
        while stack:
            n = stack.pop()
            yield n
            for ch in ast.iter_child_nodes(n):
                if not isinstance(ch, (ast.FunctionDef, ast.AsyncFunctionDef, ast.Lambda, ast.ClassDef)):
                    stack.append(ch)

    @classmethod
    def handler_mask(cls, h):
        """which of the failures the resolver knows the handler catches (bare `except`: all).  A handler that
        contains a `raise` does not make a NameError / AttributeError harmless: the code still fails because of the
        undefined name (bits 1 and 2 are dropped).  Bit 3 (catches nothing): the handler imports something -- the
        lazy-import idiom, not an import-order dependence."""
        if h.type is None:
            m = 7
        else:
            m = 0
            for n in ast.walk(h.type):
                if isinstance(n, ast.Name):
                    m |= HANDLER_MASK.get(n.id, 0)
                elif isinstance(n, ast.Attribute):
                    m |= HANDLER_MASK.get(n.attr, 0)
        if m & 6 and any(isinstance(n, ast.Raise) for n in cls.own_nodes(h.body)):
            m &= ~6
        if m and any(isinstance(n, (ast.Import, ast.ImportFrom)) for n in cls.own_nodes(h.body)):
            m |= 8
        return m

    def try_(self, st, scope, out):
        """`try` statements.  A handler that catches one of the failures the resolver knows (ImportError, NameError,
        AttributeError; `except Exception`, bare `except`) is translated with its structure: the resolver runs it
        exactly when the body raises such a failure -- `try: unicode / except NameError:` is not a failure.
        Several such handlers nest (the first one innermost).  Other handlers (`except LenaKeyError:`) are regions.
        Inside a function the handlers are, in addition, always checked as regions (all paths at once)."""
        catching = [(h, self.handler_mask(h)) for h in st.handlers]
        catching = [(h, m) for h, m in catching if m]
        if catching:
            self.tr.stats["try_except_catching"] += 1
            for _ in catching:
                out.append(("tryBegin",))
            self.stmts(st.body, scope, out)
            orelse = []
            self.stmts(st.orelse, scope, orelse)
            again = []
            for h, m in catching:
                out.append(("tryExcept", m))
                evs = self.handler_events(h, scope)
                out.extend(evs)
                if orelse and len(catching) == 1:
                    # the `else:` part runs when the body ran to its end, and is not guarded by the handler
                    out.append(("tryElse",))
                    out.extend(orelse)
                out.append(("tryEnd",))
                again.append((evs, h))
            if orelse and len(catching) > 1:
                # several catching handlers nest, which has no place for an `else:` part: it is checked unguarded,
                # as a region (what it binds is not assumed afterwards)
                self._emit_region(orelse, st.orelse, scope, out, force=True)
                self.assume(self.may_binds(st.orelse), set(), scope, out)
            if scope.kind == "function":
                for evs, h in again:
                    self._emit_region(list(evs), h.body, scope, out, force=True)
            for h in st.handlers:
                if not self.handler_mask(h):
                    self.handler(h, scope, out, inline=False)
        else:
            self.stmts(st.body, scope, out)
            for h in st.handlers:
                self.handler(h, scope, out, inline=False)
            self.stmts(st.orelse, scope, out)
        self.stmts(st.finalbody, scope, out)

    def handler(self, h, scope, out, inline):
        evs = self.handler_events(h, scope)
        if inline:
            out.extend(evs)
        else:
            self._emit_region(evs, h.body, scope, out)

    def handler_events(self, h, scope):
        evs = []
        self.expr(h.type, scope, evs)
        track = h.name and (scope.kind == "module" or self.tracked(scope, h.name))
        if track:
            evs.append(("bind", self.LN(scope, h.name)))
        self.stmts(h.body, scope, evs)
        if track:
            evs.append(("unbind", self.LN(scope, h.name)))
        return evs

    def bind_name(self, name, scope, out, mod=None):
        """binding made by an import statement"""
        if scope.kind == "module":
            self.may.add(name)
        elif scope.kind == "class":
            return
        else:
            try:
                s = scope.table.lookup(name)
                if s.is_declared_global():
                    out.append(("gbind", self.N(name)))
                    return
            except KeyError:
                pass
        out.append(("bindMod", self.LN(scope, name), mod) if mod is not None else ("bind", self.LN(scope, name)))

    def ensure_chain(self, dotted, out):
        """ensure events for lena, lena.a, lena.a.b; returns the module id of `dotted` or None if it does not exist"""
        parts = dotted.split(".")
        for i in range(1, len(parts) + 1):
            pre = ".".join(parts[:i])
            mid = self.tr.modid.get(pre)
            if mid is None:
                out.append(("nomodule", self.N(pre)))
                return None
            out.append(("ensure", mid))
        return self.tr.modid[dotted]

    def import_(self, a, st, scope, out):
        self.tr.stats["imports"] += 1
        if self.tr.is_lena(a.name):
            mid = self.ensure_chain(a.name, out)
            if mid is None:
                return
            if a.asname:
                self.bind_name(a.asname, scope, out, mod=mid)
            else:
                self.bind_name("lena", scope, out, mod=self.tr.modid["lena"])
        else:
            self.ext_import(a.name, scope, out)
            self.bind_name(a.asname or a.name.split(".")[0], scope, out)

    def ext_import(self, dotted, scope, out):
        """import of a module outside lena in import-time code: third-party modules may be absent"""
        top = dotted.split(".")[0]
        if scope.kind != "function" and top not in STDLIB:
            out.append(("ext", self.tr.ext_id(top)))

    def import_from(self, st, scope, out):
        self.tr.stats["imports"] += 1
        if st.level:
            base = self.package.split(".")
            if st.level > 1:
                base = base[:-(st.level - 1)]
            dotted = ".".join(base + ([st.module] if st.module else []))
        else:
            dotted = st.module
        if dotted == "__future__":
            for a in st.names:
                if a.name == "annotations":
                    self.future_annotations = True
                self.bind_name(a.asname or a.name, scope, out)
            return
        if not self.tr.is_lena(dotted):
            self.ext_import(dotted, scope, out)
            for a in st.names:
                if a.name == "*":
                    self.note("dynamic_external_star_import", st, dotted)
                else:
                    self.bind_name(a.asname or a.name, scope, out)
            return
        mid = self.ensure_chain(dotted, out)
        if mid is None:
            return
        for a in st.names:
            if a.name == "*":
                if scope.kind != "module":
                    self.note("dynamic_star_import_in_function", st, dotted)
                out.append(("star", mid))
                self.may.add("*" + dotted)
            else:
                asn = a.asname or a.name
                if scope.kind == "module":
                    self.may.add(asn)
                if scope.kind == "class":
                    continue
                out.append(("from", mid, self.N(a.name), self.LN(scope, asn)))

    def static_table(self, tree):
        """what the module-level names of this module denote, as far as the source says: a class of the module, a
        module, a name imported from a module, or another name (for the resolution of base classes and of the
        classes named by `raise`)"""
        tab = {}

        def visit(body):
            for st in body:
                if isinstance(st, ast.ClassDef):
                    tab[st.name] = ("class", self.modname, st.name)
                elif isinstance(st, (ast.FunctionDef, ast.AsyncFunctionDef)):
                    tab[st.name] = ("other",)
                elif isinstance(st, ast.Import):
                    for a in st.names:
                        if a.asname:
                            tab[a.asname] = ("mod", a.name)
                        else:
                            tab[a.name.split(".")[0]] = ("mod", a.name.split(".")[0])
                elif isinstance(st, ast.ImportFrom):
                    if st.level:
                        base = self.package.split(".")
                        if st.level > 1:
                            base = base[:-(st.level - 1)]
                        dotted = ".".join(base + ([st.module] if st.module else []))
                    else:
                        dotted = st.module
                    for a in st.names:
                        if a.name != "*":
                            tab[a.asname or a.name] = ("from", dotted, a.name)
                elif isinstance(st, ast.Assign):
                    for t in st.targets:
                        if isinstance(t, ast.Name):
                            c = self.chain_of(st.value)
                            tab[t.id] = ("alias", c[0], c[1]) if c else ("other",)
                elif isinstance(st, (ast.If, ast.Try, ast.With, ast.For, ast.While)):
                    for fld in ("body", "orelse", "finalbody"):
                        visit(getattr(st, fld, []) or [])
                    for h in getattr(st, "handlers", []) or []:
                        visit(h.body)
        visit(tree.body)
        return tab

    def load_fast_checks(self, src):
        """(qualified function name, variable) for every read of a local that CPython's compiler cannot prove bound"""
        import dis
        import types
        out = []
        with warnings.catch_warnings():
            warnings.simplefilter("ignore")
            top = compile(src, str(self.path), "exec", dont_inherit=True)

        def walk(code):
            for ins in dis.get_instructions(code):
                if ins.opname == "LOAD_FAST_CHECK":
                    q = code.co_qualname
                    for suffix in (".<locals>.<genexpr>", ".<locals>.<listcomp>", ".<locals>.<setcomp>",
                                   ".<locals>.<dictcomp>"):
                        while q.endswith(suffix):
                            q = q[: -len(suffix)]
                    if (q, ins.argval) not in out:
                        out.append((q, ins.argval))
            for c in code.co_consts:
                if isinstance(c, types.CodeType):
                    walk(c)
        walk(top)
        return out

    def set_all(self, value, replace):
        try:
            v = ast.literal_eval(value)
            if not (isinstance(v, (list, tuple)) and all(isinstance(x, str) for x in v)):
                raise ValueError
        except Exception:
            self.all_dynamic = True
            self.all = None
            return
        if self.all_dynamic:
            return
        self.all = list(v) if replace or self.all is None else self.all + list(v)

    # ---- entry ----------------------------------------------------------------------------------------------
    def translate(self):
        src = self.path.read_text()
        try:
            with warnings.catch_warnings():
                warnings.simplefilter("ignore")
                tree = ast.parse(src, filename=str(self.path))
                tab = symtable.symtable(src, str(self.path), "exec")
        except (SyntaxError, ValueError) as e:
            # a module that does not compile cannot be imported: the resolver reports it when it is imported
            self.note("module_does_not_compile", None, str(e)[:100])
            return [("nomodule", self.N(self.modname))]
        scope = _Scope("module", tab, "")
        evs = []
        for n in IMPLICIT + (["__path__"] if self.is_pkg else []):
            evs.append(("bind", self.N(n)))
        self.stmts(tree.body, scope, evs)
        kinds = {"names": ast.Name, "attributes": ast.Attribute, "imports": (ast.Import, ast.ImportFrom),
                 "functions": (ast.FunctionDef, ast.AsyncFunctionDef, ast.Lambda)}
        cov = {k: {"source": 0, "translated": 0, "dead_version_branch": 0, "unevaluated_annotation": 0, "missed": []}
               for k in kinds}
        for node in ast.walk(tree):
            for k, cls in kinds.items():
                if isinstance(node, cls):
                    c = cov[k]
                    c["source"] += 1
                    if id(node) in self.deadset:
                        c["dead_version_branch"] += 1
                    elif id(node) in self.uneval:
                        c["unevaluated_annotation"] += 1
                    elif id(node) in self.seen:
                        c["translated"] += 1
                    else:
                        c["missed"].append(f"{self.modname}:{getattr(node, 'lineno', 0)}:{ast.unparse(node)[:40]}")
        self.coverage = cov
        self.table = self.static_table(tree)
        self.maybe_unbound = self.load_fast_checks(src)
        # loads of locals that are certainly unbound where they are read (after `except .. as`, `del`, before any binding)
        self.dead_loads = dead_local_loads(tree, self.static_test)
        for node in ast.walk(tree):
            if isinstance(node, ast.Call) and isinstance(node.func, ast.Attribute) \
                    and isinstance(node.func.value, ast.Name) and node.func.value.id == "__all__":
                self.all_dynamic = True         # __all__.extend(...) / .append(...): computed
                self.all = None
        for node in ast.walk(tree):
            if isinstance(node, ast.Call) and isinstance(node.func, ast.Name) and node.func.id in ("vars", "locals") \
                    and not node.args:
                self.note("dynamic_namespace_access", node, node.func.id + "()")
            if isinstance(node, ast.Call) and isinstance(node.func, ast.Name) and node.func.id in ("exec", "eval", "__import__"):
                self.note("dynamic_code", node, node.func.id)
        return evs


class Translator:
    def __init__(self, repo):
        self.repo = Path(repo)
        self.intern = Interner()
        self.stats = {k: 0 for k in ("loads", "attr_chains", "functions", "imports", "static_version_tests",
                                     "statements_in_dead_version_branches", "try_except_catching")}
        self.notes = []
        self.modid = {}
        self.modules = []
        self.ext = []          # third-party (and Python-2 only) modules imported by import-time code
        self.mts = {}

    def resolve_class(self, modname, ref, depth=0):
        """("cls", index) | ("builtin", name) | ("unknown",) for a class expression as written in module `modname`"""
        if ref[0] != "chain" or depth > 12:
            return ("unknown",)
        _, root, chain = ref
        tab = self.mts[modname].table if modname in self.mts else {}
        ent = tab.get(root)
        if ent is None:
            if not chain and hasattr(builtins, root):
                return ("builtin", root)
            return ("unknown",)
        if ent[0] == "class":
            return ("cls", self.class_index[(ent[1], ent[2])]) if not chain and (ent[1], ent[2]) in self.class_index \
                else ("unknown",)
        if ent[0] == "alias":
            return self.resolve_class(modname, ("chain", ent[1], list(ent[2]) + list(chain)), depth + 1)
        if ent[0] == "from":
            return self.resolve_attr(ent[1], [ent[2]] + list(chain), depth + 1)
        if ent[0] == "mod":
            return self.resolve_attr(ent[1], list(chain), depth + 1)
        return ("unknown",)

    def resolve_attr(self, dotted, chain, depth):
        """the class `dotted.a.b` where `dotted` is a module"""
        if depth > 12 or not chain:
            return ("unknown",)
        if dotted == "builtins" and len(chain) == 1 and hasattr(builtins, chain[0]):
            return ("builtin", chain[0])
        if dotted not in self.mts:
            return ("unknown",)
        a, rest = chain[0], chain[1:]
        if a in self.mts[dotted].table:
            return self.resolve_class(dotted, ("chain", a, rest), depth + 1)
        if f"{dotted}.{a}" in self.mts:
            return self.resolve_attr(f"{dotted}.{a}", rest, depth + 1)
        return ("unknown",)

    def class_facts(self, modnames):
        """every `class` statement with its bases, every `raise` that names a class, every possibly-unbound local
        read -- resolved against the whole tree"""
        self.class_index = {}
        rows = []
        for m in modnames:
            for c in self.mts[m].classdefs:
                if c["top"]:
                    self.class_index[(m, c["name"])] = len(rows)
                rows.append((m, c))

        def enc(r):
            return {"kind": r[0], "value": r[1] if len(r) > 1 else None}
        classes = []
        for m, c in rows:
            classes.append({"mod": m, "name": c["qual"], "line": c["line"],
                            "bases": [enc(self.resolve_class(m, b)) for b in c["bases"]],
                            "is_lena_exc": c["top"] and m == "lena.core.exceptions"})
        raises = []
        for m in modnames:
            for r in self.mts[m].raise_sites:
                raises.append({"mod": m, "fn": r["fn"], "line": r["line"], "what": enc(self.resolve_class(m, r["what"])),
                               "protocol": r["protocol"]})
        maybe = []
        for m in modnames:
            per_fn = {}
            for q, var in self.mts[m].maybe_unbound:
                per_fn.setdefault(q, []).append(var)
            for q, var in self.mts[m].maybe_unbound:
                known = [k for k in AUDITED_MAYBE_UNBOUND if k[0] == m and k[1] == q]
                # by name; or, when the locals have been renamed, by count (as many possibly-unbound locals in the
                # function as audited ones, in the same order)
                reason = AUDITED_MAYBE_UNBOUND.get((m, q, var))
                if reason is None and known and len(known) == len(per_fn[q]) \
                        and not any((m, q, v) in AUDITED_MAYBE_UNBOUND for v in per_fn[q]):
                    reason = AUDITED_MAYBE_UNBOUND[known[per_fn[q].index(var)]] + " (matched by position: renamed)"
                maybe.append({"mod": m, "fn": q, "var": var, "audited": reason is not None, "reason": reason})
        self.dead = [{"mod": m, "fn": q, "var": var, "line": line, "cause": cause}
                     for m in modnames for q, var, line, cause in getattr(self.mts[m], "dead_loads", [])]
        return classes, raises, maybe

    def ext_id(self, top):
        if top not in self.ext:
            self.ext.append(top)
        return self.ext.index(top)

    def is_lena(self, dotted):
        return dotted == "lena" or dotted.startswith("lena.")

    def discover(self):
        root = self.repo / "lena"
        found = {}
        for p in sorted(root.rglob("*.py")):
            rel = p.relative_to(self.repo).with_suffix("")
            parts = list(rel.parts)
            # every directory on the way must be a package
            ok = all((self.repo.joinpath(*parts[:i]) / "__init__.py").exists() for i in range(1, len(parts)))
            if not ok:
                continue
            if parts[-1] == "__init__":
                found[".".join(parts[:-1])] = (True, p)
            else:
                found[".".join(parts)] = (False, p)
        return dict(sorted(found.items()))

    def run(self):
        for b in sorted(dir(builtins)):
            self.intern(b)
        n_builtins = len(self.intern.names)
        found = self.discover()
        names = list(found)
        subpkgs = [m for m in names if found[m][0] and m.count(".") == 1]
        mains = [f"__main__[{m}]" for m in subpkgs] + ["__main__[all]"]
        for i, m in enumerate(names + mains):
            self.modid[m] = i
        hasher = hashlib.sha256()
        mods = []
        for m in names:
            is_pkg, path = found[m]
            hasher.update(m.encode() + b"\0" + path.read_bytes() + b"\0")
            mt = ModuleTranslator(self, m, is_pkg, path)
            evs = mt.translate()
            parent = m.rpartition(".")[0]
            self.mts[m] = mt
            mods.append({"name": m, "is_pkg": is_pkg, "parent": self.modid.get(parent) if parent else None,
                         "short": m.rpartition(".")[2], "all": mt.all, "all_dynamic": mt.all_dynamic,
                         "evs": evs, "funcs": mt.funcs, "main": False, "may": sorted(mt.may), "assumed": sorted(mt.assumed),
                         "coverage": mt.coverage,
                         "path": str(path.relative_to(self.repo))})
        classes, raises, maybe = self.class_facts(names)
        lena_id = self.modid["lena"]
        for m in subpkgs:
            mid = self.modid[m]
            # `import lena.X`, then `from lena.X import *` in a region: it must work, but what it may load does not
            # count as imported by `import lena.X` (the state the calls start from is the one after the plain import)
            evs = [("ensure", lena_id), ("ensure", mid), ("bindMod", self.intern("lena"), lena_id),
                   ("enter",), ("star", mid), ("leave",)]
            mods.append({"name": f"__main__[{m}]", "is_pkg": False, "parent": None, "short": f"__main__[{m}]",
                         "all": None, "all_dynamic": False, "evs": evs, "funcs": [], "main": True, "may": [], "assumed": [],
                         "entry_pkg": mid, "path": None})
        evs = [("ensure", lena_id)]
        for m in subpkgs:
            evs += [("ensure", self.modid[m])]
        evs.append(("bindMod", self.intern("lena"), lena_id))
        evs.append(("enter",))
        for m in subpkgs:
            evs.append(("star", self.modid[m]))
        evs.append(("leave",))
        mods.append({"name": "__main__[all]", "is_pkg": False, "parent": None, "short": "__main__[all]", "all": None,
                     "all_dynamic": False, "evs": evs, "funcs": [], "main": True, "may": [], "assumed": [],
                     "entry_pkg": None, "path": None})
        for md in mods:
            md["name_id"] = self.intern(md["name"])
            md["short_id"] = self.intern(md["short"])
            md["all_ids"] = None if md["all"] is None else [self.intern(a) for a in md["all"]]
            for f in md["funcs"]:
                f["name_id"] = self.intern(f["name"])
        entries = [self.modid[x] for x in mains]
        self.renumber(mods, n_builtins)

        def ref_ids(r):
            if r["kind"] == "cls":
                return ["cls", r["value"]]
            if r["kind"] == "builtin":
                return ["builtin", self.intern(r["value"])]
            return ["unknown"]
        for c in classes:
            c["mod_id"], c["name_id"] = self.modid[c["mod"]], self.intern(c["name"])
            c["base_ids"] = [ref_ids(b) for b in c["bases"]]
        for r in raises:
            r["mod_id"], r["fn_id"], r["what_ids"] = self.modid[r["mod"]], self.intern(r["fn"]), ref_ids(r["what"])
        for u in maybe:
            u["mod_id"], u["fn_id"], u["var_id"] = self.modid[u["mod"]], self.intern(u["fn"]), self.intern(u["var"])
        for u in self.dead:
            u["mod_id"], u["fn_id"], u["var_id"] = self.modid[u["mod"]], self.intern(u["fn"]), self.intern(u["var"])
        priv = [i for i, s in enumerate(self.intern.names) if s.startswith("_")]
        # the environments: which third-party modules of import-time code cannot be imported
        always = sum(1 << i for i, x in enumerate(self.ext) if x in PY2_ONLY)
        opt = [i for i, x in enumerate(self.ext) if x not in PY2_ONLY]
        venv_env = always | sum(1 << i for i in opt if not _ext_available(self.ext[i]))
        if len(opt) <= 3:
            subsets = [sum(1 << opt[k] for k in range(len(opt)) if (b >> k) & 1) for b in range(1 << len(opt))]
        else:
            subsets = [0] + [1 << i for i in opt] + [sum(1 << i for i in opt)]
        envs = []
        for e in [venv_env] + [always | b for b in subsets]:
            if e not in envs:
                envs.append(e)
        return {"repo": str(self.repo), "source_hash": hasher.hexdigest(), "names": self.intern.names,
                "n_bindable": self.n_bindable, "ext": list(self.ext), "envs": envs, "venv_env": venv_env,
                "slot_bits": (len(mods) + 2).bit_length(), "classes": classes, "raises": raises,
                "maybe_unbound": maybe, "dead_loads": self.dead,
                "exc_root": next((i for i, c in enumerate(classes) if c["is_lena_exc"] and c["name"] == "LenaException"),
                                 None),
                "always_absent": [x for x in self.ext if x in PY2_ONLY],
                "n_builtins": n_builtins, "modules": mods, "entries": entries, "private": priv,
                "subpackages": subpkgs, "stats": self.stats, "notes": self.notes,
                "python": sys.version.split()[0]}


def _bindable(mods):
    """identifiers that can ever be bound in a namespace (module globals, import-bound locals, submodule attributes)"""
    out = set()
    for m in mods:
        out.add(m["short_id"])
        out.update(m["all_ids"] or [])
        for evs in [m["evs"]] + [f["evs"] for f in m["funcs"]]:
            for e in evs:
                if e[0] in ("bind", "bindMod", "unbind", "gbind", "gunbind", "alias"):
                    out.add(e[1])
                elif e[0] == "from":
                    out.add(e[2])
                    out.add(e[3])
    return out


def _renumber(self, mods, n_builtins):
    """builtins keep their numbers; then the bindable identifiers; then the rest (names that are only read, display
    names).  The rows of the resolver's namespace array only need the first two groups."""
    old_names = self.intern.names
    bindable = _bindable(mods)
    order = list(range(n_builtins)) + sorted(i for i in bindable if i >= n_builtins) + \
        [i for i in range(n_builtins, len(old_names)) if i not in bindable]
    new_of = {o: k for k, o in enumerate(order)}
    self.n_bindable = n_builtins + sum(1 for i in bindable if i >= n_builtins)

    def ev(e):
        k = e[0]
        if k in ("bind", "unbind", "load", "nomodule", "gbind", "gunbind"):
            return (k, new_of[e[1]])
        if k == "bindMod":
            return (k, new_of[e[1]], e[2])
        if k == "attr":
            return (k, new_of[e[1]], [new_of[a] for a in e[2]])
        if k == "alias":
            return (k, new_of[e[1]], new_of[e[2]], [new_of[a] for a in e[3]])
        if k == "from":
            return (k, e[1], new_of[e[2]], new_of[e[3]])
        return e

    for m in mods:
        m["name_id"], m["short_id"] = new_of[m["name_id"]], new_of[m["short_id"]]
        m["all_ids"] = None if m["all_ids"] is None else [new_of[a] for a in m["all_ids"]]
        m["evs"] = [ev(e) for e in m["evs"]]
        for f in m["funcs"]:
            f["name_id"] = new_of[f["name_id"]]
            f["evs"] = [ev(e) for e in f["evs"]]
    self.intern.names = [old_names[o] for o in order]
    self.intern.ids = {s: i for i, s in enumerate(self.intern.names)}


Translator.renumber = _renumber


# ------------------------------------------------------------------------------------------------------------
# Locals that are CERTAINLY unbound where they are read (UnboundLocalError, a NameError)

class DeadLoads:
    """Definite-UNassignment analysis of one function (its own scope only).

    State of a local: U (unbound on every path that reaches this point), B (bound on every path), M (anything
    else).  Entry: parameters B, every other local U.  A binding (assignment, for / with / import / def / class /
    walrus target) gives B; `del x` gives U; the end of `except E as x:` -- normal, by an exception, by break /
    continue -- gives U (Python 3 deletes the name there).  Joins keep U only when all the joined paths say U.
    Exceptional paths (a handler's entry, a `finally:`, what a `with` statement swallows) see M for every name
    that the protected statements bind or delete.  Unreachable code (after return / raise / break / continue) has
    no state and is not looked at.  Left out: names a nested function declares `nonlocal`, class bodies, lambda
    bodies, generator-expression bodies (run later), comprehension variables.

    A load (or `del`) of a local in state U fails whenever it is reached: that is the only thing reported --
    a conditionally bound local (M) never is.  cause: 0 the name was unbound by `except ... as`, 1 by `del`,
    2 nothing has bound it yet."""
    U, B, M = 0, 1, 2

    def __init__(self, fnode, static_test=None):
        self.fn = fnode
        self.static_test = static_test or (lambda t: None)
        self.comp_targets = set()
        own = list(self.own(fnode.body))
        for n in own:
            if isinstance(n, (ast.ListComp, ast.SetComp, ast.DictComp, ast.GeneratorExp)):
                for g in n.generators:
                    for t in ast.walk(g.target):
                        if isinstance(t, ast.Name):
                            self.comp_targets.add(id(t))
        a = fnode.args
        self.params = [x.arg for x in a.posonlyargs + a.args + a.kwonlyargs] + \
            [x.arg for x in (a.vararg, a.kwarg) if x is not None]
        excluded = set()
        for n in own:
            if isinstance(n, (ast.Global, ast.Nonlocal)):
                excluded.update(n.names)
        for n in ast.walk(fnode):
            if isinstance(n, ast.Nonlocal):
                excluded.update(n.names)
        hard, soft = self.touched(fnode.body)
        self.locals = (set(self.params) | hard | soft) - excluded
        self.flags = {}        # id(Name node) -> (node, state at the last visit)
        self.killed_by = {}    # name -> 0 / 1 (the last certain unbinding)
        self.loops = []

    # -- scope ------------------------------------------------------------------------------------------------
    @staticmethod
    def own(body):
        """the nodes of these statements that belong to the function's own scope (evaluated when it runs)"""
        stack = list(body)
        while stack:
            n = stack.pop()
            yield n
            if isinstance(n, (ast.FunctionDef, ast.AsyncFunctionDef, ast.Lambda)):
                a = n.args
                stack.extend(getattr(n, "decorator_list", []))
                stack.extend(a.defaults)
                stack.extend(d for d in a.kw_defaults if d is not None)
            elif isinstance(n, ast.ClassDef):
                stack.extend(n.decorator_list)
                stack.extend(n.bases)
                stack.extend(k.value for k in n.keywords)
            else:
                stack.extend(ast.iter_child_nodes(n))

    def touched(self, body):
        """(names bound or deleted by these statements, names bound by `except ... as` only)"""
        hard, soft = set(), set()
        for n in self.own(body):
            if isinstance(n, ast.Name) and isinstance(n.ctx, (ast.Store, ast.Del)) and id(n) not in self.comp_targets:
                hard.add(n.id)
            elif isinstance(n, (ast.FunctionDef, ast.AsyncFunctionDef, ast.ClassDef)):
                hard.add(n.name)
            elif isinstance(n, (ast.Import, ast.ImportFrom)):
                for al in n.names:
                    hard.add(al.asname or al.name.split(".")[0])
            elif isinstance(n, ast.ExceptHandler) and n.name:
                soft.add(n.name)
            elif isinstance(n, (ast.MatchAs, ast.MatchStar)) and n.name:
                hard.add(n.name)
            elif isinstance(n, ast.MatchMapping) and n.rest:
                hard.add(n.rest)
        return hard, soft - hard

    def exc_state(self, s, body):
        """what an exception raised somewhere in `body` (entered in state s) can leave behind"""
        if s is None:
            return None
        hard, soft = self.touched(body)
        out = dict(s)
        for v in hard:
            if v in out:
                out[v] = self.M
        for v in soft:
            if v in out and out[v] != self.U:
                out[v] = self.M
        return out

    def join(self, *states):
        acc = None
        for s in states:
            if s is None:
                continue
            acc = dict(s) if acc is None else {v: (acc[v] if acc[v] == s[v] else self.M) for v in acc}
        return acc

    # -- expressions (evaluation order; mutate s) ------------------------------------------------------------
    def ex(self, n, s, shadow=frozenset()):
        if n is None or s is None:
            return
        if isinstance(n, ast.Name):
            if n.id in self.locals and n.id not in shadow:
                if isinstance(n.ctx, ast.Load):
                    self.flags[id(n)] = (n, s[n.id])
                elif isinstance(n.ctx, ast.Store):
                    s[n.id] = self.B
                else:
                    self.flags[id(n)] = (n, s[n.id])
                    s[n.id] = self.U
                    self.killed_by[n.id] = 1
            return
        if isinstance(n, ast.NamedExpr):
            self.ex(n.value, s, shadow)
            if n.target.id in self.locals:
                s[n.target.id] = self.B
            return
        if isinstance(n, ast.BoolOp):
            self.ex(n.values[0], s, shadow)
            acc = dict(s)
            for v in n.values[1:]:
                self.ex(v, s, shadow)
                acc = self.join(acc, s)
            s.update(acc)
            return
        if isinstance(n, ast.IfExp):
            self.ex(n.test, s, shadow)
            a, b = dict(s), dict(s)
            self.ex(n.body, a, shadow)
            self.ex(n.orelse, b, shadow)
            s.update(self.join(a, b))
            return
        if isinstance(n, (ast.ListComp, ast.SetComp, ast.DictComp, ast.GeneratorExp)):
            gens = n.generators
            self.ex(gens[0].iter, s, shadow)
            inner = set(shadow)
            for g in gens:
                inner.update(t.id for t in ast.walk(g.target) if isinstance(t, ast.Name))
            walrus = {w.target.id for w in ast.walk(n) if isinstance(w, ast.NamedExpr)} & self.locals
            for w in walrus:
                s[w] = self.M
            if not isinstance(n, ast.GeneratorExp):
                s2, inner = dict(s), frozenset(inner)
                for k, g in enumerate(gens):
                    if k:
                        self.ex(g.iter, s2, inner)
                    for c in g.ifs:
                        self.ex(c, s2, inner)
                for part in ([n.key, n.value] if isinstance(n, ast.DictComp) else [n.elt]):
                    self.ex(part, s2, inner)
                for w in walrus:
                    s[w] = self.M
            return
        if isinstance(n, ast.Lambda):
            for d in n.args.defaults + [d for d in n.args.kw_defaults if d is not None]:
                self.ex(d, s, shadow)
            return
        if isinstance(n, ast.Dict):
            for k, v in zip(n.keys, n.values):
                self.ex(k, s, shadow)
                self.ex(v, s, shadow)
            return
        for c in ast.iter_child_nodes(n):
            self.ex(c, s, shadow)

    # -- statements (return the state after, None: not reached) ---------------------------------------------
    def block(self, body, s):
        for st in body:
            if s is None:
                return None
            s = self.stmt(st, s)
        return s

    def bind(self, name, s):
        if name in self.locals:
            s[name] = self.B

    def stmt(self, st, s):
        if isinstance(st, ast.Expr):
            self.ex(st.value, s)
            return s
        if isinstance(st, ast.Assign):
            self.ex(st.value, s)
            for t in st.targets:
                self.ex(t, s)
            return s
        if isinstance(st, ast.AugAssign):
            if isinstance(st.target, ast.Name):
                if st.target.id in self.locals:
                    self.flags[id(st.target)] = (st.target, s[st.target.id])
                self.ex(st.value, s)
                self.bind(st.target.id, s)
            else:
                self.ex(st.target, s)
                self.ex(st.value, s)
            return s
        if isinstance(st, ast.AnnAssign):
            if st.value is not None:
                self.ex(st.value, s)
                self.ex(st.target, s)
            return s
        if isinstance(st, ast.Delete):
            for t in st.targets:
                self.ex(t, s)
            return s
        if isinstance(st, ast.Return):
            self.ex(st.value, s)
            return None
        if isinstance(st, ast.Raise):
            self.ex(st.exc, s)
            self.ex(st.cause, s)
            return None
        if isinstance(st, (ast.Pass, ast.Global, ast.Nonlocal)):
            return s
        if isinstance(st, ast.Assert):
            self.ex(st.test, s)
            t = dict(s)
            self.ex(st.msg, t)
            return s
        if isinstance(st, (ast.Break, ast.Continue)):
            if self.loops:
                self.loops[-1]["breaks" if isinstance(st, ast.Break) else "conts"].append(dict(s))
            return None
        if isinstance(st, (ast.Import, ast.ImportFrom)):
            for al in st.names:
                self.bind(al.asname or al.name.split(".")[0], s)
            return s
        if isinstance(st, (ast.FunctionDef, ast.AsyncFunctionDef)):
            for d in st.decorator_list + st.args.defaults + [d for d in st.args.kw_defaults if d is not None]:
                self.ex(d, s)
            self.bind(st.name, s)
            return s
        if isinstance(st, ast.ClassDef):
            for d in st.decorator_list + st.bases + [k.value for k in st.keywords]:
                self.ex(d, s)
            self.bind(st.name, s)
            return s
        if isinstance(st, ast.If):
            self.ex(st.test, s)
            v = self.static_test(st.test)
            a = None if v is False else self.block(st.body, dict(s))
            b = None if v is True else self.block(st.orelse, dict(s))
            return self.join(a, b)
        if isinstance(st, (ast.While, ast.For, ast.AsyncFor)):
            return self.loop(st, s)
        if isinstance(st, (ast.With, ast.AsyncWith)):
            swallowed = self.exc_state(s, [st])
            for it in st.items:
                self.ex(it.context_expr, s)
                self.ex(it.optional_vars, s)
            out = self.block(st.body, s)
            # __exit__ may swallow an exception raised anywhere in the body
            return self.join(out, swallowed)
        if isinstance(st, (ast.Try, getattr(ast, "TryStar", ast.Try))):
            return self.try_(st, s)
        # anything else (match, ...): no verdicts inside; whatever it binds or deletes is unknown afterwards
        hard, soft = self.touched([st])
        for v in hard | soft:
            if v in s:
                s[v] = self.M
        return s

    def loop(self, st, s):
        is_for = not isinstance(st, ast.While)
        if is_for:
            self.ex(st.iter, s)
        head = dict(s)
        forever = (not is_for) and isinstance(st.test, ast.Constant) and st.test.value is True
        while True:
            ctx = {"breaks": [], "conts": []}
            self.loops.append(ctx)
            h = dict(head)
            if is_for:
                b = dict(h)
                self.ex(st.target, b)
            else:
                self.ex(st.test, h)
                b = dict(h)
            out = self.block(st.body, b)
            self.loops.pop()
            new = self.join(head, out, *ctx["conts"])
            if new == head:
                break
            head = new
        normal = None if forever else h
        return self.join(self.block(st.orelse, normal), *ctx["breaks"])

    def try_(self, st, s):
        marks = [(c, len(c["breaks"]), len(c["conts"])) for c in self.loops[-1:]]
        exc_in = self.exc_state(s, st.body)
        s0 = dict(s)
        body_out = self.block(st.body, dict(s))
        outs = [self.block(st.orelse, body_out)]
        for h in st.handlers:
            hs = dict(exc_in)
            self.ex(h.type, hs)
            hm = [(c, len(c["breaks"]), len(c["conts"])) for c in self.loops[-1:]]
            if h.name and h.name in self.locals:
                hs[h.name] = self.B
            ho = self.block(h.body, hs)
            if h.name and h.name in self.locals:
                self.killed_by[h.name] = 0
                if ho is not None:
                    ho[h.name] = self.U
                for c, nb, nc in hm:        # break / continue out of the handler: the name is deleted as well
                    for t in c["breaks"][nb:] + c["conts"][nc:]:
                        t[h.name] = self.U
            outs.append(ho)
        normal = self.join(*outs)
        if not st.finalbody:
            return normal
        everything = st.body + st.orelse + [x for h in st.handlers for x in h.body] + list(st.handlers)
        out = self.block(st.finalbody, None if normal is None else dict(normal))
        # the states in which the `finally:` part can run: the normal ones and whatever an exception / return left
        self.block(st.finalbody, self.join(normal, self.exc_state(s0, everything)))
        fhard, fsoft = self.touched(st.finalbody)
        for c, nb, nc in marks:             # break / continue through the `finally:` part
            for t in c["breaks"][nb:] + c["conts"][nc:]:
                for v in fhard | fsoft:
                    if v in t:
                        t[v] = self.M
        return out

    def run(self):
        s = {v: (self.B if v in self.params else self.U) for v in self.locals}
        self.block(self.fn.body, s)
        out = []
        for node, state in self.flags.values():
            if state == self.U:
                out.append((node.id, node.lineno, self.killed_by.get(node.id, 2)))
        return sorted(set(out), key=lambda r: (r[1], r[0]))


def dead_local_loads(tree, static_test=None):
    """[(qualified function name as in co_qualname, variable, line, cause)] for every function of the module"""
    out = []

    def walk(node, prefix, in_func):
        for ch in ast.iter_child_nodes(node):
            if isinstance(ch, (ast.FunctionDef, ast.AsyncFunctionDef)):
                q = prefix + ch.name
                for var, line, cause in DeadLoads(ch, static_test).run():
                    out.append((q, var, line, cause))
                walk(ch, q + ".<locals>.", True)
            elif isinstance(ch, ast.ClassDef):
                walk(ch, prefix + ch.name + ".", in_func)
            else:
                walk(ch, prefix, in_func)
    walk(tree, "", False)
    return out


# ------------------------------------------------------------------------------------------------------------
# Lean rendering

def _ev(e):
    k = e[0]
    if k == "bind":
        return f".bind {e[1]}"
    if k == "bindMod":
        return f".bindMod {e[1]} {e[2]}"
    if k == "unbind":
        return f".unbind {e[1]}"
    if k == "load":
        return f".load {e[1]}"
    if k == "attr":
        return f".attr {e[1]} [{', '.join(map(str, e[2]))}]"
    if k == "ensure":
        return f".ensure {e[1]}"
    if k == "from":
        return f".fromName {e[1]} {e[2]} {e[3]}"
    if k == "star":
        return f".star {e[1]}"
    if k == "nomodule":
        return f".noModule {e[1]}"
    if k == "enter":
        return ".enter"
    if k == "leave":
        return ".leave"
    if k == "ext":
        return f".ext {e[1]}"
    if k in ("tryBegin", "tryEnd", "tryElse"):
        return "." + k
    if k == "tryExcept":
        return f".tryExcept {e[1]}"
    if k == "alias":
        return f".alias {e[1]} {e[2]} [{', '.join(map(str, e[3]))}]"
    if k in ("gbind", "gunbind"):
        return f".{k} {e[1]}"
    raise ValueError(e)


def _evs(evs, indent):
    if not evs:
        return "[]"
    lines, cur = [], ""
    for i, e in enumerate(evs):
        s = _ev(e) + ("," if i + 1 < len(evs) else "")
        if len(cur) + len(s) > 100:
            lines.append(cur.rstrip())
            cur = ""
        cur += s + " "
    lines.append(cur.rstrip())
    pad = "\n" + " " * indent
    return "[" + pad.join(lines) + "]"


def _lean_str(s):
    return json.dumps(s, ensure_ascii=False)


def render_lean(facts):
    L = []
    L.append("import LenaModel.Model.C20")
    L.append("/-! GENERATED by harness/extract_facts.py -- do not edit; regenerated on every `./check C20` from the")
    L.append("working tree of the repository under test (the data the theorems of Props/C20.lean are instantiated with).")
    L.append(f"source-hash: {facts['source_hash']}")
    L.append("Identifiers are interned: `names[i]` is the string of name `i`; ids below `nBuiltins` are `dir(builtins)`. -/")
    L.append("namespace Lena.C20.Gen")
    L.append("open Lena.C20")
    L.append("")
    L.append(f"def sourceHash : String := {_lean_str(facts['source_hash'])}")
    L.append("")
    names = facts["names"]
    for i, m in enumerate(facts["modules"]):
        L.append(f"/-- module {i}: `{m['name']}` -/")
        fnames = []
        for j, f in enumerate(m["funcs"]):
            if not f["evs"]:
                continue
            fn = f"m{i}f{j}"
            fnames.append(fn)
            L.append(f"def {fn} : Func := ⟨{f['name_id']}, {f['line']}, -- {f['name']}")
            L.append(f"  {_evs(f['evs'], 3)}⟩")
        parent = "none" if m["parent"] is None else f"some {m['parent']}"
        allv = "none" if m["all_ids"] is None else "some [" + ", ".join(map(str, m["all_ids"])) + "]"
        L.append(f"def m{i} : Module where")
        L.append(f"  name := {m['name_id']}")
        L.append(f"  parent := {parent}")
        L.append(f"  short := {m['short_id']}")
        L.append(f"  all := {allv}")
        L.append(f"  allDynamic := {'true' if m.get('all_dynamic') else 'false'}")
        L.append(f"  evs := {_evs(m['evs'], 4)}")
        L.append(f"  funcs := [{', '.join(fnames)}]")
        L.append("")
    def ref(r):
        return {"cls": ".cls %s", "builtin": ".builtin %s"}.get(r[0], ".unknown%s") % (r[1] if len(r) > 1 else "")

    def chunks(name, typ, rows):
        L.append(f"def {name} : List {typ} := [")
        for k, row in enumerate(rows):
            code, _, comment = row.partition("  -- ")
            L.append("  " + code + ("," if k + 1 < len(rows) else "") + ("  -- " + comment if comment else ""))
        L.append("]")
        L.append("")
    b = lambda x: "true" if x else "false"
    L.append("/-- every `class` statement: module, qualified name, line, bases, defined in lena/core/exceptions.py -/")
    chunks("classFacts", "ClassFact",
           [f"⟨{c['mod_id']}, {c['name_id']}, {c['line']}, [{', '.join(ref(x) for x in c['base_ids'])}], {b(c['is_lena_exc'])}⟩"
            f"  -- {c['mod']}.{c['name']}" for c in facts["classes"]])
    L.append("/-- every `raise` statement: module, function, line, the class it names, inside an attribute-protocol method -/")
    chunks("raiseFacts", "RaiseFact",
           [f"⟨{r['mod_id']}, {r['fn_id']}, {r['line']}, {ref(r['what_ids'])}, {b(r['protocol'])}⟩"
            for r in facts["raises"]])
    L.append("/-- every read of a local that CPython cannot prove bound: module, function, variable, audited -/")
    chunks("unboundFacts", "UnboundFact",
           [f"⟨{u['mod_id']}, {u['fn_id']}, {u['var_id']}, {b(u['audited'])}⟩  -- {u['mod']} {u['fn']} {u['var']}"
            for u in facts["maybe_unbound"]])
    L.append("/-- every read of a local that is certainly unbound where it is read: module, function, variable, line, "
             "cause (0 `except .. as`, 1 `del`, 2 never bound) -/")
    chunks("currentDeadLoads", "DeadLoad",
           [f"⟨{u['mod_id']}, {u['fn_id']}, {u['var_id']}, {u['line']}, {u['cause']}⟩  -- {u['mod']} {u['fn']} {u['var']}"
            for u in facts.get("dead_loads", [])])
    L.append("/-- the facts of the current working tree -/")
    L.append("def current : Facts where")
    L.append(f"  mods := [{', '.join('m%d' % i for i in range(len(facts['modules'])))}]")
    L.append(f"  entries := [{', '.join(map(str, facts['entries']))}]")
    L.append(f"  nBuiltins := {facts['n_builtins']}")
    L.append(f"  priv := [{', '.join(map(str, facts['private']))}]")
    L.append(f"  nNames := {facts['n_bindable']}")
    L.append(f"  slotBits := {facts['slot_bits']}")
    L.append(f"  absent := {facts['venv_env']}    -- as installed here")
    L.append(f"  envs := [{', '.join(map(str, facts['envs']))}]")
    L.append("  classes := classFacts")
    L.append(f"  excRoot := {'none' if facts['exc_root'] is None else 'some %d' % facts['exc_root']}")
    L.append("  raises := raiseFacts")
    L.append("  maybeUnbound := unboundFacts")
    L.append("")
    L.append("/-- third-party modules imported by import-time code (bit `i` of an environment: `ext[i]` is absent) -/")
    L.append("def ext : Array String := #[" + ", ".join(_lean_str(x) for x in facts["ext"]) + "]")
    L.append("")
    L.append("/-- display strings of the interned identifiers (used by the driver only, never by a theorem) -/")
    L.append("def names : Array String := #[")
    for k in range(0, len(names), 8):
        chunk = ", ".join(_lean_str(s) for s in names[k:k + 8])
        L.append("  " + chunk + ("," if k + 8 < len(names) else ""))
    L.append("]")
    L.append("")
    L.append("end Lena.C20.Gen")
    return "\n".join(L) + "\n"


def write_atomic(path: Path, text: str) -> bool:
    """write `text` to `path` atomically; returns False (and leaves the file untouched) if it is already current"""
    path.parent.mkdir(parents=True, exist_ok=True)
    if path.exists() and path.read_text() == text:
        return False
    fd, tmp = tempfile.mkstemp(prefix=path.name + ".", suffix=".tmp", dir=str(path.parent))
    try:
        with os.fdopen(fd, "w") as f:
            f.write(text)
            f.flush()
            os.fsync(f.fileno())
        os.replace(tmp, path)
    finally:
        if os.path.exists(tmp):
            os.unlink(tmp)
    return True


def extract(repo):
    return Translator(repo).run()


def main(argv):
    repo = argv[1] if len(argv) > 1 else os.environ.get("LENA_REPO", "/repo")
    facts = extract(repo)
    lean_dir = Path(__file__).resolve().parent.parent / "lean"
    if "--stdout" in argv:
        sys.stdout.write(render_lean(facts))
    elif "--json" in argv:
        json.dump(facts, sys.stdout)
    else:
        changed = write_atomic(lean_dir / GEN_REL, render_lean(facts))
        print(f"{GEN_REL}: {'written' if changed else 'up to date'}; {len(facts['modules'])} modules, "
              f"{facts['stats']}")


if __name__ == "__main__":
    main(sys.argv)
