"""every construct of module-level code the translator knows"""
from .core import Base, helper, make_counter
from . import extra
from .extra import *          # extra has no __all__: its public names
try:
    from lena.alpha.optional import Fancy, fancy_table
except ImportError:
    Fancy = None
for _i in (1, 2):
    _last = _i
del _i
while False:
    never_bound = 1
with open(__file__) as _fh:
    _first = _fh.readline()
if (n_items := len(extra.TABLE)) > 1:
    MANY = True
SQUARES = [k * k for k in extra.TABLE]


def _deco(f):
    return f


@_deco
def decorated(x=SQUARES, *, y=n_items):
    return x, y, MANY


class Widget(Base):
    level = n_items
    doubled = level * 2

    def show(self):
        return self.level, Widget.doubled, _last


__all__ = ['Base', 'helper', 'make_counter', 'Fancy', 'thing', 'MANY', 'decorated', 'Widget']
