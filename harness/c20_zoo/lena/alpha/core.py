import lena.alpha
from lena.beta import util as butil
import lena.beta.deep.leaf as leaf

_registry = {}
_counter = 0


class Base(object):
    kind = "base"

    def describe(self):
        # attribute chains through sub-sub-modules
        return lena.alpha.extra.thing(self.kind), leaf.LEAF, lena.beta.deep.leaf.LEAF


def helper(x):
    from lena.beta import tool          # from-import inside a function
    return tool(x), butil.double(x)


def make_counter(start, step=None):
    if step is None:
        step = 1
    elif step < 0:
        raise ValueError(step)
    total = start

    def bump():
        nonlocal total
        total += step
        return total

    def fact(n):
        return 1 if n < 2 else n * fact(n - 1)      # an inner function that calls itself

    import lena.beta
    show = lambda: lena.beta.util.double(total)     # a cell bound by an import, read through a chain
    return bump, fact, show


def register(name, obj):
    global _counter
    _counter = _counter + 1                 # call-time write of a global that exists
    globals()["last_registered"] = name     # literal key: a call-time binding
    globals()[name] = obj                   # computed key: can only add bindings
    return _counter


def forget():
    global _registry
    del _registry                           # VIOLATION on purpose: the second call, and every reader afterwards, fails


def read_registry():
    return _registry


def cond_closure(flag):
    if flag:
        label = "x"
    return lambda: label                    # VIOLATION on purpose: unbound when flag is false


def branch_closure(kind):
    if kind == "a":
        conv = int
    elif kind == "b":
        conv = float
    else:
        raise ValueError(kind)
    return lambda v: conv(v)                # fine: every branch that goes on binds it


def uses_missing():
    return lena.beta.no_such_thing          # VIOLATION on purpose: AttributeError on a lena module


def uses_missing_deep():
    return lena.beta.deep.leaf.NO_LEAF      # VIOLATION on purpose, through a sub-sub-module


def uses_late():
    return last_registered                  # VIOLATION on purpose: bound only after register() was called


def bad_local_import():
    from lena.beta import no_such_name      # VIOLATION on purpose
    return no_such_name
