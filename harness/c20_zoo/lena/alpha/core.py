import lena.alpha
from lena.beta import util as butil
import lena.beta.deep.leaf as leaf

_registry = {}
_counter = 0


class Base(object):
    kind = "base"

    def describe(self):
        # attribute chains through sub-sub-modules
        return lena.alpha.extra.thing(self.kind), leaf.LEAF, lena.beta.deep.leaf.LEAF


def helper(x):
    from lena.beta import tool          # from-import inside a function
    return tool(x), butil.double(x)


def make_counter(start, step=None):
    if step is None:
        step = 1
    elif step < 0:
        raise ValueError(step)
    total = start

    def bump():
        nonlocal total
        total += step
        return total

    def fact(n):
        return 1 if n < 2 else n * fact(n - 1)      # an inner function that calls itself

    import lena.beta
    show = lambda: lena.beta.util.double(total)     # a cell bound by an import, read through a chain
    return bump, fact, show


def register(name, obj):
    global _counter
    _counter = _counter + 1                 # call-time write of a global that exists
    globals()["last_registered"] = name     # literal key: a call-time binding
    globals()[name] = obj                   # computed key: can only add bindings
    return _counter


def forget():
    global _registry
    del _registry                           # VIOLATION on purpose: the second call, and every reader afterwards, fails


def read_registry():
    return _registry


def cond_closure(flag):
    if flag:
        label = "x"
    return lambda: label                    # VIOLATION on purpose: unbound when flag is false


def branch_closure(kind):
    if kind == "a":
        conv = int
    elif kind == "b":
        conv = float
    else:
        raise ValueError(kind)
    return lambda v: conv(v)                # fine: every branch that goes on binds it


def uses_missing():
    return lena.beta.no_such_thing          # VIOLATION on purpose: AttributeError on a lena module


def uses_missing_deep():
    return lena.beta.deep.leaf.NO_LEAF      # VIOLATION on purpose, through a sub-sub-module


def uses_late():
    return last_registered                  # VIOLATION on purpose: bound only after register() was called


def bad_local_import():
    from lena.beta import no_such_name      # VIOLATION on purpose
    return no_such_name


import lena.core


def raises_good(key):
    raise lena.core.LenaKeyError(key)


def raises_good_deep(key):
    raise lena.core.exceptions.LenaKeyError(key)


def raises_builtin(key):
    raise KeyError(key)                     # VIOLATION on purpose: LenaKeyError wraps KeyError


def raises_bad(key):
    raise lena.core.BadError(key)           # VIOLATION on purpose: not a LenaException


def raises_unwrapped():
    raise StopIteration                     # fine: no lena exception wraps StopIteration


class Proxy(object):
    def __getattr__(self, name):
        raise AttributeError(name)          # fine: Python's attribute protocol asks for it

    def lookup(self, name):
        raise AttributeError(name)          # VIOLATION on purpose: LenaAttributeError wraps AttributeError


def alias_ok(x):
    m = lena.beta.util                      # an alias of a module is followed
    d = m.double
    return d(x)


def alias_bad(x):
    m = lena.beta
    return m.no_such_function(x)            # VIOLATION on purpose: AttributeError on a lena module, through an alias


def guarded():
    try:
        return unicode                      # fine: the handler catches the NameError
    except NameError:
        return str


def guarded_attr():
    try:
        return lena.beta.not_there
    except AttributeError:
        return None                         # fine


def not_guarded():
    try:
        return unicode                      # VIOLATION on purpose: the handler catches something else
    except KeyError:
        return str


def maybe_unbound(flag):
    if flag:
        value = 1
    return value                            # VIOLATION on purpose: UnboundLocalError when flag is false


def retry_optional():
    import lena.alpha.optional              # imported again after a failed import (environment without jinja2)
    return lena.alpha.optional.fancy_table


def else_not_guarded():
    try:
        value = len("abc")
    except Exception:
        return None
    else:
        return value + not_defined_anywhere     # VIOLATION on purpose: the `else:` part is not guarded by the handler


def else_skipped():
    try:
        label = unicode
    except NameError:
        label = "py3"
    else:
        return never_defined_either             # fine here: the body always fails, the `else:` part never runs
    return label


def handler_reraises():
    try:
        return lena.beta.not_there_either       # VIOLATION on purpose: the handler re-raises, the call fails
    except AttributeError:
        raise


def handler_converts(x):
    try:
        return lena.beta.not_there_at_all(x)    # VIOLATION on purpose: fails because of the undefined name, as KeyError
    except (AttributeError, NameError):
        raise lena.core.LenaKeyError(x)


def asks_hasattr():
    if hasattr(lena.beta, "util") and hasattr(lena.beta, "absent_name"):
        return 1
    return getattr(lena.beta, "another_absent_name", None), getattr(lena.beta.util, "double")


def asks_getattr_plain():
    return getattr(lena.beta, "plainly_absent")    # VIOLATION on purpose: getattr without a default


def lazy_import():
    global lena
    if not hasattr(lena, "delta"):
        import lena.delta                       # the lazy-import idiom: not an import-order dependence
    return None


def lazy_import_handler():
    global lena
    try:
        lena.delta.value
    except AttributeError:
        import lena.delta                       # the same idiom with a handler
    return None


def order_dependent():
    try:
        return lena.delta.value                 # with only lena.alpha imported the handler runs, after
    except AttributeError:                      # `import lena.delta` it does not: agreement is all that is checked here
        return None


def raises_through_local(key):
    err = KeyError(key)
    if key:
        raise err                               # VIOLATION on purpose: LenaKeyError wraps KeyError
    good = lena.core.LenaKeyError(key)
    raise good


def raises_handler_name(key):
    try:
        return {}[key]
    except KeyError as err:
        raise err                               # a re-raise of whatever was caught: not judged


def two_handlers_else():
    try:
        value = unicode
    except NameError:
        value = str
    except AttributeError:
        value = None
    else:
        value = undefined_in_else               # fine here: the body always fails
    return value
