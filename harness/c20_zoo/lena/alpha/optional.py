"""needs the optional third-party module at import time"""
import jinja2


class Fancy(jinja2.Template):
    pass


fancy_table = {}
