import lena.beta

TABLE = [1, 2]
_private = 1


def thing(k):
    return lena.beta.util.double(k), _private

try:
    text_type = unicode                     # the Python-2 idiom: fine, the handler catches the NameError
except NameError:
    text_type = str
mod_alias = lena.beta.util                  # a module-level alias of a module


# ---- locals that are certainly unbound where they are read (UnboundLocalError, a NameError) -----------------
def dead_after_except(path):
    try:
        open(path).close()
    except OSError as err:                  # Python 3 deletes `err` at the end of this clause
        pass
    else:
        return None
    return "failed: {}".format(err)         # VIOLATES on purpose: unbound on every path that gets here


def dead_after_del(k):
    tmp = k + 1
    del tmp
    return tmp                              # VIOLATES on purpose


def dead_before_binding(k):
    if k:
        total = total + k                   # VIOLATES on purpose: read before anything has bound it
    total = 0
    return total


def fine_rebound_after_except(path):
    err = None
    try:
        open(path).close()
    except OSError as err:
        pass
    try:
        return err                          # certainly unbound on the handler path, bound on the other: not listed
    except NameError:
        return None


def fine_conditional(k, path):
    if k:
        y = 1
    for z in range(k):
        pass
    with open(path) as fh:
        w = fh.read()
    try:
        v = int(w)
    except ValueError as e:
        msg = str(e)
        e = None
        return msg, e
    finally:
        k = None
    while True:
        u = 1
        break
    return y, z, w, v, u                    # conditionally bound (y, z) or bound: never listed
