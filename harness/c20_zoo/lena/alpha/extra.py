import lena.beta

TABLE = [1, 2]
_private = 1


def thing(k):
    return lena.beta.util.double(k), _private

try:
    text_type = unicode                     # the Python-2 idiom: fine, the handler catches the NameError
except NameError:
    text_type = str
mod_alias = lena.beta.util                  # a module-level alias of a module
