import lena.beta

TABLE = [1, 2]
_private = 1


def thing(k):
    return lena.beta.util.double(k), _private
