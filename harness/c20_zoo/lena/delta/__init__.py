value = 4
