"""VIOLATION on purpose: a package that cannot be imported"""
from lena.gamma.missing import nothing
