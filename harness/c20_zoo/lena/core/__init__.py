from .exceptions import LenaException, LenaKeyError, LenaAttributeError, BadError
