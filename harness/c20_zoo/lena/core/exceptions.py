"""the documented exceptions of the self-test package (one of them is wrong on purpose)"""


class LenaException(Exception):
    pass


class LenaKeyError(LenaException, KeyError):
    pass


class LenaAttributeError(LenaException, AttributeError):
    pass


class BadError(KeyError):       # VIOLATION on purpose: does not derive from LenaException
    pass
