def double(x):
    return x * 2


def tool(x):
    return double(x) + 1
