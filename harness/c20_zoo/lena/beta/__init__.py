from . import util
from .util import tool
import lena.beta.deep.leaf
