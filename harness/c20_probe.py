"""C20 probe: executed in a *fresh interpreter* (`python c20_probe.py <repo> <mode> <subpackage|all> [out]`).

mode `static`:  import only the given sub-package (or all of them for `all`), then report as JSON
    * whether the import and `from <pkg> import *` worked, the names of `__all__` that do not exist,
    * `sys.modules` (lena part) and the namespace of every loaded lena module (name -> "opaque" | "mod:<name>"),
    * for every function / method / lambda of every loaded lena module (code objects of the compiled source):
      the global names and attribute chains its *bytecode* loads that do not resolve against the real module
      objects of this interpreter (`__globals__`, `builtins`, `getattr` on lena modules).  Functions that import
      something themselves are examined in a forked child, which really performs their imports in bytecode order.
  This is the direct evaluation of the property's static clause on the real code, independent of the
  ast-based translator and of the Lean resolver.

mode `behaviour`: import the sub-package -- and, with `full`, every other sub-package first -- and exercise every
  public name of the sub-package on small inputs (constructor palettes, then the element methods on small
  flows); report one outcome string per scenario.
"""
import builtins
import dis
import io
import itertools
import json
import os
import re
import signal
import sys
import types
import warnings

warnings.simplefilter("ignore")


def lena_modules():
    return {n: m for n, m in sys.modules.items() if (n == "lena" or n.startswith("lena.")) and m is not None}


def is_lena_module(v):
    return isinstance(v, types.ModuleType) and (v.__name__ == "lena" or v.__name__.startswith("lena."))


def val_kind(v):
    return "mod:" + v.__name__ if is_lena_module(v) else "opaque"


def exc_info(e):
    msg = str(e)
    undefined = isinstance(e, NameError) or (isinstance(e, AttributeError) and "module 'lena" in msg) \
        or (isinstance(e, ImportError) and "lena" in msg)
    return {"type": type(e).__name__, "msg": msg[:300], "undefined_name": bool(undefined)}


# ----------------------------------------------------------------------------------------------------------
# static mode

def function_codes(code, out):
    """all function / lambda / generator-expression code objects below `code` that this interpreter can create
    (class bodies are walked through; code objects only mentioned in a dead interpreter-version branch are left out)"""
    instrs = list(dis.get_instructions(code))
    live, _ = reachable(code, instrs)
    for k, ins in enumerate(instrs):
        if ins.opname == "LOAD_CONST" and isinstance(ins.argval, types.CodeType) and k in live:
            c = ins.argval
            if c.co_flags & 0x2:      # CO_NEWLOCALS: functions, lambdas, comprehensions (not class bodies)
                out.append(c)
            function_codes(c, out)


def owner_name(code):
    """the function a comprehension code object belongs to (the translator inlines comprehensions)"""
    q = code.co_qualname
    for suffix in (".<locals>.<genexpr>", ".<locals>.<listcomp>", ".<locals>.<setcomp>", ".<locals>.<dictcomp>"):
        while q.endswith(suffix):
            q = q[: -len(suffix)]
    return q


_CMP = {"==": lambda a, b: a == b, "!=": lambda a, b: a != b, "<": lambda a, b: a < b, "<=": lambda a, b: a <= b,
        ">": lambda a, b: a > b, ">=": lambda a, b: a >= b}
_JUMPS_UNCOND = ("JUMP_FORWARD", "JUMP_BACKWARD", "JUMP_BACKWARD_NO_INTERRUPT")
_NO_FALLTHROUGH = ("RETURN_VALUE", "RETURN_CONST", "RAISE_VARARGS", "RERAISE")


def static_test_value(instrs, k):
    """value of the test that ends just before the conditional jump `instrs[k]` when it only looks at the
    interpreter version (`sys.version_info.major == 2`, `sys.version_info >= (3, 0)` ...), else None"""
    j = k - 1
    while j >= 0 and instrs[j].opname in ("LOAD_ATTR", "LOAD_CONST", "COMPARE_OP", "BINARY_SUBSCR"):
        j -= 1
    if j < 0 or instrs[j].opname != "LOAD_GLOBAL" or instrs[j].argval != "sys" or j == k - 1:
        return None
    st = []
    try:
        for ins in instrs[j:k]:
            op = ins.opname
            if op == "LOAD_GLOBAL":
                st.append(sys)
            elif op == "LOAD_ATTR":
                if ins.argval not in ("version_info", "version", "major", "minor", "micro", "hexversion"):
                    return None
                st.append(getattr(st.pop(), ins.argval))
            elif op == "LOAD_CONST":
                st.append(ins.argval)
            elif op == "BINARY_SUBSCR":
                b = st.pop()
                st.append(st.pop()[b])
            elif op == "COMPARE_OP":
                b = st.pop()
                a = st.pop()
                st.append(_CMP[ins.argval.strip()](a, b))
        if len(st) != 1:
            return None
        return bool(st[0])
    except Exception:
        return None


def reachable(code, instrs):
    """indices of the instructions that can be executed by this interpreter (branches decided by the interpreter
    version alone are followed on the live side only)"""
    idx = {ins.offset: k for k, ins in enumerate(instrs)}
    try:
        entries = [(e.start, e.end, e.target) for e in dis.Bytecode(code).exception_entries]
    except Exception:
        entries = []
    seen = set()
    work = [0]
    dead_static = 0
    while True:
        while work:
            k = work.pop()
            if k in seen or k >= len(instrs):
                continue
            seen.add(k)
            ins = instrs[k]
            op = ins.opname
            if op in _NO_FALLTHROUGH:
                continue
            if op in _JUMPS_UNCOND:
                work.append(idx.get(ins.argval, len(instrs)))
                continue
            if op.startswith("POP_JUMP_IF_") or op in ("FOR_ITER", "SEND"):
                taken = None
                if op in ("POP_JUMP_IF_FALSE", "POP_JUMP_IF_TRUE"):
                    v = static_test_value(instrs, k)
                    if v is not None:
                        taken = (not v) if op == "POP_JUMP_IF_FALSE" else v
                        dead_static += 1
                if taken is not True:
                    work.append(k + 1)
                if taken is not False:
                    work.append(idx.get(ins.argval, len(instrs)))
                continue
            work.append(k + 1)
        more = [idx[t] for (a, b, t) in entries
                if t in idx and idx[t] not in seen and any(a <= instrs[k].offset < b for k in seen)]
        if not more:
            break
        work.extend(more)
    return seen, dead_static


_MISSING = object()
_OPAQUE = object()
_COMP_NAMES = ("<genexpr>", "<listcomp>", "<setcomp>", "<dictcomp>")


def cell_states(code, instrs, live, params, names=None):
    """definite assignment of the followed locals of `code` (by default its cell variables: the locals its inner
    functions read), by a forward data-flow over the control-flow graph without exception edges (a `try` body is
    taken to run to its end): returns, for every live instruction index, the set certainly bound *before* it"""
    cells = set(code.co_cellvars) if names is None else set(names)
    idx = {ins.offset: k for k, ins in enumerate(instrs)}
    n = len(instrs)

    def succs(k):
        ins = instrs[k]
        op = ins.opname
        if op in _NO_FALLTHROUGH:
            return []
        if op in _JUMPS_UNCOND:
            return [idx.get(ins.argval, n)]
        if op.startswith("POP_JUMP_IF_") or op in ("FOR_ITER", "SEND"):
            taken = None
            if op in ("POP_JUMP_IF_FALSE", "POP_JUMP_IF_TRUE"):
                v = static_test_value(instrs, k)
                if v is not None:
                    taken = (not v) if op == "POP_JUMP_IF_FALSE" else v
            out = []
            if taken is not True:
                out.append(k + 1)
            if taken is not False:
                out.append(idx.get(ins.argval, n))
            return out
        return [k + 1]

    before = {0: frozenset(cells & params)}
    work = [0]
    while work:
        k = work.pop()
        if k >= n:
            continue
        st = set(before[k])
        ins = instrs[k]
        if ins.opname in ("STORE_DEREF", "STORE_FAST") and ins.argval in cells:
            st.add(ins.argval)
        elif ins.opname in ("DELETE_DEREF", "DELETE_FAST"):
            st.discard(ins.argval)
        st = frozenset(st)
        for s2 in succs(k):
            if s2 >= n:
                continue
            new = st if s2 not in before else before[s2] & st
            if s2 not in before or new != before[s2]:
                before[s2] = new
                work.append(s2)
    return before


def closure_problems(code, instrs, before, impvals_at):
    """reads of `code`'s cell variables by the inner functions it creates (not by its own comprehensions): when the
    statement that creates the inner function is done, the cell must be bound -- else the inner function can be
    called with the cell unbound (NameError: free variable referenced before assignment); a cell bound by an import
    is followed through attribute chains like a global.  The moment looked at is the instruction after the one that
    stores the new function (a `def`), or after the one that creates it (a lambda)."""
    problems, n = [], 0
    cells = set(code.co_cellvars)

    def reads(k, vis, reader_is_owner, certainly, impvals):
        nonlocal n
        is_comp = k.co_name in _COMP_NAMES
        is_class = not (k.co_flags & 0x2)
        inner_is_owner = reader_is_owner and (is_comp or is_class)
        if not is_class and not inner_is_owner:
            kin = list(dis.get_instructions(k))
            klive, _ = reachable(k, kin)
            for i, ins in enumerate(kin):
                if i in klive and ins.opname in ("LOAD_DEREF", "LOAD_CLASSDEREF") and ins.argval in vis \
                        and ins.argval != "__class__":
                    name = ins.argval
                    n += 1
                    if name not in certainly:
                        problems.append({"kind": "NameError", "name": name, "unbound_local": True,
                                         "inner": k.co_qualname})
                        continue
                    val = impvals.get(name)
                    j = i + 1
                    while is_lena_module(val) and j < len(kin) and kin[j].opname in ("LOAD_ATTR", "LOAD_METHOD"):
                        a = kin[j].argval
                        if not hasattr(val, a):
                            problems.append({"kind": "AttributeError", "name": a, "on": val.__name__, "root": name,
                                             "inner": k.co_qualname})
                            break
                        val = getattr(val, a)
                        j += 1
        for c in k.co_consts:
            if isinstance(c, types.CodeType):
                v2 = vis & set(c.co_freevars)
                if v2:
                    reads(c, v2, inner_is_owner, certainly, impvals)

    for i, ins in enumerate(instrs):
        if ins.opname == "LOAD_CONST" and isinstance(ins.argval, types.CodeType) and i in before:
            k = ins.argval
            vis = cells & set(k.co_freevars)
            if not vis:
                continue
            # the end of the creating statement: after MAKE_FUNCTION (and the decorators' calls), after the store
            j = i + 1
            while j < len(instrs) and instrs[j].opname != "MAKE_FUNCTION":
                j += 1
            j += 1
            while j < len(instrs) and instrs[j].opname in ("CALL", "PRECALL", "KW_NAMES", "CACHE"):
                j += 1
            if j < len(instrs) and instrs[j].opname in ("STORE_FAST", "STORE_DEREF", "STORE_NAME", "STORE_GLOBAL"):
                j += 1
            certainly = before.get(j, before.get(i, frozenset()))
            reads(k, vis, True, certainly, impvals_at)
    return n, problems


def analyse(code, mod, do_imports):
    """walk the bytecode of one code object in offset order; returns (n_loads, problems).

    Global loads are resolved against the real `__dict__` of the function's module and `builtins`; attribute
    chains are followed with `getattr` while the value is a lena module.  Import statements of the function are
    really executed when `do_imports` (the caller has forked), and the locals they bind are followed like
    globals until the next join point if they were bound in a conditional block."""
    g = vars(mod)
    problems = []
    n_loads = 0
    instrs = list(dis.get_instructions(code))
    leaders = {i.offset for i in instrs if i.is_jump_target}
    live, _ = reachable(code, instrs)
    greads, gstores, gdeletes = set(), set(), set()
    # locals that only import statements bind (the compiler's view of `import lena.flow` inside a function):
    # reading one of them where no import has bound it is an UnboundLocalError, a NameError
    n_params = code.co_argcount + code.co_kwonlyargcount + bool(code.co_flags & 0x4) + bool(code.co_flags & 0x8)
    params = set(code.co_varnames[:n_params])
    stores, import_stores, depth = {}, {}, 0
    for ins in instrs:
        op = ins.opname
        if op == "IMPORT_NAME":
            depth = 1
        elif op == "IMPORT_FROM":
            depth += 1
        elif op in ("STORE_FAST", "STORE_DEREF"):
            stores[ins.argval] = stores.get(ins.argval, 0) + 1
            if depth:
                import_stores[ins.argval] = import_stores.get(ins.argval, 0) + 1
                depth -= 1
        elif op == "POP_TOP":
            depth = max(0, depth - 1)
        elif op not in ("LOAD_CONST", "SWAP"):
            depth = 0
    # ... and locals bound by nothing but `x = name.a.b` whose root is a global, an import-bound local or another
    # such alias (aliases of modules, followed like import-bound locals)
    alias_roots = {}      # name -> roots of its alias stores (None: a global)
    for k, ins in enumerate(instrs):
        if ins.opname == "STORE_FAST":
            j = k - 1
            while j >= 0 and instrs[j].opname == "LOAD_ATTR":
                j -= 1
            if j >= 0 and instrs[j].opname in ("LOAD_GLOBAL", "LOAD_NAME"):
                alias_roots.setdefault(ins.argval, []).append(None)
            elif j >= 0 and instrs[j].opname in ("LOAD_FAST", "LOAD_FAST_CHECK"):
                alias_roots.setdefault(ins.argval, []).append(instrs[j].argval)
    cand = {n for n, k in stores.items()
            if import_stores.get(n, 0) + len(alias_roots.get(n, ())) == k and n not in params}
    changed = True
    while changed:
        changed = False
        for n in list(cand):
            if any(r is not None and r not in cand for r in alias_roots.get(n, ())):
                cand.discard(n)
                changed = True
    import_only = cand
    alias_only = {n for n in import_only if alias_roots.get(n)}
    bound_before = cell_states(code, instrs, live, set(), names=import_only) if import_only else {}
    chain_end = {}        # index of the instruction after a name.a.b chain -> the value of the chain
    maybe_unbound = []
    cells = set(code.co_cellvars)
    impvals = {}                        # the module an import statement bound a cell variable to
    stack = []            # the values of an import statement in progress
    consts = []           # the last LOAD_CONST values (level, fromlist)
    implocals = {}        # local name -> object bound by an import statement
    cond = {}             # import-bound locals bound in a conditional block -> what they were bound to before
    in_cond_block = False
    for i, ins in enumerate(instrs):
        op = ins.opname
        if i not in live:
            continue
        if op == "LOAD_CONST":
            consts = (consts + [ins.argval])[-2:]
            continue
        if op == "IMPORT_NAME":
            level, fromlist = consts if len(consts) == 2 else (0, None)
            obj = None
            if do_imports:
                try:
                    obj = builtins.__import__(ins.argval, g, {}, fromlist, level or 0)
                except BaseException as e:      # noqa
                    info = exc_info(e)
                    missing = getattr(e, "name", None)
                    third_party = isinstance(e, ImportError) and missing and not (
                        missing == "lena" or missing.startswith("lena."))
                    # the ImportError of a third-party module that this environment lacks is the documented outcome
                    if not third_party and (info["undefined_name"] or ins.argval.startswith("lena") or level):
                        problems.append({"kind": type(e).__name__, "name": ins.argval, "msg": info["msg"],
                                         "line": ins.positions.lineno})
            stack = [obj]
        elif op == "IMPORT_FROM":
            top = stack[-1] if stack else None
            val = None
            if top is not None:
                try:
                    val = getattr(top, ins.argval)
                except AttributeError:
                    val = sys.modules.get(getattr(top, "__name__", "?") + "." + ins.argval)
                    if val is None and is_lena_module(top):
                        problems.append({"kind": "ImportError", "name": ins.argval, "on": top.__name__,
                                         "line": ins.positions.lineno})
            stack.append(val)
        elif op == "SWAP":
            if len(stack) >= 2:
                stack[-1], stack[-2] = stack[-2], stack[-1]
        elif op == "POP_TOP":
            if stack:
                stack.pop()
        elif op in ("STORE_FAST", "STORE_DEREF", "STORE_NAME", "STORE_GLOBAL"):
            if op == "STORE_GLOBAL":
                gstores.add(ins.argval)
            if op == "STORE_DEREF" and ins.argval in cells:
                if stack and stack[-1] is not None:
                    impvals[ins.argval] = stack[-1]
                else:
                    impvals.pop(ins.argval, None)
            if stack:
                val = stack.pop()
                if op in ("STORE_FAST", "STORE_DEREF"):
                    # an import that could not be performed here (module not installed) binds an unknown object
                    implocals[ins.argval] = val if val is not None else _OPAQUE
            elif op == "STORE_FAST" and ins.argval in alias_only and i in chain_end:
                v = chain_end[i]
                implocals[ins.argval] = v if is_lena_module(v) else _OPAQUE
            elif op in ("STORE_FAST", "STORE_DEREF"):
                implocals.pop(ins.argval, None)       # re-bound by something that is not an import
        else:
            stack = []
            if op in ("LOAD_GLOBAL", "LOAD_NAME", "LOAD_FAST", "LOAD_DEREF", "LOAD_FAST_CHECK"):
                name = ins.argval
                if op in ("LOAD_GLOBAL", "LOAD_NAME"):
                    n_loads += 1
                    greads.add(name)
                    if name in g:
                        val, found = g[name], True
                    elif hasattr(builtins, name):
                        val, found = getattr(builtins, name), True
                    else:
                        val, found = None, False
                        problems.append({"kind": "NameError", "name": name, "line": ins.positions.lineno})
                else:
                    # a followed local: bound here if the data-flow says so on every path (its value: the last one
                    # stored, in layout order)
                    found = name in implocals and (name not in import_only or name in bound_before.get(i, implocals))
                    val = implocals.get(name)
                    if found:
                        n_loads += 1
                    elif name in import_only and op in ("LOAD_FAST", "LOAD_FAST_CHECK"):
                        n_loads += 1
                        problems.append({"kind": "NameError", "name": name, "unbound_local": True,
                                         "line": ins.positions.lineno})
                    elif op == "LOAD_FAST_CHECK" and name not in maybe_unbound:
                        maybe_unbound.append(name)
                j = i + 1
                broken = False
                while found and is_lena_module(val) and j < len(instrs) and instrs[j].opname in ("LOAD_ATTR", "LOAD_METHOD"):
                    a = instrs[j].argval
                    if not hasattr(val, a):
                        problems.append({"kind": "AttributeError", "name": a, "on": val.__name__, "root": name,
                                         "line": ins.positions.lineno})
                        broken = True
                        break
                    val = getattr(val, a)
                    j += 1
                if found and not broken:
                    while j < len(instrs) and instrs[j].opname == "LOAD_ATTR":
                        j += 1          # the rest of the chain is on an object that is not a lena module
                        val = _OPAQUE
                    chain_end[j] = val
            elif op == "DELETE_GLOBAL":
                gdeletes.add(ins.argval)
                if ins.argval not in g:
                    problems.append({"kind": "NameError", "name": ins.argval, "line": ins.positions.lineno})
            elif op == "DELETE_FAST":
                implocals.pop(ins.argval, None)
    if cells and code.co_name not in _COMP_NAMES:
        n_par = code.co_argcount + code.co_kwonlyargcount + bool(code.co_flags & 0x4) + bool(code.co_flags & 0x8)
        before = cell_states(code, instrs, live, set(code.co_varnames[:n_par]))
        nc, pc = closure_problems(code, instrs, before, impvals)
        n_loads += nc
        problems.extend(pc)
    return {"loads": n_loads, "problems": problems, "greads": sorted(greads), "gstores": sorted(gstores),
            "gdeletes": sorted(gdeletes), "maybe_unbound": maybe_unbound}


def dead_fast_loads(code):
    """[(name, line)]: reads (LOAD_FAST_CHECK) and deletions (DELETE_FAST) of a fast local that is unbound on EVERY
    path from the function's entry to the instruction -- a forward data-flow over the bytecode (jumps, FOR_ITER /
    SEND, the exception table: a handler is entered with the state before any instruction of its range).  State
    of a local: 0 unbound on every path, 1 bound on every path, 2 otherwise.  STORE_FAST binds, DELETE_FAST and
    LOAD_FAST_AND_CLEAR unbind (`except E as x:` ends with `x = None; del x`).  Such an instruction raises
    UnboundLocalError whenever it is executed; a conditionally bound local (state 2) is never reported."""
    import dis
    instrs = list(dis.get_instructions(code))
    if not instrs:
        return []
    idx = {ins.offset: k for k, ins in enumerate(instrs)}
    n_par = code.co_argcount + code.co_kwonlyargcount + bool(code.co_flags & 0x4) + bool(code.co_flags & 0x8)
    fast = list(code.co_varnames)
    entry = {v: (1 if k < n_par else 0) for k, v in enumerate(fast)}
    handlers = {}
    for e in dis.Bytecode(code).exception_entries:
        for k, ins in enumerate(instrs):
            if e.start <= ins.offset < e.end and e.target in idx:
                handlers.setdefault(k, []).append(idx[e.target])
    no_fall = {"RETURN_VALUE", "RETURN_CONST", "RAISE_VARARGS", "RERAISE", "JUMP_FORWARD", "JUMP_BACKWARD",
               "JUMP_BACKWARD_NO_INTERRUPT", "JUMP", "JUMP_NO_INTERRUPT", "INTERPRETER_EXIT"}
    jumps = set(dis.hasjrel) | set(dis.hasjabs)
    state = {0: dict(entry)}
    work = [0]

    def flow(k, s):
        old = state.get(k)
        if old is None:
            state[k] = dict(s)
            work.append(k)
            return
        new = {v: (old[v] if old[v] == s[v] else 2) for v in old}
        if new != old:
            state[k] = new
            work.append(k)
    while work:
        k = work.pop()
        ins, s = instrs[k], state[k]
        for h in handlers.get(k, ()):
            flow(h, s)
        out = s
        if ins.opname == "STORE_FAST" and ins.argval in s:
            out = dict(s)
            out[ins.argval] = 1
        elif ins.opname in ("DELETE_FAST", "LOAD_FAST_AND_CLEAR") and ins.argval in s:
            out = dict(s)
            out[ins.argval] = 0
        if ins.opcode in jumps and ins.argval in idx:
            flow(idx[ins.argval], out)
        if ins.opname not in no_fall and k + 1 < len(instrs):
            flow(k + 1, out)
    # the compiler duplicates code (the statements after a `with` / `try` exist once per way out of it): a source
    # position is reported only when every reachable copy of the read finds the local certainly unbound
    groups = {}
    for k, ins in enumerate(instrs):
        if k in state and ins.opname in ("LOAD_FAST_CHECK", "LOAD_FAST", "DELETE_FAST") and ins.argval in state[k]:
            pos = tuple(ins.positions) if ins.positions else (k,)
            groups.setdefault((ins.argval, pos), []).append(state[k][ins.argval] == 0 and ins.opname != "LOAD_FAST")
    found = []
    for (var, pos), flags in groups.items():
        if all(flags) and (var, pos[0]) not in found:
            found.append((var, pos[0]))
    return found


_KIND_BIT = {"ImportError": 1, "ModuleNotFoundError": 1, "NameError": 2, "AttributeError": 4}
_HANDLER_MASK = {"ImportError": 1, "ModuleNotFoundError": 1, "NameError": 2, "UnboundLocalError": 2,
                 "AttributeError": 4, "Exception": 7, "BaseException": 7}
OPTS = {}


def function_nodes(src):
    """(qualified name, first line as in co_firstlineno) -> ast node of every def / lambda of the source"""
    import ast
    out = {}

    def visit(node, prefix):
        for ch in ast.iter_child_nodes(node):
            if isinstance(ch, (ast.FunctionDef, ast.AsyncFunctionDef)):
                q = prefix + ch.name
                out[(q, min([ch.lineno] + [d.lineno for d in ch.decorator_list]))] = ch
                for d in ch.decorator_list + ch.args.defaults + [x for x in ch.args.kw_defaults if x]:
                    visit(ast.Expr(d), prefix)
                visit(ast.Module(body=ch.body, type_ignores=[]), q + ".<locals>.")
            elif isinstance(ch, ast.Lambda):
                out[(prefix + "<lambda>", ch.lineno)] = ch
                visit(ast.Expr(ch.body), prefix + "<lambda>.<locals>.")
            elif isinstance(ch, ast.ClassDef):
                visit(ast.Module(body=ch.body, type_ignores=[]), prefix + ch.name + ".")
                for d in ch.decorator_list + ch.bases:
                    visit(ast.Expr(d), prefix)
            else:
                visit(ch, prefix)
    visit(ast.parse(src), "")
    return out


def own_nodes(fnode):
    """the nodes of a function body that belong to the function itself (not to inner defs, lambdas, classes)"""
    import ast
    body = fnode.body if isinstance(fnode.body, list) else [fnode.body]
    stack = list(body)
    while stack:
        n = stack.pop()
        yield n
        for ch in ast.iter_child_nodes(n):
            if not isinstance(ch, (ast.FunctionDef, ast.AsyncFunctionDef, ast.Lambda, ast.ClassDef)):
                stack.append(ch)


def handler_mask(h):
    """what the handler catches: ImportError (1), NameError (2), AttributeError (4).  A handler that contains a
    `raise` does not make a NameError / AttributeError harmless (the code still fails because of the undefined name):
    those two bits are dropped.  Bit 3 (8, catches nothing): the handler imports something -- the lazy-import idiom
    repairs the failure, both interpreters go on alike."""
    import ast
    if h.type is None:
        mask = 7
    else:
        mask = 0
        for t in ast.walk(h.type):
            if isinstance(t, ast.Name):
                mask |= _HANDLER_MASK.get(t.id, 0)
            elif isinstance(t, ast.Attribute):
                mask |= _HANDLER_MASK.get(t.attr, 0)
    own = list(own_nodes(ast.Module(body=h.body, type_ignores=[])))
    if mask & 6 and any(isinstance(n, ast.Raise) for n in own):
        mask &= ~6
    if mask and any(isinstance(n, (ast.Import, ast.ImportFrom)) for n in own):
        mask |= 8
    return mask


def guard_ranges(fnode):
    """(first line, last line, [mask of every catching handler, in order]) of every `try` BODY of the function (the
    `else:` part is not guarded by the handlers)"""
    import ast
    out = []
    for n in own_nodes(fnode):
        if isinstance(n, ast.Try):
            masks = [m for m in (handler_mask(h) for h in n.handlers) if m]
            if masks and n.body:
                last = max(getattr(x, "end_lineno", x.lineno) for x in n.body)
                # when the handler runs, the `else:` part does not (one catching handler; several nest in the
                # translation, which then checks the `else:` part as if it always ran)
                skip = max([last] + [getattr(x, "end_lineno", x.lineno) for x in n.orelse]) if len(masks) == 1 else last
                out.append((n.body[0].lineno, last, masks, skip))
    return out


def split_guarded(problems, guards):
    """the problems of one function in source order -> (failures, caught): a problem inside a `try` body whose
    handler catches it is not a failure of the function -- the handler runs, the rest of that body is skipped (the
    problems there never happen); a caught problem is kept, as it is a handler that runs in this interpreter
    (unless the handler repairs the failure by importing)"""
    order = sorted(range(len(problems)), key=lambda i: (problems[i].get("line", 1 << 30), i))
    fired, failures, caught = [], [], []
    for i in order:
        pr = problems[i]
        ln = pr.get("line", -1)
        if any(a <= ln <= b for a, b in fired):
            continue
        bit = _KIND_BIT.get(pr["kind"], 0)
        if pr.get("probe") in ("hasattr", "getattr3"):
            if not pr.get("repairs"):
                caught.append(pr)       # the question itself is the handler; nothing is skipped
            continue
        hit = None
        for a, b, masks, skip in sorted((g for g in guards if g[0] <= ln <= g[1]), key=lambda g: g[1] - g[0]):
            m = next((m for m in masks if m & bit), None)
            if m is not None:
                hit = (a, skip, m)
                break
        if hit is None:
            failures.append(pr)
        else:
            fired.append(hit[:2])
            if not hit[2] & 8:
                caught.append(pr)
    return failures, caught


def local_names(fnode):
    """names that are local to the function (parameters, assigned, imported, handler names), minus `global`s"""
    import ast
    a = fnode.args
    bound = {x.arg for x in a.posonlyargs + a.args + a.kwonlyargs} | {x.arg for x in (a.vararg, a.kwarg) if x}
    for n in own_nodes(fnode):
        if isinstance(n, ast.Name) and isinstance(n.ctx, (ast.Store, ast.Del)):
            bound.add(n.id)
        elif isinstance(n, ast.ExceptHandler) and n.name:
            bound.add(n.name)
        elif isinstance(n, (ast.Import, ast.ImportFrom)):
            bound |= {(x.asname or x.name.split(".")[0]) for x in n.names}
    globs = {n_ for n in own_nodes(fnode) if isinstance(n, ast.Global) for n_ in n.names}
    return bound - globs


def chain_of(node):
    import ast
    chain = []
    while isinstance(node, ast.Attribute):
        chain.append(node.attr)
        node = node.value
    if isinstance(node, ast.Name) and isinstance(node.ctx, ast.Load):
        return node.id, chain[::-1]
    return None


def lazy_import_tests(fnode):
    """ids of the nodes inside the test of an `if` whose branches import something (`if not hasattr(lena, "flow"):
    import lena.flow`): such a test is the lazy-import idiom, not an import-order dependence"""
    import ast
    out = set()
    for n in own_nodes(fnode):
        if isinstance(n, ast.If) and any(isinstance(x, (ast.Import, ast.ImportFrom))
                                         for b in n.body + n.orelse for x in ast.walk(b)):
            out |= {id(x) for x in ast.walk(n.test)}
    return out


def attribute_probes(fnode, g, free=()):
    """`hasattr(m.a, "b")` / `getattr(m.a, "b"[, default])` with a literal name, where `m.a` denotes a lena module in
    this interpreter and the module has no attribute `b`: the question "has the module been imported" answered
    with no (an AttributeError on a lena module that `hasattr` / the default swallows; without a default it is the
    plain failing read)"""
    import ast
    out = []
    if g.get("hasattr", builtins.hasattr) is not builtins.hasattr or g.get("getattr", builtins.getattr) is not builtins.getattr:
        return out
    loc = local_names(fnode) | set(free)
    lazy = lazy_import_tests(fnode)
    for n in own_nodes(fnode):
        if isinstance(n, ast.Call) and isinstance(n.func, ast.Name) and n.func.id in ("hasattr", "getattr") \
                and n.func.id not in loc and not n.keywords and len(n.args) in (2, 3) \
                and isinstance(n.args[1], ast.Constant) and isinstance(n.args[1].value, str) \
                and n.args[1].value.isidentifier() and not (n.func.id == "hasattr" and len(n.args) != 2):
            c = chain_of(n.args[0])
            if c is None or c[0] in loc:
                continue
            root, chain = c
            val = g[root] if root in g else getattr(builtins, root, _MISSING)
            for a in chain:
                if val is _MISSING or not is_lena_module(val):
                    break
                val = getattr(val, a, _MISSING)
            if val is _MISSING or not is_lena_module(val) or hasattr(val, n.args[1].value):
                continue
            kind = "hasattr" if n.func.id == "hasattr" else ("getattr3" if len(n.args) == 3 else "getattr2")
            out.append({"kind": "AttributeError", "name": n.args[1].value, "on": val.__name__, "root": root,
                        "line": n.lineno, "probe": kind, "repairs": id(n) in lazy})
    return out


def import_state_tests(fnode, g, free=()):
    """`"lena.x" in sys.modules`, `sys.modules.get("lena.x")`, `sys.modules["lena.x"]`: questions about what has
    been imported, with their answer in this interpreter"""
    import ast
    out = []
    if g.get("sys") is not sys:
        return out
    loc = local_names(fnode) | set(free)
    if "sys" in loc:
        return out
    lazy = lazy_import_tests(fnode)

    def is_sys_modules(x):
        return isinstance(x, ast.Attribute) and x.attr == "modules" and isinstance(x.value, ast.Name) and x.value.id == "sys"

    def lena_const(x):
        return isinstance(x, ast.Constant) and isinstance(x.value, str) and (x.value == "lena" or x.value.startswith("lena."))
    for n in own_nodes(fnode):
        name = None
        if isinstance(n, ast.Compare) and len(n.ops) == 1 and isinstance(n.ops[0], (ast.In, ast.NotIn)) \
                and is_sys_modules(n.comparators[0]) and lena_const(n.left):
            name = n.left.value
        elif isinstance(n, ast.Subscript) and is_sys_modules(n.value) and lena_const(n.slice) \
                and isinstance(n.ctx, ast.Load):
            name = n.slice.value
        elif isinstance(n, ast.Call) and isinstance(n.func, ast.Attribute) and n.func.attr in ("get", "__contains__") \
                and is_sys_modules(n.func.value) and n.args and lena_const(n.args[0]):
            name = n.args[0].value
        if name is not None and id(n) not in lazy:
            out.append({"what": f"{name!r} in sys.modules", "line": n.lineno, "value": name in sys.modules})
    return out


def raised_classes(fnode, g):
    """(line, class object) for every `raise X(...)` / `raise X` of the function where `X` is a name or an attribute
    chain that is not rooted at a local and denotes a class in this interpreter"""
    import ast
    bound = set()
    if not isinstance(fnode, ast.Lambda) or True:
        a = fnode.args
        bound |= {x.arg for x in a.posonlyargs + a.args + a.kwonlyargs} | {x.arg for x in (a.vararg, a.kwarg) if x}
    for n in own_nodes(fnode):
        if isinstance(n, ast.Name) and isinstance(n.ctx, (ast.Store, ast.Del)):
            bound.add(n.id)
        elif isinstance(n, ast.ExceptHandler) and n.name:
            bound.add(n.name)
        elif isinstance(n, (ast.Import, ast.ImportFrom)):
            bound |= {(x.asname or x.name.split(".")[0]) for x in n.names}
    globs = {n_ for n in own_nodes(fnode) if isinstance(n, ast.Global) for n_ in n.names}
    out = []
    for n in own_nodes(fnode):
        if isinstance(n, ast.Raise) and n.exc is not None:
            e = n.exc.func if isinstance(n.exc, ast.Call) else n.exc
            chain = []
            while isinstance(e, ast.Attribute):
                chain.append(e.attr)
                e = e.value
            if not isinstance(e, ast.Name):
                continue
            if e.id in bound and e.id not in globs:
                # `raise v` where the local `v` is bound by nothing but `v = X(...)` / `v = X`: raises X
                if not chain and not isinstance(n.exc, ast.Call):
                    for obj in local_exception_classes(fnode, e.id, bound - globs, g):
                        out.append((n.lineno, obj))
                continue
            obj = g.get(e.id, getattr(builtins, e.id, None))
            for a_ in reversed(chain):
                obj = getattr(obj, a_, None)
            if isinstance(obj, type):
                out.append((n.lineno, obj))
    return out


def local_exception_classes(fnode, var, local, g):
    import ast
    a = fnode.args
    params = {x.arg for x in a.posonlyargs + a.args + a.kwonlyargs} | {x.arg for x in (a.vararg, a.kwarg) if x}
    if var in params:
        return []
    stores = assigns = 0
    values = []
    for n in own_nodes(fnode):
        if isinstance(n, ast.Name) and n.id == var and isinstance(n.ctx, (ast.Store, ast.Del)):
            stores += 1
        elif isinstance(n, ast.ExceptHandler) and n.name == var:
            stores += 1
        elif isinstance(n, (ast.Import, ast.ImportFrom)) and any((x.asname or x.name.split(".")[0]) == var for x in n.names):
            stores += 1
        if isinstance(n, ast.Assign) and len(n.targets) == 1 and isinstance(n.targets[0], ast.Name) and n.targets[0].id == var:
            assigns += 1
            values.append(n.value.func if isinstance(n.value, ast.Call) else n.value)
    if not assigns or stores != assigns:
        return []
    out = []
    for v in values:
        c = chain_of(v)
        if c is None:
            return []
        root, chain = c
        if root in local:
            continue
        obj = g.get(root, getattr(builtins, root, None))
        for a_ in chain:
            obj = getattr(obj, a_, None)
        if isinstance(obj, type):
            out.append(obj)
    return out


def has_imports(code):
    return any(i.opname == "IMPORT_NAME" for i in dis.get_instructions(code))


def describe(v, depth=0):
    """a deterministic description of what a module global is bound to (no addresses): enough to tell that another
    sub-package's import has rebound it or has added to it"""
    if v is None or isinstance(v, (bool, int, float, str, bytes)):
        return type(v).__name__ + ":" + repr(v)[:60]
    if isinstance(v, types.ModuleType):
        return "module:" + v.__name__
    if isinstance(v, (types.FunctionType, types.BuiltinFunctionType, types.MethodType, type)):
        return ("class:" if isinstance(v, type) else "function:") + str(getattr(v, "__module__", "?")) + "." + \
            str(getattr(v, "__qualname__", getattr(v, "__name__", "?")))
    if isinstance(v, (list, tuple, set, frozenset, dict)):
        head = type(v).__name__ + ":" + str(len(v))
        if depth:
            return head
        try:
            items = sorted(describe(x, 1) for x in v) if isinstance(v, (set, frozenset, dict)) else \
                [describe(x, 1) for x in v]
        except Exception:
            items = []
        return head + "[" + ",".join(items[:12]) + "]"
    return "object:" + type(v).__module__ + "." + type(v).__qualname__


def watch_handlers(repo):
    """record, while the sub-packages are imported, every undefined-name failure (NameError, AttributeError on a lena
    module, ImportError for a lena name) that a handler of lena's own import-time code catches: which handlers run
    is part of what `import lena.X` does, and must not depend on what else has been imported"""
    caught = []
    root = os.path.join(os.path.abspath(repo), "lena") + os.sep
    try:
        mon = sys.monitoring
        mon.use_tool_id(4, "c20static")

        def on_handled(code, offset, exc):
            if code.co_filename.startswith(root) and isinstance(exc, (NameError, AttributeError, ImportError)) \
                    and exc_info(exc)["undefined_name"]:
                line = None
                tb = exc.__traceback__
                while tb is not None:
                    if tb.tb_frame.f_code is code:
                        line = tb.tb_lineno
                    tb = tb.tb_next
                caught.append({"file": code.co_filename, "func": code.co_qualname, "line": line,
                               "type": type(exc).__name__, "msg": _ADDR.sub("ADDR", str(exc))[:200]})
        mon.register_callback(4, mon.events.EXCEPTION_HANDLED, on_handled)
        mon.set_events(4, mon.events.EXCEPTION_HANDLED)

        def stop():
            mon.set_events(4, 0)
            mon.free_tool_id(4)
    except Exception:       # an interpreter without sys.monitoring: nothing is recorded
        def stop():
            pass
    return caught, stop


def repairing_handler(path, line, cache={}):
    """does the `try` statement whose body contains `line` have a handler that imports something?"""
    import ast
    if path not in cache:
        try:
            with open(path, "rb") as fh:
                cache[path] = ast.parse(fh.read())
        except Exception:
            cache[path] = None
    tree = cache[path]
    if tree is None or line is None:
        return False
    best = None
    for n in ast.walk(tree):
        if isinstance(n, ast.Try) and n.body and n.body[0].lineno <= line <= max(
                getattr(x, "end_lineno", x.lineno) for x in n.body):
            if best is None or n.body[0].lineno >= best.body[0].lineno:
                best = n
    return best is not None and any(handler_mask(h) & 8 for h in best.handlers)


def static_probe(repo, pkg, subpackages):
    out = {"pkg": pkg, "python": sys.version.split()[0]}
    targets = subpackages if pkg == "all" else [pkg]
    import_caught, stop_watching = watch_handlers(repo)
    try:
        for t in targets:
            __import__(t)
        out["import"] = "ok"
    except BaseException as e:   # noqa
        out["import"] = exc_info(e)
    stop_watching()
    mods = lena_modules()
    by_file = {getattr(m, "__file__", None): n for n, m in mods.items()}
    out["import_caught"] = [{"module": by_file.get(c["file"], c["file"]), "func": c["func"], "line": c["line"],
                             "type": c["type"], "msg": c["msg"]}
                            for c in import_caught if not repairing_handler(c["file"], c["line"])]
    # what the module globals are bound to (compared between the two interpreters of a sub-package by the harness)
    out["state"] = {n: {k: describe(v) for k, v in vars(m).items() if not (k.startswith("__") and k.endswith("__"))}
                    for n, m in mods.items()}
    out["loaded"] = sorted(mods)
    out["ns"] = {n: {k: val_kind(v) for k, v in vars(m).items()} for n, m in mods.items()}
    # star import and __all__ (after the snapshot: what the star import loads is not "imported by import lena.X")
    star = {}
    for t in targets:
        ns = {}
        try:
            exec(f"from {t} import *", ns)
            star[t] = {"ok": True, "names": sorted(k for k in ns if k != "__builtins__")}
        except BaseException as e:   # noqa
            star[t] = {"ok": False, "exc": exc_info(e)}
        m = sys.modules.get(t)
        if m is not None and hasattr(m, "__all__"):
            star[t]["all"] = list(m.__all__)
            star[t]["missing"] = [n for n in m.__all__ if not hasattr(m, n)]
    out["star"] = star
    out["loaded_by_star"] = sorted(set(lena_modules()) - set(mods))
    # the documented exceptions (anchor: lena/core/exceptions.py): do they derive from LenaException?
    excmod = sys.modules.get("lena.core.exceptions")
    root_exc = getattr(excmod, "LenaException", None) if excmod is not None else None
    exc_classes = {}
    wrapped = set()         # the builtin exceptions that a documented lena exception wraps
    if excmod is not None:
        for k, v in vars(excmod).items():
            if isinstance(v, type) and v.__module__ == excmod.__name__:
                exc_classes[k] = bool(root_exc is not None and issubclass(v, root_exc))
                wrapped |= {b for b in v.__bases__ if b.__module__ == "builtins"}
    out["exc_classes"] = exc_classes
    audited = {tuple(a) for a in OPTS.get("audited", [])}
    funcs = {}
    for n, m in sorted(mods.items()):
        f = getattr(m, "__file__", None)
        if not f or not f.endswith(".py"):
            continue
        with open(f, "rb") as fh:
            src = fh.read()
        top = compile(src, f, "exec", dont_inherit=True)
        codes = []
        function_codes(top, codes)
        fnodes = function_nodes(src)
        per = {}
        code_of = {(c.co_qualname, c.co_firstlineno): tuple(c.co_freevars) + tuple(c.co_cellvars) for c in codes}
        for c in codes:
            q = owner_name(c)
            comp = q != c.co_qualname
            if comp:
                # find the owner's entry (the closest enclosing function with that qualname defined before it)
                cands = [k for k in per if k[0] == q and k[1] <= c.co_firstlineno]
                key = max(cands, key=lambda k: k[1]) if cands else (q, c.co_firstlineno)
            else:
                key = (q, c.co_firstlineno)
            ent = per.setdefault(key, {"loads": 0, "problems": [], "forked": False, "greads": [], "gstores": [],
                                       "gdeletes": [], "maybe_unbound": []})
            if has_imports(c):
                ent["forked"] = True
                r, w = os.pipe()
                pid = os.fork()
                if pid == 0:
                    try:
                        os.close(r)
                        res = analyse(c, m, True)
                        os.write(w, json.dumps(res).encode())
                    finally:
                        os._exit(0)
                os.close(w)
                data = b""
                while True:
                    chunk = os.read(r, 65536)
                    if not chunk:
                        break
                    data += chunk
                os.close(r)
                os.waitpid(pid, 0)
                res = json.loads(data.decode()) if data else \
                    {"loads": 0, "problems": [{"kind": "probe-error", "name": "child died"}], "greads": [],
                     "gstores": [], "gdeletes": [], "maybe_unbound": []}
            else:
                res = analyse(c, m, False)
            ent["loads"] += res["loads"]
            ent["problems"].extend(res["problems"])
            try:
                ent.setdefault("dead_fast", []).extend(dead_fast_loads(c))
            except Exception as e:          # never a verdict
                ent["problems"].append({"kind": "probe-error", "name": "dead_fast_loads: " + repr(e)[:120]})
            for k in ("greads", "gstores", "gdeletes", "maybe_unbound"):
                ent[k] = sorted(set(ent[k]) | set(res[k]))
        for (q, line), ent in per.items():
            node = fnodes.get((q, line))
            if node is None:
                continue
            # questions about the import state (source level): hasattr / getattr on a lena module, sys.modules
            free = code_of.get((q, line), ())
            ent["problems"].extend(attribute_probes(node, vars(m), free))
            ent["import_state"] = import_state_tests(node, vars(m), free)
            # a failure inside a `try` whose handler catches it is not a failure of the function; it is a handler
            # that runs in this interpreter
            ent["problems"], ent["caught"] = split_guarded(ent["problems"], guard_ranges(node))
            # `raise` statements that name a class: resolved against the real objects
            if root_exc is not None:
                for rline, obj in raised_classes(node, vars(m)):
                    protocol = q.rsplit(".", 1)[-1] in ("__getattr__", "__setattr__", "__delattr__", "__getattribute__")
                    if obj.__module__ == "builtins":
                        if obj in wrapped and not protocol:
                            ent["problems"].append({"kind": "BuiltinRaise", "name": obj.__name__, "line": rline})
                    elif (obj.__module__ or "").startswith("lena") and not issubclass(obj, root_exc):
                        ent["problems"].append({"kind": "NonLenaRaise", "name": obj.__name__, "line": rline})
            # reads of locals that the compiler cannot prove bound, and nobody has audited
            for var in ent.get("maybe_unbound", []):
                if (n, q, var) not in audited:
                    ent["problems"].append({"kind": "MaybeUnbound", "name": var})
            # reads of locals that are unbound on every path that reaches them: UnboundLocalError, a NameError
            for var, dline in ent.get("dead_fast", []):
                ent["problems"].append({"kind": "DeadLocalLoad", "name": var, "line": dline})
        # a function that deletes a global at call time (`global n; del n`): every function of the module that reads
        # or deletes `n` fails when it is called afterwards -- the deleting function itself when it is called twice
        deleted = {}
        for (q, line), ent in per.items():
            for nm in ent["gdeletes"]:
                deleted.setdefault(nm, q)
        for (q, line), ent in per.items():
            for nm, by in deleted.items():
                if (nm in ent["greads"] or nm in ent["gdeletes"]) and nm in vars(m):
                    ent["problems"].append({"kind": "NameError", "name": nm, "after_call_of": by})
        for (q, line), ent in per.items():
            funcs[f"{n}|{q}|{line}"] = ent
    out["funcs"] = funcs
    return out


# ----------------------------------------------------------------------------------------------------------
# behaviour mode

_ADDR = re.compile(r"(0x|memory:)[0-9a-fA-F]+")


class _Timeout(BaseException):
    pass


def _alarm(signum, frame):
    raise _Timeout()


def summarise(v, depth=0):
    """a deterministic, address-free summary of a result"""
    if depth > 3:
        return "..."
    if isinstance(v, str):
        return repr(_ADDR.sub("ADDR", v))[:80]
    if v is None or isinstance(v, (bool, int)):
        return repr(v)[:60]
    if isinstance(v, float):
        return repr(round(v, 9))
    if isinstance(v, dict):
        items = sorted(((str(k), summarise(x, depth + 1)) for k, x in list(v.items())[:8]))
        return type(v).__name__ + "{" + ",".join(f"{k}:{x}" for k, x in items) + "}"
    if isinstance(v, (tuple, list)):
        return type(v).__name__ + "[" + ",".join(summarise(x, depth + 1) for x in list(v)[:8]) + "]"
    if isinstance(v, types.GeneratorType) or hasattr(v, "__next__"):
        try:
            return "iter[" + ",".join(summarise(x, depth + 1) for x in itertools.islice(v, 4)) + "]"
        except _Timeout:
            raise
        except BaseException as e:   # noqa
            return "iter!" + outcome_exc(e)
    if isinstance(v, type):
        return "class:" + v.__name__
    return "obj:" + type(v).__name__


def outcome_exc(e):
    info = exc_info(e)
    s = "exc:" + info["type"]
    if info["undefined_name"]:
        s += ":UNDEFINED:" + _ADDR.sub("ADDR", info["msg"][:160])
    return s


def attempt(fn, *a, **kw):
    # CPU-time budget (a loaded machine must not change the outcome) plus a generous wall-clock one
    signal.setitimer(signal.ITIMER_VIRTUAL, 2.0)
    signal.setitimer(signal.ITIMER_REAL, 30.0)
    try:
        r = fn(*a, **kw)
        return True, r, _ADDR.sub("ADDR", summarise(r))
    except _Timeout:
        return False, None, "timeout"
    except BaseException as e:   # noqa
        return False, None, outcome_exc(e)
    finally:
        signal.setitimer(signal.ITIMER_VIRTUAL, 0)
        signal.setitimer(signal.ITIMER_REAL, 0)


def _ident(x):
    return x


def _true(x):
    return True


def _raise_key(x):
    raise KeyError(x)


ARGS = [
    (), (0,), (2,), (-1,), ("a",), ("a.b",), ("{{a}}",), ("{{a.b}}_x",), ("",), (None,), ([],), ([0, 1, 2],), ({},),
    ({"a": {"b": 1}},), ((),), (_ident,), (_true,), (2.5,),
    ("a", 1), ("a", _ident), ("a.b", _true), ("a", "{{b}}"), ("a", "b"), (2, 5), (0, 3), ([0, 1, 2], None),
    (_ident, _ident), ({"a": 1}, {"a": 2}), ({"a": {"b": 1}}, "a.b"), ({"a": 1}, "b"), ("x", _ident, "t"),
    (1, 2, 3), ([0, 1], [0, 1]), ("a", "b", "c"), ({"a": 1}, {"b": 2}, 1),
]
KWARGS = [
    ("container=5", (2,), {"container": 5}),
    ("raise_on_missing", ("a", "{{b}}"), {"raise_on_missing": True}),
    ("default", ("a", "{{b}}"), {"default": 0}),
    ("value=True", ("a", "{{b}}"), {"value": True}),
    ("sum_seq", (), {"sum_seq": None}),
    ("bufsize", (_ident,), {"bufsize": 2}),
]
VALUES = [5, (1, {}), (2, {"a": {"b": 3}}), (3, {"variable": {"name": "x"}}), None, (1, 2, 3), "s", ([1, 2], {"a": 1}),
          (1.5, {"output": {"filename": "f"}})]
METHODS = ["__call__", "run", "fill", "compute", "request", "reset", "fill_into", "get_context", "scale", "__repr__",
           "__eq__", "alter_sequence", "flush"]


def exercise_instance(label, obj, res, budget):
    for meth in METHODS:
        f = getattr(type(obj), meth, None)
        if f is None or meth in ("__repr__", "__eq__") and type(obj).__module__.startswith("builtins"):
            continue
        bound = getattr(obj, meth, None)
        if not callable(bound):
            continue
        if meth in ("__call__", "fill", "scale", "get_context", "alter_sequence"):
            for k, v in enumerate(VALUES):
                if budget[0] <= 0:
                    return
                budget[0] -= 1
                res[f"{label}.{meth}(v{k})"] = attempt(bound, v)[2]
        elif meth == "run":
            for k, flow in enumerate(([], [VALUES[1], VALUES[2]], [5, 6, 7], [VALUES[3], VALUES[0]], VALUES)):
                if budget[0] <= 0:
                    return
                budget[0] -= 1
                res[f"{label}.run(f{k})"] = attempt(lambda fl=flow: list(itertools.islice(bound(iter(fl)), 6)))[2]
        elif meth == "fill_into":
            class _Sink:
                def fill(self, v):
                    pass
            budget[0] -= 1
            res[f"{label}.fill_into"] = attempt(bound, _Sink(), VALUES[1])[2]
        elif meth == "__eq__":
            budget[0] -= 1
            res[f"{label}.__eq__"] = attempt(bound, 5)[2]
        elif meth in ("compute", "request"):
            budget[0] -= 1
            res[f"{label}.{meth}()"] = attempt(lambda: list(itertools.islice(bound(), 6)))[2]
        else:
            budget[0] -= 1
            res[f"{label}.{meth}()"] = attempt(bound)[2]
    # every other public method that can be called without arguments (drop_cache, cache_exists, ...): last, so that
    # what they do to the instance cannot change the outcomes above
    import inspect
    for meth in sorted(n for n in dir(type(obj)) if not n.startswith("_") and n not in METHODS):
        if not type(obj).__module__.startswith("lena") or budget[0] <= 0:
            break
        bound = getattr(obj, meth, None)
        if not inspect.ismethod(bound):
            continue
        try:
            pars = list(inspect.signature(bound).parameters.values())
        except (TypeError, ValueError):
            continue
        if any(q.default is q.empty and q.kind in (q.POSITIONAL_ONLY, q.POSITIONAL_OR_KEYWORD, q.KEYWORD_ONLY)
               for q in pars):
            continue
        budget[0] -= 1
        res[f"{label}.{meth}()"] = attempt(bound)[2]


ATOMS = [0, 1, 2, -1, 3, 2.5, "a", "a.b", "x", "b.c.d", "{{a}}", "{{a.b}}", "", None, True, False, [], [0, 1, 2],
         [1, 2, 3, 4], {}, {"a": 1}, {"a": {"b": 1}}, {"variable": {"name": "x"}}, (), (1, {}), (1, {"a": {"b": 2}}),
         _ident, _true, _raise_key, int, list, "recreate", [(0, 1), (1, 2)], [[0, 1], [0, 1]]]
RANDOM = {"n": 0, "seed": 0}


def random_calls(name):
    import random
    rng = random.Random(f"{RANDOM['seed']}:{name}")
    out = []
    for k in range(RANDOM["n"]):
        a = tuple(rng.choice(ATOMS) for _ in range(rng.choice([0, 1, 1, 2, 2, 3, 4])))
        out.append((f"r{k}", a, {}))
    return out


def exercise(pkgmod, name, extra_instances):
    res = {}
    try:
        obj = getattr(pkgmod, name)
    except BaseException as e:   # noqa
        return {f"getattr({name})": outcome_exc(e)}
    res["kind"] = "class" if isinstance(obj, type) else ("callable" if callable(obj) else "value:" + summarise(obj))
    if not callable(obj):
        return res
    budget = [400]
    built = 0
    calls = [(f"a{k}", a, {}) for k, a in enumerate(ARGS)] + KWARGS + random_calls(name)
    if RANDOM["n"]:
        budget[0] = 1500
    # elements as arguments of other elements
    for k, inst in enumerate(extra_instances[:4]):
        calls.append((f"el{k}", (inst,), {}))
        calls.append((f"el{k}x2", (inst, inst), {}))
    for lab, a, kw in calls:
        ok, r, summ = attempt(obj, *a, **kw)
        res[f"{name}({lab})"] = summ
        if ok and isinstance(obj, type) and isinstance(r, obj) and built < (20 if RANDOM["n"] else 6) \
                and not isinstance(r, BaseException):
            built += 1
            exercise_instance(f"{name}({lab})", r, res, budget)
        elif ok and not isinstance(obj, type) and built < 3 and r is not None and \
                type(r).__module__.startswith("lena") and not isinstance(r, BaseException):
            built += 1
            exercise_instance(f"{name}({lab})->", r, res, budget)
    return res


def behaviour_probe(repo, pkg, full, subpackages):
    import shutil
    import tempfile
    tmp = tempfile.mkdtemp(prefix="c20probe")
    os.chdir(tmp)
    # the environment of the file-system elements: one of the palette's names exists as a DIRECTORY (a path that
    # exists, is readable and can neither be opened as a file nor removed with os.remove)
    os.mkdir(os.path.join(tmp, "a.b"))
    signal.signal(signal.SIGALRM, _alarm)
    signal.signal(signal.SIGVTALRM, _alarm)
    out = {"pkg": pkg, "full": full}
    # which functions of the tree the exercise enters (sys.monitoring, one event per code object)
    entered = set()
    root = os.path.join(os.path.abspath(repo), "lena") + os.sep
    try:
        mon = sys.monitoring
        mon.use_tool_id(3, "c20probe")

        def on_start(code, offset):
            if code.co_filename.startswith(root):
                entered.add(f"{code.co_filename[len(root):]}|{code.co_qualname}|{code.co_firstlineno}")
            return mon.DISABLE
        mon.register_callback(3, mon.events.PY_START, on_start)
        mon.set_events(3, mon.events.PY_START)
    except Exception:
        mon = None
    real_stdout = sys.stdout
    sys.stdout = io.StringIO()
    sys.stderr = io.StringIO()
    try:
        if full:
            for t in subpackages:
                __import__(t)
        pkgmod = __import__(pkg, fromlist=["x"])
        out["loaded_subpackages"] = sorted(n for n in lena_modules() if n.count(".") == 1)
        names = getattr(pkgmod, "__all__", None)
        if names is None:
            names = [n for n, v in vars(pkgmod).items() if not n.startswith("_") and not isinstance(v, types.ModuleType)]
        # a few simple elements of the package itself, used as arguments of other elements
        extras = []
        for n in sorted(set(names)):
            o = getattr(pkgmod, n, None)
            if isinstance(o, type) and not issubclass(o, BaseException):
                ok, r, _ = attempt(o)
                if ok:
                    extras.append(r)
        res = {}
        for n in sorted(set(names)):
            # every public name in its own copy of the freshly imported interpreter (fork): what one element
            # imports at call time must not help the next one
            r, w = os.pipe()
            pid = os.fork()
            if pid == 0:
                try:
                    os.close(r)
                    try:
                        one = exercise(pkgmod, n, extras)
                    except BaseException as e:   # noqa
                        one = {"fatal": outcome_exc(e)}
                    one["__entered__"] = sorted(entered)
                    with os.fdopen(w, "w") as fh:
                        fh.write(json.dumps(one))
                finally:
                    os._exit(0)
            os.close(w)
            with os.fdopen(r) as fh:
                data = fh.read()
            os.waitpid(pid, 0)
            res[n] = json.loads(data) if data else {"fatal": "child died"}
            entered.update(res[n].pop("__entered__", []))
        out["results"] = res
        out["entered"] = sorted(entered)
    except BaseException as e:   # noqa
        out["fatal"] = exc_info(e)
    finally:
        sys.stdout = real_stdout
        os.chdir("/")
        shutil.rmtree(tmp, ignore_errors=True)
    return out


def main():
    try:        # a mutated implementation must not take the machine down
        import resource
        soft, hard = resource.getrlimit(resource.RLIMIT_AS)
        cap = 6 << 30
        if hard == resource.RLIM_INFINITY or cap < hard:
            resource.setrlimit(resource.RLIMIT_AS, (cap, hard))
    except Exception:
        pass
    repo, mode, pkg = sys.argv[1], sys.argv[2], sys.argv[3]
    sys.path.insert(0, repo)
    subpackages = json.loads(sys.argv[4])
    if len(sys.argv) > 5:
        opts = json.loads(sys.argv[5])
        OPTS.update(opts)
        RANDOM.update({k: v for k, v in opts.items() if k in RANDOM})
        # the environment: third-party modules that cannot be imported (what tests/output/test_missing_jinja2.py does)
        for name in opts.get("absent", []):
            sys.modules[name] = None
    if mode == "static":
        out = static_probe(repo, pkg, subpackages)
    else:
        out = behaviour_probe(repo, pkg, mode == "behaviour-full", subpackages)
    sys.stdout.write(json.dumps(out))
    sys.stdout.flush()


if __name__ == "__main__":
    main()
