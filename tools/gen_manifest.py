#!/usr/bin/env python3
"""Regenerate /verif/MANIFEST.json from the property modules (harness/props/cXX.py) and tools/not_applicable.json."""
import importlib
import json
import sys
from pathlib import Path

VERIF = Path(__file__).resolve().parent.parent
sys.path.insert(0, str(VERIF))
props = [json.loads(l) for l in (VERIF / "properties.jsonl").read_text().splitlines() if l.strip()]
na_file = VERIF / "tools" / "not_applicable.json"
na = json.loads(na_file.read_text()) if na_file.exists() else {}
# only checks the coordinator has reviewed and found green are claimed
ready = set(json.loads((VERIF / "tools" / "ready.json").read_text()))
checks, not_app = [], []
for p in props:
    pid = p["id"]
    f = VERIF / "harness" / "props" / f"{pid.lower()}.py"
    if not f.exists() or pid in na or pid not in ready:
        not_app.append({"property_id": pid, "reason": na.get(pid, "check not built yet in this session (planned: DESIGN.md section 3)")})
        continue
    src = f.read_text()
    def grab(name, default=""):
        # evaluate only the constant assignments, without importing lena
        ns = {}
        import ast
        tree = ast.parse(src)
        for node in tree.body:
            if isinstance(node, ast.Assign) and len(node.targets) == 1 and getattr(node.targets[0], "id", None) == name:
                return ast.literal_eval(node.value)
        return default
    checks.append({
        "property_id": pid,
        "quick_cmd": f"./check {pid} --tier quick",
        "thorough_cmd": f"./check {pid} --tier thorough",
        "evidence_file": f"/verif/evidence/{pid}.json",
        "replay_cmd_template": f"./check {pid} --replay {{path}}",
        "engine": "lean4-model+correspondence",
        "level_claimed": {"category": "proof", "text": grab("LEVEL_TEXT"), "design_ref": grab("DESIGN_REF", "DESIGN.md section 3")},
        "level_note": grab("LEVEL_NOTE"),
        "technique": grab("TECHNIQUE", "Lean 4 proof over hand-written model + correspondence check"),
    })
manifest = {
    "version": 1,
    "setup_cmd": "cd /verif && ./setup.sh",
    "hooks": {
        "guard": "LENA_VERIF",
        "enable": "no hooks: all observation is external (the harness imports lena from /repo's working tree); LENA_VERIF is reserved and unused",
        "baseline_off_cmd": "cd /repo && /venv/bin/python -m pytest -ra -q -p no:cacheprovider --timeout=900 --continue-on-collection-errors",
        "source_commits": [],
        "add_only": True,
    },
    "engines": [{
        "name": "lean4-model+correspondence",
        "path": "/verif/lean, /verif/harness",
        "serves_properties": [c["property_id"] for c in checks],
        "kind_free_text": "Lean 4 (4.33.0) theorems over executable models of the lena code; Python harness runs the real code and the "
                          "model driver on the same cases (line protocol) and evaluates the property directly on the real code; "
                          "bridge theorems (lean/LenaModel/Bridge, harness/bridges.json) relate the independent transcriptions of the "
                          "same Python code in different property models; C20's model data are regenerated from /repo by a translator "
                          "(harness/extract_facts.py) on every run",
    }],
    "checks": checks,
    "not_applicable": not_app,
    "notes": "See DESIGN.md. Genuine defects repaired by 'fix:' commits in /repo are listed in known_findings.json (fixed entries suppress nothing).",
}
(VERIF / "MANIFEST.json").write_text(json.dumps(manifest, indent=1) + "\n")
print(f"{len(checks)} checks, {len(not_app)} not claimed")
