#!/usr/bin/env python3
"""Regenerate lean/LenaModel.lean: the root import list = every module under lean/LenaModel/ (except the Alt files
that a C20 run against another tree generates).  Keeps the header comment of the existing file."""
from pathlib import Path
L = Path(__file__).resolve().parent.parent / "lean"
root = L / "LenaModel.lean"
old = root.read_text().splitlines()
tail = [l for l in old if not l.startswith("import ")]
mods = sorted(str(p.relative_to(L))[:-5].replace("/", ".") for p in (L / "LenaModel").rglob("*.lean") if not p.stem.endswith("Alt"))
root.write_text("\n".join(f"import {m}" for m in mods) + "\n" + "\n".join(tail).rstrip("\n") + "\n")
print(len(mods), "modules")
