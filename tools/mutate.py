#!/usr/bin/env python3
"""Systematic mutation run: how many small syntactic changes of the anchored source does each check notice?

For a property PID: enumerate single-point mutants of the functions in the files the property is anchored in
(properties.jsonl anchors.files), sample them (spread over the functions), keep those with which lena's own
test-suite still passes (the only changes the task is about), and run `./check PID --tier quick` with LENA_REPO
pointing at the mutated scratch tree.  Results: out/mutation/<PID>.json (one record per mutant: file, line,
kind, before/after text, tests, check exit, VIOLATION lines) and a one-line summary.

A surviving mutant (tests pass, check exit 0) is not necessarily a hole: it may be equivalent, or may change
behaviour the property does not speak about.  Survivors are triaged by hand/agents (DESIGN 9.6).

usage: tools/mutate.py [--per-prop 30] [--max-tries 150] [--jobs 8] [--seed 0] PID ...
"""
import argparse
import ast
import json
import os
import random
import shutil
import subprocess
import sys
import time
from concurrent.futures import ThreadPoolExecutor
from pathlib import Path

VERIF = Path(__file__).resolve().parent.parent
PY = "/venv/bin/python"
OUT = VERIF / "out" / "mutation"

CMP = {ast.Lt: ("<", ["<="]), ast.LtE: ("<=", ["<"]), ast.Gt: (">", [">="]), ast.GtE: (">=", [">"]),
       ast.Eq: ("==", ["!="]), ast.NotEq: ("!=", ["=="]), ast.Is: ("is", ["is not"]), ast.IsNot: ("is not", ["is"]),
       ast.In: ("in", ["not in"]), ast.NotIn: ("not in", ["in"])}
BIN = {ast.Add: ("+", ["-"]), ast.Sub: ("-", ["+"]), ast.Mult: ("*", ["/"]), ast.Div: ("/", ["*"]),
       ast.FloorDiv: ("//", ["/"]), ast.Mod: ("%", ["//"])}


def anchored_files(pid):
    for l in (VERIF / "properties.jsonl").read_text().splitlines():
        if l.strip():
            d = json.loads(l)
            if d["id"] == pid:
                return [f for f in d.get("anchors", {}).get("files", []) if f.endswith(".py")]
    return []


class Src:
    def __init__(self, text):
        self.text = text
        self.lines = text.splitlines(keepends=True)
        self.off = [0]
        for l in self.lines:
            self.off.append(self.off[-1] + len(l.encode()))
        self.bytes = text.encode()

    def pos(self, lineno, col):
        return self.off[lineno - 1] + col

    def seg(self, a, b):
        return self.bytes[a:b].decode()

    def replace(self, a, b, new):
        return (self.bytes[:a] + new.encode() + self.bytes[b:]).decode()


def span(src, node):
    return src.pos(node.lineno, node.col_offset), src.pos(node.end_lineno, node.end_col_offset)


def mutants_of(text):
    """yield (qualname, lineno, kind, before, after, new_text)"""
    src = Src(text)
    tree = ast.parse(text)
    out = []

    def between(l, r, old, new, q, kind):
        a = span(src, l)[1]
        b = span(src, r)[0]
        s = src.seg(a, b)
        if "#" in s:
            return
        i = s.find(old)
        if i < 0:
            return
        j = a + len(s[:i].encode())
        out.append((q, l.end_lineno, kind, old, new, src.replace(j, j + len(old.encode()), new)))

    def visit_fn(fn, q):
        doc = fn.body[0] if fn.body and isinstance(fn.body[0], ast.Expr) and isinstance(getattr(fn.body[0], "value", None), ast.Constant) \
            and isinstance(fn.body[0].value.value, str) else None
        for node in ast.walk(fn):
            if node is fn or node is doc or (doc is not None and node is doc.value):
                continue
            if isinstance(node, (ast.FunctionDef, ast.AsyncFunctionDef, ast.ClassDef)) and node is not fn:
                continue   # nested definitions are visited on their own (their bodies are still walked here; fine)
            if isinstance(node, ast.Compare) and len(node.ops) == 1 and type(node.ops[0]) in CMP:
                old, news = CMP[type(node.ops[0])]
                for new in news:
                    between(node.left, node.comparators[0], old, new, q, "cmp")
            elif isinstance(node, ast.BinOp) and type(node.op) in BIN:
                if isinstance(node.left, ast.Constant) and isinstance(node.left.value, str):
                    continue   # string formatting / concatenation of messages
                old, news = BIN[type(node.op)]
                for new in news:
                    between(node.left, node.right, old, new, q, "binop")
            elif isinstance(node, ast.BoolOp):
                old, new = ("and", "or") if isinstance(node.op, ast.And) else ("or", "and")
                between(node.values[0], node.values[1], old, new, q, "boolop")
            elif isinstance(node, ast.UnaryOp) and isinstance(node.op, ast.Not):
                a, b = span(src, node)
                oa, ob = span(src, node.operand)
                out.append((q, node.lineno, "not-drop", src.seg(a, b), src.seg(oa, ob), src.replace(a, b, "(" + src.seg(oa, ob) + ")")))
            elif isinstance(node, ast.Constant) and type(node.value) is int and not isinstance(node.value, bool):
                a, b = span(src, node)
                for new in (node.value + 1, node.value - 1):
                    out.append((q, node.lineno, "int", src.seg(a, b), str(new), src.replace(a, b, "(" + str(new) + ")")))
            elif isinstance(node, ast.Constant) and isinstance(node.value, bool):
                a, b = span(src, node)
                out.append((q, node.lineno, "bool", src.seg(a, b), str(not node.value), src.replace(a, b, str(not node.value))))
            elif isinstance(node, (ast.If, ast.While)) or isinstance(node, ast.IfExp):
                a, b = span(src, node.test)
                out.append((q, node.lineno, "cond-neg", src.seg(a, b), "not (...)", src.replace(a, b, "(not (" + src.seg(a, b) + "))")))
            elif isinstance(node, ast.Call):
                f = node.func
                name = f.attr if isinstance(f, ast.Attribute) else getattr(f, "id", "")
                if name in ("deepcopy", "copy") and len(node.args) == 1 and not node.keywords:
                    a, b = span(src, node)
                    aa, ab = span(src, node.args[0])
                    out.append((q, node.lineno, "copy-drop", src.seg(a, b), src.seg(aa, ab), src.replace(a, b, src.seg(aa, ab))))
                elif name == "deepcopy" and len(node.args) == 1:
                    pass
            if isinstance(node, ast.Call) and isinstance(node.func, ast.Attribute) and node.func.attr == "copy" and not node.args:
                a, b = span(src, node)
                oa, ob = span(src, node.func.value)
                out.append((q, node.lineno, "copy-drop", src.seg(a, b), src.seg(oa, ob), src.replace(a, b, src.seg(oa, ob))))
            if isinstance(node, (ast.Break, ast.Continue)):
                a, b = span(src, node)
                new = "continue" if isinstance(node, ast.Break) else "break"
                out.append((q, node.lineno, "loopctl", src.seg(a, b), new, src.replace(a, b, new)))
            if isinstance(node, (ast.Expr, ast.Assign, ast.AugAssign)) and node.lineno == node.end_lineno:
                if isinstance(node, ast.Expr) and isinstance(node.value, ast.Constant):
                    continue
                a, b = span(src, node)
                if isinstance(node, ast.Expr) and isinstance(node.value, (ast.Yield, ast.YieldFrom)):
                    kind = "yield-del"
                elif isinstance(node, ast.Assign):
                    # deleting a first assignment mostly gives NameError (caught by tests): only attribute/subscript targets
                    if not all(isinstance(t, (ast.Attribute, ast.Subscript)) for t in node.targets):
                        continue
                    kind = "assign-del"
                else:
                    kind = "stmt-del"
                out.append((q, node.lineno, kind, src.seg(a, b), "pass", src.replace(a, b, "pass")))
            if isinstance(node, ast.Slice):
                for part, nm in ((node.lower, "lower"), (node.upper, "upper")):
                    if part is not None and not isinstance(part, ast.Constant):
                        a, b = span(src, part)
                        out.append((q, part.lineno, "slice", src.seg(a, b), "+1", src.replace(a, b, "(" + src.seg(a, b) + ") + 1")))
            if isinstance(node, ast.Return) and node.value is not None and isinstance(node.value, (ast.Name, ast.Attribute)):
                pass

    def visit(node, prefix):
        for ch in ast.iter_child_nodes(node):
            if isinstance(ch, (ast.FunctionDef, ast.AsyncFunctionDef)):
                visit_fn(ch, prefix + ch.name)
                visit(ch, prefix + ch.name + ".")
            elif isinstance(ch, ast.ClassDef):
                visit(ch, prefix + ch.name + ".")
    visit(tree, "")
    seen = set()
    res = []
    for m in out:
        if m[5] in seen or m[5] == text:
            continue
        try:
            ast.parse(m[5])
        except SyntaxError:
            continue
        seen.add(m[5])
        res.append(m)
    return res


def sh(cmd, **kw):
    return subprocess.run(cmd, capture_output=True, text=True, **kw)


def evaluate(job):
    pid, idx, rel, q, line, kind, before, after, new_text = job
    wt = Path(f"/tmp/mutant_{pid}_{idx}_{os.getpid()}")
    rec = {"property": pid, "idx": idx, "file": rel, "function": q, "line": line, "kind": kind, "before": before, "after": after}
    sh(["git", "-C", "/repo", "worktree", "add", "-q", "--detach", str(wt), "HEAD"])
    try:
        (wt / rel).write_text(new_text)
        env = dict(os.environ, PYTHONPATH=str(wt), PYTHONWARNINGS="ignore", PYTHONDONTWRITEBYTECODE="1")
        try:
            r = sh([PY, "-m", "pytest", "-q", "-x", "-p", "no:cacheprovider", "--timeout=120"], env=env, cwd=wt, timeout=600)
            rec["tests"] = (r.stdout.strip().splitlines() or ["?"])[-1]
        except subprocess.TimeoutExpired:
            rec["tests"] = "timeout"
        rec["tests_pass"] = "153 passed" in rec["tests"] and "failed" not in rec["tests"] and "error" not in rec["tests"]
        if not rec["tests_pass"]:
            return rec
        rec["diff"] = sh(["git", "-C", str(wt), "diff"]).stdout
        t0 = time.time()
        env2 = dict(os.environ, LENA_REPO=str(wt), VERIF_JOBS=os.environ.get("VERIF_JOBS", "2"))
        try:
            r = sh([str(VERIF / "check"), pid, "--tier", "quick"], env=env2, cwd=VERIF, timeout=2400)
            rec["check_exit"] = r.returncode
            rec["violation_lines"] = [l for l in r.stdout.splitlines() if l.startswith("VIOLATION")][:3]
            if r.returncode not in (0, 1):
                rec["stderr_tail"] = r.stderr[-800:]
        except subprocess.TimeoutExpired:
            rec["check_exit"] = "timeout"
        rec["check_wall_s"] = round(time.time() - t0, 1)
    finally:
        sh(["git", "-C", "/repo", "worktree", "remove", "--force", str(wt)])
        shutil.rmtree(wt, ignore_errors=True)
    return rec


def main():
    ap = argparse.ArgumentParser()
    ap.add_argument("--per-prop", type=int, default=30, help="mutants (passing the test-suite) to run the check against")
    ap.add_argument("--max-tries", type=int, default=120, help="mutants to try at most per property")
    ap.add_argument("--jobs", type=int, default=8)
    ap.add_argument("--seed", type=int, default=0)
    ap.add_argument("--list", action="store_true")
    ap.add_argument("--all-lines", action="store_true", help="also mutate lines the check's cases never execute (default: only lines "
                    "covered according to evidence/<PID>.json coverage.impl_line_coverage)")
    ap.add_argument("ids", nargs="+")
    a = ap.parse_args()
    OUT.mkdir(parents=True, exist_ok=True)
    for pid in a.ids:
        rng = random.Random(f"{pid}:{a.seed}")
        ms = []
        cov = {}
        if not a.all_lines:
            try:
                cov = json.loads((VERIF / "evidence" / f"{pid}.json").read_text())["coverage"]["impl_line_coverage"]
            except Exception:
                cov = {}
        n_uncovered = 0
        for rel in anchored_files(pid):
            p = Path("/repo") / rel
            if p.exists():
                c = cov.get(rel) if isinstance(cov.get(rel), dict) else None
                not_entered = set(c.get("functions_not_entered", [])) if c else set()
                unc = set()
                for ls in (c.get("functions_partially_covered", {}) if c else {}).values():
                    unc.update(ls)
                for (q, line, kind, before, after, new_text) in mutants_of(p.read_text()):
                    if c is not None and (q in not_entered or line in unc or any(q.startswith(f + ".") for f in not_entered)):
                        n_uncovered += 1
                        continue
                    ms.append((rel, q, line, kind, before, after, new_text))
        if n_uncovered:
            print(f"{pid}: {n_uncovered} mutants on lines the check never executes are left out (coverage gaps are listed in the evidence)", flush=True)
        # spread over functions: round-robin over (file, function) groups in random order
        groups = {}
        for m in ms:
            groups.setdefault((m[0], m[1]), []).append(m)
        for g in groups.values():
            rng.shuffle(g)
        keys = sorted(groups)
        rng.shuffle(keys)
        order = []
        while any(groups.values()):
            for k in keys:
                if groups[k]:
                    order.append(groups[k].pop())
        print(f"{pid}: {len(ms)} mutants in {len(keys)} functions of {len(anchored_files(pid))} files", flush=True)
        if a.list:
            for m in order[:a.max_tries]:
                print("  ", m[0], m[1], m[2], m[3], repr(m[4]), "->", repr(m[5]))
            continue
        order = order[:a.max_tries]
        recs = []
        kept = 0
        t0 = time.time()
        with ThreadPoolExecutor(a.jobs) as ex:
            # in waves, so that we stop once enough test-passing mutants have been checked
            i = 0
            while i < len(order) and kept < a.per_prop:
                wave = order[i:i + a.jobs * 2]
                jobs = [(pid, i + k) + m for k, m in enumerate(wave)]
                i += len(wave)
                for rec in ex.map(evaluate, jobs):
                    recs.append(rec)
                    if rec.get("tests_pass"):
                        kept += 1
                        print(f"  {pid}#{rec['idx']} {rec['file']}:{rec['line']} {rec['function']} {rec['kind']} {rec['before']!r}->{rec['after']!r} "
                              f"check={rec.get('check_exit')} {rec.get('check_wall_s')}s {'; '.join(rec.get('violation_lines', []))[:100]}", flush=True)
        passing = [r for r in recs if r.get("tests_pass")]
        det = [r for r in passing if r.get("check_exit") == 1]
        surv = [r for r in passing if r.get("check_exit") == 0]
        other = [r for r in passing if r.get("check_exit") not in (0, 1)]
        summary = {"property": pid, "seed": a.seed, "tried": len(recs), "killed_by_tests": len(recs) - len(passing), "passing_tests": len(passing),
                   "detected": len(det), "with_failing_input": sum(1 for r in det if not all("no-failing-input-found" in l for l in r["violation_lines"])),
                   "survived": len(surv), "harness_error_or_timeout": len(other), "wall_s": round(time.time() - t0)}
        (OUT / f"{pid}_seed{a.seed}.json").write_text(json.dumps({"summary": summary, "mutants": recs}, indent=1))
        print("SUMMARY", json.dumps(summary), flush=True)


if __name__ == "__main__":
    main()
