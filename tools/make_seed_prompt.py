#!/usr/bin/env python3
"""tools/make_seed_prompt.py PID L1 L2 : create worktree /tmp/seed/PID and prompt /tmp/seed/PID.prompt.txt for seeded changes L1, L2"""
import json, subprocess, os, sys
pid, l1, l2 = sys.argv[1:4]
props = {json.loads(l)['id']: json.loads(l) for l in open('/verif/properties.jsonl') if l.strip()}
wt = f"/tmp/seed/{pid}"
if not os.path.exists(wt):
    subprocess.run(["git", "-C", "/repo", "worktree", "add", "-q", "--detach", wt, "HEAD"], check=True)
os.makedirs(f"/tmp/seed/out/{pid}", exist_ok=True)
prev = []
for d in sorted(os.listdir('/verif/seeded')):
    if d.startswith(pid + '-'):
        try:
            m = json.load(open(f'/verif/seeded/{d}/meta.json'))
            prev.append(f"- {m.get('summary','')[:400]}")
        except Exception:
            pass
T = f"""You are given a Python repository, ynikitenko/lena (a pure-Python data-analysis framework of lazy dataflow sequences), as a scratch git worktree at {wt} (python: /venv/bin/python; run the test-suite with `cd {wt} && PYTHONPATH={wt} /venv/bin/python -m pytest -q -p no:cacheprovider --timeout=900`; all 153 tests pass on the unchanged tree; ALWAYS set PYTHONPATH={wt} so that your worktree's lena is imported, and verify with `python -c "import lena; print(lena.__file__)"`). Work ONLY inside {wt} and /tmp/seed/out/{pid}/ . Do not read or touch /verif or /repo.

Here is a semantic property that the library is supposed to satisfy (JSON):

{json.dumps(props[pid], indent=1)}

Your task: produce TWO different, independent, realistic changes (call them {l1} and {l2}) to the library source (under {wt}/lena/, not the tests) that each BREAK this property while the code still imports/compiles and the complete existing test-suite still passes unchanged (153 passed). Think of plausible regressions a maintainer could introduce: an off-by-one in a rarely taken branch, a dropped copy, a wrong condition that matters only for an unusual input, a refactoring that changes behaviour for one combination of options, two cooperating sites that each look fine alone. Each change must need something SPECIFIC to manifest (a particular multi-step sequence of operations, an unusual input or option combination, a particular interleaving or crash point) - not something ordinary use would expose at once, and not something the existing tests catch. {l1} and {l2} should hit different parts of the code the property is anchored in / different sentences of the property.
{("Changes of the following kinds were already made by others; yours must be DIFFERENT from them (other functions / other sentences of the property / other trigger conditions):" + chr(10) + chr(10).join(prev)) if prev else ""}

For each change X in {{{l1}, {l2}}} deliver in /tmp/seed/out/{pid}/ :
  X.diff        - `git diff` of the change against the worktree HEAD (only that change; applies with `git apply` to a clean tree)
  demo_X.py     - a small standalone program (it does `import lena` relying on PYTHONPATH) that exits 0 on the unchanged tree and exits non-zero (assertion failure with a clear message) with the change applied, demonstrating the property violation on a concrete input
  meta_X.json   - {{"property": "{pid}", "summary": "...what was changed...", "needs": "...what specific input/sequence it needs to manifest...", "files": [...], "ran": "...commands you ran and their results (tests with patch, demo with/without patch)..."}}
Procedure per change: edit, run the full test-suite (must be 153 passed), run the demo (must fail), save the diff, `git checkout -- .` (clean tree), run the demo again (must pass). Leave the worktree clean (git status empty) at the end. Final message: a short summary of {l1} and {l2} and the verification results.
"""
open(f"/tmp/seed/{pid}.prompt.txt", "w").write(T)
print("ok", pid, len(prev), "previous")
