#!/usr/bin/env python3
"""Record a repaired defect: tools/add_fixed.py <property> <commit> <what failed>  (documentation only: suppresses nothing)"""
import json, subprocess, sys
from pathlib import Path
f = Path(__file__).resolve().parent.parent / "known_findings.json"
pid, commit, what = sys.argv[1], sys.argv[2], sys.argv[3]
subject = subprocess.run(["git", "-C", "/repo", "log", "-1", "--format=%s", commit], capture_output=True, text=True).stdout.strip()
d = json.loads(f.read_text())
d["fixed"].append({"property": pid, "commit": commit, "subject": subject, "what": what,
                   "line": f"fixed: property={pid} {commit} {what}"})
f.write_text(json.dumps(d, indent=1, ensure_ascii=False) + "\n")
print(d["fixed"][-1]["line"])
