#!/usr/bin/env python3
"""Regenerate the table of the white-box adversary round in DESIGN.md (between ADV-TABLE-BEGIN/END) from
notes/adversary_<PID>/result_<n>.json (written by tools/run_adversary.py)."""
import glob
import json
import re
from pathlib import Path

V = Path(__file__).resolve().parent.parent
rows = ["| property | candidates | valid (demo + 153 tests confirmed) | reported with a failing input | reported as correspondence/proof break only | not reported (judged outside the statement, see notes/adversary_<PID>.md) |",
        "|---|---|---|---|---|---|"]
tot = [0] * 5
for i in range(1, 21):
    pid = "C%02d" % i
    rs = [json.load(open(f)) for f in sorted(glob.glob(str(V / f"notes/adversary_{pid}/result_*.json")))]
    v = [r for r in rs if r.get("valid")]
    c = [len(rs), len(v), sum(1 for r in v if r.get("with_failing_input")),
         sum(1 for r in v if r.get("detected") and not r.get("with_failing_input")),
         sum(1 for r in v if not r.get("detected"))]
    und = [str(r.get("candidate")) for r in v if not r.get("detected")]
    half = [str(r.get("candidate")) for r in v if r.get("detected") and not r.get("with_failing_input")]
    tot = [a + b for a, b in zip(tot, c)]
    rows.append(f"| {pid} | {c[0]} | {c[1]} | {c[2]} | {c[3]}{' (' + ', '.join(half) + ')' if half else ''} | {c[4]}{' (' + ', '.join(und) + ')' if und else ''} |")
rows.append("| **all** | " + " | ".join(f"**{x}**" for x in tot) + " |")
d = V / "DESIGN.md"
s = d.read_text()
s2 = re.sub(r"(<!-- ADV-TABLE-BEGIN -->\n).*?(<!-- ADV-TABLE-END -->)", lambda m: m.group(1) + "\n".join(rows) + "\n" + m.group(2), s, flags=re.S)
d.write_text(s2)
print("\n".join(rows))
