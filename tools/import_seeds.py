#!/usr/bin/env python3
"""Copy finished seeded changes from /tmp/seed/out/<pid>/{A,B}.* into /verif/seeded/<pid>-<X>/ (patch.diff, demo.py, meta.json)."""
import json, shutil, sys
from pathlib import Path
OUT = Path("/tmp/seed/out"); SEEDED = Path("/verif/seeded")
for d in sorted(OUT.iterdir()):
    for x in "ABCDEFGHIJKL":
        if (d / f"{x}.diff").exists() and (d / f"demo_{x}.py").exists() and (d / f"meta_{x}.json").exists():
            t = SEEDED / f"{d.name}-{x}"
            if t.exists():
                continue
            t.mkdir(parents=True)
            shutil.copy(d / f"{x}.diff", t / "patch.diff")
            # demos refer to the agent's worktree path; make them location independent
            src = (d / f"demo_{x}.py").read_text().replace(f"/tmp/seed/{d.name}", ".")
            (t / "demo.py").write_text(src)
            try:
                meta = json.loads((d / f"meta_{x}.json").read_text())
            except Exception as e:
                meta = {"property": d.name, "summary": "meta unreadable: %s" % e}
            meta["property"] = d.name
            meta["origin"] = "independent sub-agent given only the property text and a scratch worktree"
            (t / "meta.json").write_text(json.dumps(meta, indent=1))
            print("imported", t.name)
