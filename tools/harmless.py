#!/usr/bin/env python3
"""False-alarm test: behaviour-preserving rewrites of the anchored source must not make a check raise an alarm.

For a property PID: scratch worktree of /repo; every file the property is anchored in is rewritten by
semantics-preserving AST transformations and `ast.unparse` (comments and layout are lost, line numbers move):
   pass-insert   : a `pass` statement at the start of every function body
   rename-locals : local variables of a function (assigned in it, not parameters, not used by nested
                   functions / global / nonlocal / locals()) get the suffix `_v`
   if-swap       : `if not C: A else: B`  ->  `if C: B else: A`
   loop-else     : nothing (kept as is)
Every definition of the anchored files thereby changes its fingerprint, so the quick tier runs its
escalated (changed-source) path.  lena's test-suite must pass on the rewritten tree (sanity of the
transformation), and `./check PID --tier quick` must exit 0 without a VIOLATION line.

usage: tools/harmless.py [--jobs 4] [PID ...]      results: out/harmless/<PID>.json
"""
import argparse
import ast
import json
import os
import shutil
import subprocess
import sys
import time
from concurrent.futures import ThreadPoolExecutor
from pathlib import Path

VERIF = Path(__file__).resolve().parent.parent
PY = "/venv/bin/python"
OUT = VERIF / "out" / "harmless"


def anchored_files(pid):
    for l in (VERIF / "properties.jsonl").read_text().splitlines():
        if l.strip():
            d = json.loads(l)
            if d["id"] == pid:
                return [f for f in d.get("anchors", {}).get("files", []) if f.endswith(".py")]
    return []


class FnInfo(ast.NodeVisitor):
    """names assigned in this function (not in nested ones) and names used in nested scopes"""

    def __init__(self, fn):
        self.assigned, self.nested_used, self.forbidden = set(), set(), set()
        self.bad = False
        self.fn = fn
        for st in fn.body:
            self.visit(st)

    def visit_Name(self, n):
        if isinstance(n.ctx, (ast.Store, ast.Del)):
            self.assigned.add(n.id)
        if n.id in ("locals", "vars", "eval", "exec"):
            self.bad = True

    def visit_Global(self, n):
        self.forbidden.update(n.names)

    visit_Nonlocal = visit_Global

    def _nested(self, n):
        for sub in ast.walk(n):
            if isinstance(sub, ast.Name):
                self.nested_used.add(sub.id)
            elif isinstance(sub, (ast.Global, ast.Nonlocal)):
                self.nested_used.update(sub.names)
        if isinstance(n, (ast.FunctionDef, ast.AsyncFunctionDef, ast.ClassDef)):
            self.forbidden.add(n.name)

    visit_FunctionDef = visit_AsyncFunctionDef = visit_ClassDef = visit_Lambda = _nested
    # comprehensions have their own scope in Python 3: treat the names they use as nested uses
    visit_ListComp = visit_SetComp = visit_DictComp = visit_GeneratorExp = _nested

    def visit_ExceptHandler(self, n):
        if n.name:
            self.forbidden.add(n.name)
        self.generic_visit(n)

    def visit_Import(self, n):
        for a in n.names:
            self.forbidden.add((a.asname or a.name).split(".")[0])

    visit_ImportFrom = visit_Import


class Renamer(ast.NodeTransformer):
    def __init__(self, names):
        self.names = names

    def visit_Name(self, n):
        if n.id in self.names:
            return ast.copy_location(ast.Name(id=n.id + "_v", ctx=n.ctx), n)
        return n

    def _skip(self, n):
        return n

    visit_FunctionDef = visit_AsyncFunctionDef = visit_ClassDef = visit_Lambda = _skip
    visit_ListComp = visit_SetComp = visit_DictComp = visit_GeneratorExp = _skip


class Rewriter(ast.NodeTransformer):
    def __init__(self):
        self.stats = {"pass-insert": 0, "rename-locals": 0, "if-swap": 0}

    def visit_If(self, n):
        self.generic_visit(n)
        if isinstance(n.test, ast.UnaryOp) and isinstance(n.test.op, ast.Not) and n.orelse \
                and not (len(n.orelse) == 1 and isinstance(n.orelse[0], ast.If)):
            self.stats["if-swap"] += 1
            return ast.copy_location(ast.If(test=n.test.operand, body=n.orelse, orelse=n.body), n)
        return n

    def _fn(self, fn):
        self.generic_visit(fn)
        info = FnInfo(fn)
        params = {a.arg for a in fn.args.posonlyargs + fn.args.args + fn.args.kwonlyargs}
        if fn.args.vararg:
            params.add(fn.args.vararg.arg)
        if fn.args.kwarg:
            params.add(fn.args.kwarg.arg)
        names = set()
        if not info.bad:
            names = {x for x in info.assigned - params - info.nested_used - info.forbidden if not x.startswith("__")}
        if names:
            r = Renamer(names)
            fn.body = [r.visit(st) for st in fn.body]
            self.stats["rename-locals"] += len(names)
        doc = 1 if (fn.body and isinstance(fn.body[0], ast.Expr) and isinstance(getattr(fn.body[0], "value", None), ast.Constant)
                    and isinstance(fn.body[0].value.value, str)) else 0
        fn.body.insert(doc, ast.Pass())
        self.stats["pass-insert"] += 1
        return fn

    visit_FunctionDef = visit_AsyncFunctionDef = _fn


def rewrite(text):
    tree = ast.parse(text)
    rw = Rewriter()
    tree = rw.visit(tree)
    ast.fix_missing_locations(tree)
    return ast.unparse(tree) + "\n", rw.stats


def private_names(root):
    """private attribute names (single leading underscore) that can be renamed consistently in lena/: set as
    `obj._x = ...` or defined as a method / class attribute, never a module-level name, never spelled in a string
    literal in lena/, never used by lena's tests"""
    import re
    defined, module_level, in_strings = set(), set(), set()
    files = sorted((root / "lena").rglob("*.py"))
    for f in files:
        tree = ast.parse(f.read_text())
        for st in tree.body:
            if isinstance(st, (ast.FunctionDef, ast.AsyncFunctionDef, ast.ClassDef)):
                module_level.add(st.name)
            elif isinstance(st, ast.Assign):
                for t in st.targets:
                    if isinstance(t, ast.Name):
                        module_level.add(t.id)
            elif isinstance(st, (ast.Import, ast.ImportFrom)):
                for a in st.names:
                    module_level.add((a.asname or a.name).split(".")[0])
        for n in ast.walk(tree):
            if isinstance(n, ast.Attribute) and isinstance(n.ctx, ast.Store):
                defined.add(n.attr)
            elif isinstance(n, ast.ClassDef):
                for st in n.body:
                    if isinstance(st, (ast.FunctionDef, ast.AsyncFunctionDef)):
                        defined.add(st.name)
                    elif isinstance(st, ast.Assign):
                        for t in st.targets:
                            if isinstance(t, ast.Name):
                                defined.add(t.id)
            elif isinstance(n, ast.Constant) and isinstance(n.value, str):
                in_strings.update(re.findall(r"_[A-Za-z][A-Za-z0-9_]*", n.value))
    used_by_tests = set()
    for f in (root / "tests").rglob("*.py"):
        used_by_tests.update(re.findall(r"\b(_[A-Za-z][A-Za-z0-9_]*)", f.read_text()))
    return {x for x in defined if x.startswith("_") and not x.startswith("__")} - module_level - in_strings - used_by_tests


class PrivateRenamer(ast.NodeTransformer):
    def __init__(self, names):
        self.names, self.n = names, 0
        self.in_class = 0

    def visit_Attribute(self, n):
        self.generic_visit(n)
        if n.attr in self.names:
            n.attr += "_p"
            self.n += 1
        return n

    def visit_ClassDef(self, n):
        for st in n.body:
            if isinstance(st, (ast.FunctionDef, ast.AsyncFunctionDef)) and st.name in self.names:
                st.name += "_p"
                self.n += 1
            elif isinstance(st, ast.Assign):
                for t in st.targets:
                    if isinstance(t, ast.Name) and t.id in self.names:
                        t.id += "_p"
                        self.n += 1
        self.generic_visit(n)
        return n


def rename_private(root):
    names = private_names(root)
    total = 0
    for f in sorted((root / "lena").rglob("*.py")):
        tree = ast.parse(f.read_text())
        r = PrivateRenamer(names)
        tree = r.visit(tree)
        if r.n:
            ast.fix_missing_locations(tree)
            f.write_text(ast.unparse(tree) + "\n")
            total += r.n
    return sorted(names), total


def sh(cmd, **kw):
    return subprocess.run(cmd, capture_output=True, text=True, **kw)


PRIVATE = False


def one(pid):
    wt = Path(f"/tmp/harmless_{pid}_{os.getpid()}")
    res = {"property": pid, "files": {}}
    sh(["git", "-C", "/repo", "worktree", "add", "-q", "--detach", str(wt), "HEAD"])
    try:
        if PRIVATE:
            names, n = rename_private(wt)
            res["private_renamed"] = {"names": len(names), "occurrences": n}
        for rel in anchored_files(pid):
            p = wt / rel
            if p.exists():
                new, stats = rewrite(p.read_text())
                p.write_text(new)
                res["files"][rel] = stats
        env = dict(os.environ, PYTHONPATH=str(wt), PYTHONWARNINGS="ignore", PYTHONDONTWRITEBYTECODE="1")
        r = sh([PY, "-m", "pytest", "-q", "-p", "no:cacheprovider", "--timeout=900"], env=env, cwd=wt, timeout=1800)
        res["tests"] = (r.stdout.strip().splitlines() or ["?"])[-1]
        if "153 passed" not in res["tests"] or "failed" in res["tests"]:
            res["tests_tail"] = r.stdout[-1500:]
        t0 = time.time()
        env2 = dict(os.environ, LENA_REPO=str(wt), VERIF_JOBS=os.environ.get("VERIF_JOBS", "4"))
        try:
            r = sh([str(VERIF / "check"), pid, "--tier", "quick"], env=env2, cwd=VERIF, timeout=3600)
            res["check_exit"] = r.returncode
            res["violation_lines"] = [l for l in r.stdout.splitlines() if l.startswith("VIOLATION")][:5]
            res["check_tail"] = r.stdout.strip().splitlines()[-3:]
            if r.returncode != 0:
                res["stderr_tail"] = r.stderr[-1500:]
                # keep the replay files of a false alarm for diagnosis
        except subprocess.TimeoutExpired:
            res["check_exit"] = "timeout"
        res["check_wall_s"] = round(time.time() - t0, 1)
        res["ok"] = res["check_exit"] == 0 and not res["violation_lines"] and "153 passed" in res["tests"]
    finally:
        sh(["git", "-C", "/repo", "worktree", "remove", "--force", str(wt)])
        shutil.rmtree(wt, ignore_errors=True)
    OUT.mkdir(parents=True, exist_ok=True)
    (OUT / f"{pid}.json").write_text(json.dumps(res, indent=1))
    return res


def main():
    ap = argparse.ArgumentParser()
    ap.add_argument("--jobs", type=int, default=4)
    ap.add_argument("--private", action="store_true", help="additionally rename every private attribute (self._x, methods "
                    "_m) consistently in the whole package (names spelled in strings or used by lena's tests are kept)")
    ap.add_argument("ids", nargs="*")
    a = ap.parse_args()
    global PRIVATE, OUT
    PRIVATE = a.private
    if PRIVATE:
        OUT = VERIF / "out" / "harmless_private"
    ids = a.ids or [json.loads(l)["id"] for l in (VERIF / "properties.jsonl").read_text().splitlines() if l.strip()]
    bad = 0
    with ThreadPoolExecutor(a.jobs) as ex:
        for res in ex.map(one, ids):
            n = {k: sum(s[k] for s in res["files"].values()) for k in ("pass-insert", "rename-locals", "if-swap")}
            print(f"{res['property']} ok={res.get('ok')} rc={res.get('check_exit')} {res.get('check_wall_s')}s tests: {res.get('tests')} rewrites {n} "
                  + "; ".join(res.get("violation_lines", []))[:200], flush=True)
            bad += not res.get("ok")
    return 1 if bad else 0


if __name__ == "__main__":
    sys.exit(main())
