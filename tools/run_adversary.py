#!/usr/bin/env python3
"""Evaluate the white-box adversary candidates in /verif/notes/adversary_<PID>/<n>.diff (+ demo_<n>.py).

For each candidate: scratch worktree of /repo under /tmp; demo on the clean tree (must exit 0); apply the
diff; demo on the changed tree (must exit non-zero); lena's test-suite on the changed tree (must be 153
passed); `./check <PID> --tier quick` with LENA_REPO pointing at the changed tree.  The outcome is written
to notes/adversary_<PID>/result_<n>.json; the worktree is removed.

usage: tools/run_adversary.py [--jobs 4] [--only-missing] [PID[/n] ...]
"""
import argparse
import json
import os
import shutil
import subprocess
import sys
import time
from concurrent.futures import ThreadPoolExecutor
from pathlib import Path

VERIF = Path(__file__).resolve().parent.parent
NOTES = VERIF / "notes"
PY = "/venv/bin/python"


def sh(cmd, **kw):
    return subprocess.run(cmd, capture_output=True, text=True, **kw)


def one(job):
    pid, n = job
    d = NOTES / f"adversary_{pid}"
    diff, demo = d / f"{n}.diff", d / f"demo_{n}.py"
    wt = Path(f"/tmp/adv_{pid}_{n}_{os.getpid()}")
    res = {"property": pid, "candidate": n}
    sh(["git", "-C", "/repo", "worktree", "add", "-q", "--detach", str(wt), "HEAD"])
    try:
        env = dict(os.environ, PYTHONPATH=str(wt), PYTHONWARNINGS="ignore", PYTHONDONTWRITEBYTECODE="1")
        if demo.exists():
            try:
                r = sh([PY, str(demo)], env=env, cwd=wt, timeout=600)
                res["demo_clean_exit"] = r.returncode
            except subprocess.TimeoutExpired:
                res["demo_clean_exit"] = "timeout"
        r = sh(["git", "-C", str(wt), "apply", str(diff)])
        if r.returncode != 0:
            res["error"] = "diff does not apply: " + r.stderr[-400:]
            return res
        if demo.exists():
            try:
                r = sh([PY, str(demo)], env=env, cwd=wt, timeout=600)
                res["demo_changed_exit"] = r.returncode
                res["demo_changed_tail"] = (r.stdout + r.stderr).strip().splitlines()[-3:]
            except subprocess.TimeoutExpired:
                res["demo_changed_exit"] = "timeout"
        try:
            r = sh([PY, "-m", "pytest", "-q", "-p", "no:cacheprovider", "--timeout=900"], env=env, cwd=wt, timeout=1800)
            res["tests"] = (r.stdout.strip().splitlines() or ["?"])[-1]
        except subprocess.TimeoutExpired:
            res["tests"] = "timeout"
        t0 = time.time()
        env2 = dict(os.environ, LENA_REPO=str(wt), VERIF_JOBS=os.environ.get("VERIF_JOBS", "4"))
        try:
            r = sh([str(VERIF / "check"), pid, "--tier", "quick"], env=env2, cwd=VERIF, timeout=3600)
            res["check_exit"] = r.returncode
            res["violation_lines"] = [l for l in r.stdout.splitlines() if l.startswith("VIOLATION")]
            res["check_tail"] = r.stdout.strip().splitlines()[-4:]
            if r.returncode not in (0, 1):
                res["stderr_tail"] = r.stderr[-1500:]
        except subprocess.TimeoutExpired:
            res["check_exit"] = "timeout"
        res["check_wall_s"] = round(time.time() - t0, 1)
        res["valid"] = (res.get("demo_clean_exit") == 0 and res.get("demo_changed_exit") not in (0, None)
                        and "153 passed" in str(res.get("tests")) and "failed" not in str(res.get("tests")))
        res["detected"] = res.get("check_exit") == 1 and bool(res.get("violation_lines"))
        res["with_failing_input"] = res["detected"] and not all("no-failing-input-found" in l for l in res["violation_lines"])
    finally:
        sh(["git", "-C", "/repo", "worktree", "remove", "--force", str(wt)])
        shutil.rmtree(wt, ignore_errors=True)
        (d / f"result_{n}.json").write_text(json.dumps(res, indent=1))
    return res


def main():
    ap = argparse.ArgumentParser()
    ap.add_argument("--jobs", type=int, default=4)
    ap.add_argument("--only-missing", action="store_true")
    ap.add_argument("ids", nargs="*")
    a = ap.parse_args()
    jobs = []
    for d in sorted(NOTES.glob("adversary_C*")):
        if not d.is_dir():
            continue
        pid = d.name.split("_")[1]
        for f in sorted(d.glob("*.diff")):
            n = f.stem
            if a.ids and pid not in a.ids and f"{pid}/{n}" not in a.ids:
                continue
            if a.only_missing and (d / f"result_{n}.json").exists():
                continue
            jobs.append((pid, n))
    with ThreadPoolExecutor(a.jobs) as ex:
        for res in ex.map(one, jobs):
            print(f"{res['property']}/{res['candidate']:4s} valid={res.get('valid')} detected={res.get('detected')} "
                  f"input={res.get('with_failing_input')} rc={res.get('check_exit')} {res.get('check_wall_s')}s "
                  f"demo {res.get('demo_clean_exit')}/{res.get('demo_changed_exit')} tests: {res.get('tests')} {res.get('error', '')}",
                  flush=True)
    return 0


if __name__ == "__main__":
    sys.exit(main())
