#!/usr/bin/env python3
"""Record the fingerprints of the anchored source of every property (anchors/<pid>.json) from /repo as it is now.
Run after the checks were validated (green) against this /repo; commit the result."""
import json, sys
from pathlib import Path
V = Path(__file__).resolve().parent.parent
sys.path.insert(0, str(V))
from harness import common
common.ANCHOR_DIR.mkdir(exist_ok=True)
for l in (V / "properties.jsonl").read_text().splitlines():
    if l.strip():
        pid = json.loads(l)["id"]
        (common.ANCHOR_DIR / f"{pid}.json").write_text(json.dumps(common.source_fingerprints(pid), indent=1, sort_keys=True) + "\n")
        print(pid, sum(len(v) for v in common.source_fingerprints(pid).values()), "definitions")
