#!/usr/bin/env python3
"""Run the registered checks of MANIFEST.json (quick or thorough) for several seeds; print one line per run.
usage: tools/run_all.py [--tier quick] [--seeds 0,1,2] [--jobs 4] [ids...]"""
import argparse, json, os, subprocess, sys, time
from concurrent.futures import ThreadPoolExecutor
from pathlib import Path
VERIF = Path(__file__).resolve().parent.parent
ap = argparse.ArgumentParser()
ap.add_argument("--tier", default="quick"); ap.add_argument("--seeds", default="0"); ap.add_argument("--jobs", type=int, default=3)
ap.add_argument("--all", action="store_true", help="every property that has a harness module, not only the claimed ones")
ap.add_argument("ids", nargs="*")
a = ap.parse_args()
man = json.loads((VERIF / "MANIFEST.json").read_text())
ids = a.ids or ([p.stem.upper() for p in sorted((VERIF / "harness/props").glob("c*.py"))] if a.all else [c["property_id"] for c in man["checks"]])
def run(job):
    pid, seed = job
    t = time.time()
    env = dict(os.environ, VERIF_SEED=str(seed))
    try:
        r = subprocess.run([str(VERIF / "check"), pid, "--tier", a.tier], cwd=VERIF, env=env, capture_output=True, text=True, timeout=7200)
        rc, out = r.returncode, r.stdout.strip().splitlines()
    except subprocess.TimeoutExpired:
        rc, out = "timeout", []
    viol = [l for l in out if l.startswith(("VIOLATION", "KNOWN-FINDING", "HARNESS-ERROR"))]
    last = (out or ['?'])[-1]
    import re as _re
    m = _re.search(r"theorems (\d+/\d+) discharged, (\d+) cases .*?(\d+) disagreements, (\d+) oracle failures, (\d+) known", last)
    brief = f"thm {m.group(1)} cases {m.group(2)} dis {m.group(3)} orc {m.group(4)} known {m.group(5)}" if m else last[:160]
    return f"{pid} seed={seed} rc={rc} {time.time()-t:.0f}s :: {brief}" + "".join("\n    " + v[:160] for v in viol[:5])
with ThreadPoolExecutor(a.jobs) as ex:
    bad = 0
    for line in ex.map(run, [(p, int(s)) for p in ids for s in a.seeds.split(",")]):
        print(line, flush=True)
        bad += " rc=0 " not in line
sys.exit(1 if bad else 0)
