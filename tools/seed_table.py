#!/usr/bin/env python3
"""Regenerate the table of seeded changes in DESIGN.md (between the markers) from seeded/*/meta.json and result.json."""
import json, re
from pathlib import Path
V = Path(__file__).resolve().parent.parent
rows = []
for d in sorted((V / "seeded").iterdir()):
    if not (d / "meta.json").exists():
        continue
    m = json.loads((d / "meta.json").read_text())
    r = json.loads((d / "result.json").read_text()) if (d / "result.json").exists() else {}
    summ = re.sub(r"\s+", " ", str(m.get("summary", "")))[:230].replace("|", "/")
    det = "not run"
    if m.get("obsolete"):
        det = "obsolete on the current tree: " + re.sub(r"\s+", " ", m["obsolete"])[:160]
    elif r:
        det = ("yes, failing input" if r.get("with_failing_input") else "yes, no-failing-input-found") if r.get("detected") else "**missed**"
        det += f" ({r.get('tier','quick')}, {r.get('check_wall_s','?')} s)"
    first = m.get("first_result", "")
    if m.get("rebased"):
        first = (first + "; " if first else "") + "patch rebased: " + re.sub(r"\s+", " ", m["rebased"])[:120]
    rows.append(f"| {d.name} | {summ} | {det}{' — ' + first if first else ''} |")
table = ["| seed | change (as described by its author) | `./check` of its property |", "|---|---|---|"] + rows
p = V / "DESIGN.md"
s = p.read_text()
a, b = "<!-- SEED-TABLE-BEGIN -->", "<!-- SEED-TABLE-END -->"
block = a + "\n" + "\n".join(table) + "\n" + b
if a in s:
    s = s[:s.index(a)] + block + s[s.index(b) + len(b):]
else:
    s += "\n" + block + "\n"
p.write_text(s)
print(len(rows), "seeds;", sum("missed" in r for r in rows), "missed")
