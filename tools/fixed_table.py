#!/usr/bin/env python3
"""Regenerate the table of repaired defects and known findings in DESIGN.md (between markers) from known_findings.json."""
import json, re
from pathlib import Path
V = Path(__file__).resolve().parent.parent
d = json.loads((V / "known_findings.json").read_text())
rows = ["| property | commit | what failed on the tree before the fix |", "|---|---|---|"]
for e in d["fixed"]:
    rows.append(f"| {e['property']} | {e['commit']} | {re.sub(r'[|]', '/', e['what'])[:420]} |")
kn = ["| property | signature | finding |", "|---|---|---|"]
for e in d["known"]:
    what = re.sub(r"[|]", "/", e["what"])[:700]
    kn.append(f"| {e['property']} | `{e['signature']}` | {what} |")
block = ("<!-- FIXED-TABLE-BEGIN -->\n**Repaired defects** (" + str(len(d["fixed"])) + " `fix:` commits in /repo; a `fixed` entry suppresses nothing):\n\n"
         + "\n".join(rows) + "\n\n**Known findings** (genuine defects that cannot be repaired by a small safe patch; the check prints "
         "`KNOWN-FINDING` and exits 0 for exactly this class, any other failure is a VIOLATION):\n\n" + "\n".join(kn) + "\n<!-- FIXED-TABLE-END -->")
p = V / "DESIGN.md"; s = p.read_text()
a, b = "<!-- FIXED-TABLE-BEGIN -->", "<!-- FIXED-TABLE-END -->"
if a in s:
    s = s[:s.index(a)] + block + s[s.index(b) + len(b):]
else:
    s = s.replace("### 9.3 Per-property status and deviations", "### 9.2b All repaired defects and known findings (generated)\n\n" + block + "\n\n### 9.3 Per-property status and deviations", 1)
p.write_text(s)
print(len(d["fixed"]), "fixed,", len(d["known"]), "known")
