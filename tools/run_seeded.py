#!/usr/bin/env python3
"""Run the registered checks against the seeded property-breaking changes in /verif/seeded/<id>/.

For each seeded/<id>/ (patch.diff, demo.py, meta.json): make a scratch worktree of /repo under /tmp,
apply the patch, (optionally) confirm that the test-suite passes and that the demonstration fails with
the patch and passes without, run `./check <property> --tier quick` with LENA_REPO pointing at the
scratch tree, record the outcome in seeded/<id>/result.json, remove the worktree.

usage: tools/run_seeded.py [--confirm] [--tier quick|thorough] [ids...]
"""
import argparse
import json
import os
import shutil
import subprocess
import sys
import time
from pathlib import Path

VERIF = Path(__file__).resolve().parent.parent
SEEDED = VERIF / "seeded"
PY = "/venv/bin/python"


def sh(cmd, **kw):
    return subprocess.run(cmd, capture_output=True, text=True, **kw)


def main():
    ap = argparse.ArgumentParser()
    ap.add_argument("--confirm", action="store_true", help="also run the test-suite and the demo with/without the patch")
    ap.add_argument("--tier", default="quick")
    ap.add_argument("ids", nargs="*")
    a = ap.parse_args()
    ids = a.ids or sorted(p.name for p in SEEDED.iterdir() if (p / "patch.diff").exists())
    summary = []
    for sid in ids:
        d = SEEDED / sid
        meta = json.loads((d / "meta.json").read_text())
        pid = meta["property"]
        if meta.get("obsolete"):
            print(f"{sid:28s} {pid} obsolete: {meta['obsolete'][:120]}")
            continue
        wt = Path(f"/tmp/mut_{sid}_{os.getpid()}")
        sh(["git", "-C", "/repo", "worktree", "add", "-q", "--detach", str(wt), "HEAD"])
        res = {"id": sid, "property": pid, "tier": a.tier}
        try:
            env = dict(os.environ, PYTHONPATH=str(wt), PYTHONWARNINGS="ignore", PYTHONDONTWRITEBYTECODE="1")
            demo = d / "demo.py"
            if a.confirm:
                r = sh([PY, str(demo)], env=env, cwd=wt, timeout=600)
                res["demo_without_patch_exit"] = r.returncode
            r = sh(["git", "-C", str(wt), "apply", str(d / "patch.diff")])
            if r.returncode != 0:
                res["error"] = "patch does not apply: " + r.stderr[-500:]
                summary.append(res)
                continue
            if a.confirm:
                try:
                    r = sh([PY, str(demo)], env=env, cwd=wt, timeout=600)
                    res["demo_with_patch_exit"] = r.returncode
                except subprocess.TimeoutExpired:
                    res["demo_with_patch_exit"] = "timeout"
                r = sh([PY, "-m", "pytest", "-q", "-p", "no:cacheprovider", "--timeout=900"], env=env, cwd=wt)
                res["tests_with_patch"] = (r.stdout.strip().splitlines() or ["?"])[-1]
            t0 = time.time()
            env2 = dict(os.environ, LENA_REPO=str(wt))
            try:
                r = sh([str(VERIF / "check"), pid, "--tier", a.tier], env=env2, cwd=VERIF, timeout=3600)
                res["check_exit"] = r.returncode
                res["violation_lines"] = [l for l in r.stdout.splitlines() if l.startswith("VIOLATION")]
                res["check_tail"] = r.stdout.strip().splitlines()[-6:]
                if r.returncode not in (0, 1):
                    res["stderr_tail"] = r.stderr[-1500:]
            except subprocess.TimeoutExpired:
                res["check_exit"] = "timeout"
            res["check_wall_s"] = round(time.time() - t0, 1)
            res["detected"] = res.get("check_exit") == 1 and bool(res.get("violation_lines"))
            res["with_failing_input"] = res["detected"] and not all("no-failing-input-found" in l for l in res["violation_lines"])
        finally:
            sh(["git", "-C", "/repo", "worktree", "remove", "--force", str(wt)])
            shutil.rmtree(wt, ignore_errors=True)
        (d / "result.json").write_text(json.dumps(res, indent=1))
        summary.append(res)
        print(f"{sid:28s} {pid} detected={res.get('detected')} failing_input={res.get('with_failing_input')} "
              f"exit={res.get('check_exit')} {res.get('check_wall_s')}s "
              + (f"demo {res.get('demo_without_patch_exit')}/{res.get('demo_with_patch_exit')} tests: {res.get('tests_with_patch')}" if a.confirm else ""))
    return 0


if __name__ == "__main__":
    sys.exit(main())
