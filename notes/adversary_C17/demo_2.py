"""Reverse().run(xs) must equal reversed(list(xs)) for every finite flow xs -- a list is a flow.
With the change the caller's list is consumed (emptied) by the run: the comparison with reversed(list(xs)),
a second run over the same data, or two elements reading the same list all go wrong."""
import sys
from lena.flow import Reverse

bad = []
xs = [1, 2, 3, 4]
got = list(Reverse().run(xs))
ref = list(reversed(list(xs)))               # the property's right-hand side, evaluated on the same xs
if got != ref:
    bad.append("list(Reverse().run(xs)) = %r but reversed(list(xs)) = %r (xs is now %r)" % (got, ref, xs))

data = [10, 20, 30]
r = Reverse()
first, second = list(r.run(data)), list(r.run(data))
if first != [30, 20, 10] or second != [30, 20, 10]:
    bad.append("two runs over data=[10, 20, 30]: %r, %r" % (first, second))

# two live runs over one list (e.g. two branches reading the same buffered list)
buf = [1, 2, 3, 4]
g1, g2 = Reverse().run(buf), Reverse().run(buf)
mixed = [next(g1), next(g2), next(g1), next(g2)]
if mixed != [4, 4, 3, 3]:
    bad.append("two runs over one list advanced in turn yield %r, expected [4, 4, 3, 3]" % (mixed,))
if bad:
    print("\n".join(bad)); sys.exit(1)
print("ok")
