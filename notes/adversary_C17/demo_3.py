"""Reverse().run(xs) must equal reversed(list(xs)) for every finite flow (here: more than 1024 values)."""
import sys
from lena.flow import Reverse

bad = []
for n in (0, 5, 1000, 1024, 1025, 3000):
    xs = list(range(n))
    got = list(Reverse().run(iter(xs)))
    if got != list(reversed(xs)):
        bad.append("Reverse on range(%d): first values %r, expected %r" % (n, got[:3], list(reversed(xs))[:3]))
if bad:
    print("\n".join(bad)); sys.exit(1)
print("ok")
