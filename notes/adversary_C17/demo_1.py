"""Chain(*iterables)() must equal itertools.chain(*iterables) -- also when the values of the one iterable are
themselves iterable (lena's usual (data, context) pairs)."""
import itertools, sys
from lena.flow import Chain

bad = []
for its in ([[(1, {"a": 1}), (2, {"b": 2})]],          # one list of (data, context) values
            [((0, 1), (2, 3))],                          # one tuple of pairs
            [[[1, 2], [3]]],                             # one list of lists
            [[(1, {}), (2, {})], [(3, {})]]):            # two iterables (unaffected)
    got = list(Chain(*its)())
    ref = list(itertools.chain(*its))
    if got != ref:
        bad.append("Chain(*%r)() = %r, itertools.chain gives %r" % (its, got, ref))
if bad:
    print("\n".join(bad)); sys.exit(1)
print("ok")
