"""Slice(start, stop, step).fill_into fills exactly xs[start:stop:step] -- for every Slice object, also one obtained
with copy.deepcopy (how lena multiplies a sequence: lena.structures.init_bins(..., deepcopy=True),
SplitIntoBins, lena.math.vectorize).  With the change all copies share the counters of the original."""
import copy, sys
import lena.core
from lena.flow import Slice


class Store(object):
    def __init__(self):
        self.vals = []

    def fill(self, v):
        self.vals.append(v)


def feed(sl, store, v):
    try:
        sl.fill_into(store, v)
    except lena.core.LenaStopFill:
        return False
    return True


bad = []
for args in ((3,), (1, 4), (0, None, 2)):
    orig = Slice(*args)
    copies = [copy.deepcopy(orig) for _ in range(3)]      # e.g. one per bin
    stores = [Store() for _ in copies]
    xs = list(range(10))
    alive = [True] * 3
    for x in xs:                                          # every bin is fed with the same values, in turn
        for k, (sl, st) in enumerate(zip(copies, stores)):
            if alive[k]:
                alive[k] = feed(sl, st, 100 * k + x)
    for k, st in enumerate(stores):
        ref = [100 * k + x for x in xs][slice(*args)]
        if st.vals != ref:
            bad.append("copy %d of Slice%r filled %r, the slice is %r" % (k, args, st.vals, ref))
if bad:
    print("\n".join(bad)); sys.exit(1)
print("ok")
