"""C16 candidate 1: _run_run (buffer_input) hands the block to el.run as a list, not as an iterator.
A Run element that reads its flow with next() (lena.flow.Count.run does) then fails / misbehaves."""
import sys
from lena.core import FillRequest
from lena.flow import Count


class First2(object):
    """a Run element reading with next(): yields the sum of the first two values of its flow"""
    def run(self, flow):
        a = next(flow)
        b = next(flow)
        for _ in flow:
            pass
        yield a + b


def blocks(seq, n):
    return [seq[i:i + n] for i in range(0, len(seq) - len(seq) % n, n)]


flow = list(range(6))
bad = []
# reference: what the element yields for each consecutive block of 3 values
ref = [r for b in blocks(flow, 3) for r in First2().run(iter(b))]
try:
    got = list(FillRequest(First2(), bufsize=3, buffer_input=True).run(iter(flow)))
except Exception as e:
    got = "%s: %s" % (type(e).__name__, e)
if got != ref:
    bad.append(("First2", got, ref))

# the library's own Count element (run uses next(flow))
ref = []
c = Count()
for b in blocks(flow, 3):
    ref.extend(c.run(iter(b)))
try:
    got = list(FillRequest(Count(), bufsize=3, reset=False, buffer_input=True).run(iter(flow)))
except Exception as e:
    got = "%s: %s" % (type(e).__name__, e)
if got != ref:
    bad.append(("Count", got, ref))

if bad:
    for b in bad:
        print("C16 violated: FillRequest(%s, bufsize=3, buffer_input).run -> %r, element on consecutive blocks -> %r" % b)
    sys.exit(1)
print("OK")
