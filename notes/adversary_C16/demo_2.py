"""C16 candidate 2: FillRequestSeq.request resets the FillRequest element after every request() when the sequence
was created with reset=True (the 'todo: add reset here' implemented).  Driven by run() nothing changes (FillRequest.run
resets after each block anyway); driven by fill()/request() as Split does, a request() at a point that is not a block
boundary throws away the values of the incomplete block."""
import sys
from lena.core import FillRequest, FillRequestSeq, Split


class Store(object):
    def __init__(self):
        self.v = []

    def fill(self, x):
        self.v.append(x)

    def request(self):
        yield list(self.v)

    def reset(self):
        self.v = []


def mk():
    # the block size and the reset policy are given to the sequence, as FillRequestSeq documents
    return FillRequestSeq(Store(), bufsize=3, reset=True, buffer_input=True)


flow = list(range(7))
ref = list(mk().run(iter(flow)))                  # [[0,1,2],[3,4,5]]
assert ref == [[0, 1, 2], [3, 4, 5]], ref

bad = []
for m in (1, 2, 3, 4, 5, 7, None):
    inner = FillRequest(mk(), bufsize=3, reset=True, buffer_input=True)   # FillRequest adapter around the sequence
    # 1) the sequence itself as a fill/request branch of Split
    got = list(Split([mk()], bufsize=m).run(iter(flow)))
    if got != ref:
        bad.append((m, got))
if bad:
    for m, got in bad:
        print("C16 violated: Split(bufsize=%s) around FillRequestSeq(Store, bufsize=3, reset=True) yields %r, run yields %r"
              % (m, got, ref))
    sys.exit(1)
print("OK")
