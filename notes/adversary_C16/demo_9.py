"""C16 candidate 9: FillRequest._run_run, yield_on_remainder branch: the flow is turned into a list first and the list is
sliced into blocks ("a sequence can be sliced directly").  For every finite flow the results are the same; but run does
not process the flow block by block any more: nothing is yielded before the flow is exhausted, the whole flow is held in
memory (not "at most one block of buffered values") and run never yields on an endless flow."""
import itertools
import sys
from lena.core import FillRequest


class Sum2(object):
    """a Run element: the sum of the flow it is given"""
    def run(self, flow):
        yield sum(flow)


class Counting(object):
    """an iterator that knows how many values were taken from it"""
    def __init__(self, it):
        self.it, self.taken = iter(it), 0

    def __iter__(self):
        return self

    def __next__(self):
        v = next(self.it)
        self.taken += 1
        return v


bad = []
n = 3
flow = Counting(range(11))
fr = FillRequest(Sum2(), bufsize=n, yield_on_remainder=True)
results, taken = [], []
for r in fr.run(flow):
    results.append(r)
    taken.append(flow.taken)
if results != [3, 12, 21, 19]:
    bad.append("results %r" % (results,))
# block by block: the result of block b is yielded when b+1 blocks have been read, not more
if taken != [3, 6, 9, 11]:
    bad.append("values read from the flow when each block's result was yielded: %r, block by block is [3, 6, 9, 11]" % (taken,))
flow = Counting(itertools.islice(itertools.count(), 200000))
first = list(itertools.islice(FillRequest(Sum2(), bufsize=n, yield_on_remainder=True).run(flow), 2))
if first != [3, 12] or flow.taken > 3 * n:
    bad.append("first two results %r after reading %d values of a long flow" % (first, flow.taken))
if bad:
    print("C16 violated (run does not work block by block):")
    for b in bad:
        print("  " + b)
    sys.exit(1)
print("OK")
