"""C16 candidate 4: FillRequest._run_run (buffer_output, "buffer the output" taken literally) runs the element block by
block but keeps the results of ALL blocks in a list and yields them when the flow is exhausted.  The list of results is
unchanged for every finite flow, but run no longer yields block by block: nothing comes out before the flow is exhausted,
the results of all blocks are buffered (not "at most one block"), and run never yields on an endless flow
(Source(ones, FillRequest(run element, buffer_output=True), Slice(10)) hangs)."""
import itertools
import sys
from lena.core import FillRequest


class Sum2(object):
    """a Run element: the sum of the flow it is given"""
    def run(self, flow):
        yield sum(flow)


class Counting(object):
    """an iterator that knows how many values were taken from it"""
    def __init__(self, it):
        self.it, self.taken = iter(it), 0

    def __iter__(self):
        return self

    def __next__(self):
        v = next(self.it)
        self.taken += 1
        return v


bad = []
n = 3
flow = Counting(range(12))
fr = FillRequest(Sum2(), bufsize=n, buffer_output=True)
results, taken = [], []
for r in fr.run(flow):
    results.append(r)
    taken.append(flow.taken)
if results != [3, 12, 21, 30]:
    bad.append("results %r" % (results,))
# block by block: the results of block b are yielded when b+1 blocks have been read, not more
if taken != [n * (b + 1) for b in range(4)]:
    bad.append("values read from the flow when each block's result was yielded: %r, block by block is %r"
               % (taken, [n * (b + 1) for b in range(4)]))
# an endless flow: the first blocks must come out after a bounded number of values
flow = Counting(itertools.islice(itertools.count(), 200000))
first = list(itertools.islice(FillRequest(Sum2(), bufsize=n, buffer_output=True).run(flow), 2))
if first != [3, 12] or flow.taken > 3 * n:
    bad.append("first two results %r after reading %d values of a long flow" % (first, flow.taken))
if bad:
    print("C16 violated (run does not work block by block):")
    for b in bad:
        print("  " + b)
    sys.exit(1)
print("OK")
