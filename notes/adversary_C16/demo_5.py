"""C16 candidate 5: FillRequest.__init__ creates the buffer by looking at buffer_output first (`if bo: _buffer_out = []
else: _buffer_in = []`).  Same thing whenever exactly one flag is set.  With yield_on_remainder the flags are not checked:
with both set the adapter works in buffer_input mode (self._buffer_input = bi) but has no _buffer_in; with none set it
works in buffer_output mode without _buffer_out.  fill() past a complete block raises AttributeError; run is unchanged."""
import sys
from lena.core import FillRequest, Split


class Store(object):
    def __init__(self):
        self.v = []

    def fill(self, x):
        self.v.append(x)

    def request(self):
        yield list(self.v)

    def reset(self):
        self.v = []


flow = list(range(7))
bad = []
for kw in ({"buffer_input": True, "buffer_output": True}, {}):
    def mk():
        return FillRequest(Store(), bufsize=2, reset=True, yield_on_remainder=True, **kw)
    assert list(mk().run(iter(flow))) == [[0, 1], [2, 3], [4, 5], [6]]
    for m in (1, 2, 3, 5, None):
        try:
            got = list(Split([mk()], bufsize=m).run(iter(flow)))
        except Exception as e:
            got = "%s: %s" % (type(e).__name__, e)
        if isinstance(got, str) or [x for b in got for x in b] != flow:
            bad.append("Split(bufsize=%s) around FillRequest(bufsize=2, reset, yield_on_remainder, %s): %s" % (m, kw, got))
if bad:
    print("C16 violated (values delivered through fill() are not accounted for):")
    for b in bad:
        print("  " + b)
    sys.exit(1)
print("OK")
