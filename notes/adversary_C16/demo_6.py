"""C16 candidate 6: FillRequest keeps the values that arrive past a complete block (buffer_input) in a
collections.deque(maxlen=1000) ("Split hands over at most 1000 values between two requests" - its default bufsize) instead
of a list.  When more than 1000 + bufsize values are filled between two requests (Split(bufsize=None), or any
bufsize > 1000), the oldest buffered values are silently dropped: values are lost and the blocks are shifted."""
import sys
from lena.core import FillRequest, Split


class Store(object):
    def __init__(self):
        self.v = []

    def fill(self, x):
        self.v.append(x)

    def request(self):
        yield list(self.v)

    def reset(self):
        self.v = []


def mk():
    return FillRequest(Store(), bufsize=3, reset=True, buffer_input=True)


flow = list(range(2500))
ref = list(mk().run(iter(flow)))
assert ref == [flow[i:i + 3] for i in range(0, 2499, 3)]
bad = []
for m in (7, 1000, 1200, 3000, None):
    got = list(Split([mk()], bufsize=m).run(iter(flow)))
    if got != ref:
        bad.append("Split(bufsize=%s) around FillRequest(bufsize=3, buffer_input): %d blocks, run yields %d; first blocks %r"
                   % (m, len(got), len(ref), got[:3]))
if bad:
    print("C16 violated (request() results differ from run on the whole flow):")
    for b in bad:
        print("  " + b)
    sys.exit(1)
print("OK")
