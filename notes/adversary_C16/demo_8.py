"""C16 candidate 8: Split.run, branch of type "fill_request": the `continue` after removing a branch that raised
LenaStopFill was dropped ("redundant at the end of the elif").  Control now reaches `ind += 1` although the list of active
sequences has shifted: the branch that FOLLOWS the stopped one is skipped for the current block of the flow.  A FillRequest
branch behind a branch that stops never receives that Split block: values are lost, its later blocks are shifted."""
import sys
import lena.core
from lena.core import FillRequest, Split


class Store(object):
    def __init__(self, tag, stop=None):
        self.tag, self.stop, self.v = tag, stop, []

    def fill(self, x):
        if self.stop is not None and x >= self.stop:
            raise lena.core.LenaStopFill()
        self.v.append(x)

    def request(self):
        yield [self.tag] + list(self.v)

    def reset(self):
        self.v = []


def mk(tag, n, stop=None):
    # (the stopping branch buffers output: with buffer_input LenaStopFill can leave request(), notes/C16_observation_1)
    kw = {"buffer_input": True} if stop is None else {"buffer_output": True}
    return FillRequest(Store(tag, stop), bufsize=n, reset=True, **kw)


flow = list(range(9))
ref = [r[1:] for r in mk("b", 3).run(iter(flow))]
bad = []
for m in (1, 2, 3, 4, None):
    got = [r[1:] for r in Split([mk("a", 2, stop=3), mk("b", 3)], bufsize=m).run(iter(flow)) if r[0] == "b"]
    if got != ref:
        bad.append("Split([FR a (stops at value 3), FR b (bufsize 3)], bufsize=%s): branch b yields %r, run yields %r" % (m, got, ref))
if bad:
    print("C16 violated (request() results of a FillRequest branch differ from run on the whole flow):")
    for b in bad:
        print("  " + b)
    sys.exit(1)
print("OK")
