"""C16 candidate 3: FillRequest.request yields the buffered results only `if self._buffer_output` (a new attribute kept
for symmetry with _buffer_input) instead of `if not self._buffer_input`.  With yield_on_remainder the buffer flags are
optional ("In that case ... corresponding attributes are not checked"); an adapter created without them buffers the
results of complete blocks in fill() (it is not buffer_input) and now never yields them: values are lost when the adapter
is driven by fill()/request() (Split), run is unchanged."""
import sys
from lena.core import FillRequest, Split


class Store(object):
    def __init__(self):
        self.v = []

    def fill(self, x):
        self.v.append(x)

    def request(self):
        yield list(self.v)

    def reset(self):
        self.v = []


def mk():
    return FillRequest(Store(), bufsize=2, reset=True, yield_on_remainder=True)


flow = list(range(7))
bad = []
# every value exactly once: whatever the request points, the concatenation of the blocks is the flow
for m in (1, 2, 3, 5, 7, None):
    got = list(Split([mk()], bufsize=m).run(iter(flow)))
    if [x for b in got for x in b] != flow:
        bad.append("Split(bufsize=%s) around FillRequest(bufsize=2, reset, yield_on_remainder): %r" % (m, got))
fr = mk()
out = []
for x in flow:
    fr.fill(x)
out.extend(fr.request())
if [x for b in out for x in b] != flow:
    bad.append("7 fills, one request: %r" % (out,))
if bad:
    print("C16 violated (values not accounted for):")
    for b in bad:
        print("  " + b)
    sys.exit(1)
print("OK")
