"""C16 candidate 7: FillRequest._run_fill_compute rewritten without the `while True` / next() dance: it processes one
block and then delegates the rest of the flow to itself (`for result in self._run_fill_compute(flow): yield result`).
Every block adds a nested generator: flows of about a thousand blocks and more end in RecursionError (and every result
travels through all the nested generators: quadratic time).  Results for short flows are unchanged."""
import sys
from lena.core import FillRequest


class Store(object):
    def __init__(self):
        self.v = []

    def fill(self, x):
        self.v.append(x)

    def request(self):
        yield list(self.v)

    def reset(self):
        self.v = []


bad = []
for n, L in ((1, 1500), (3, 6000), (5, 20)):
    flow = list(range(L))
    ref = [flow[i:i + n] for i in range(0, L - L % n, n)]
    for kw in ({"buffer_input": True}, {"buffer_output": True}):
        try:
            got = list(FillRequest(Store(), bufsize=n, reset=True, **kw).run(iter(flow)))
        except BaseException as e:
            got = "%s after %s" % (type(e).__name__, "?")
        if got != ref:
            bad.append("FillRequest(Store, bufsize=%d, %s).run on %d values: %s" % (n, kw, L, got if isinstance(got, str) else "%d blocks" % len(got)))
if bad:
    print("C16 violated (run does not yield the blocks of a long flow):")
    for b in bad:
        print("  " + b)
    sys.exit(1)
print("OK")
