"""C16 candidate 10: FillRequest.request: the yield_on_remainder step ("yield what the element holds even if the block is
incomplete") was moved up, next to the step for a complete block and BEFORE the values kept in _buffer_in are filled into
the element.  With buffer_input and yield_on_remainder the values of the last, incomplete block that waited in _buffer_in
are then filled into the element but never yielded by this request(): the final partial block is missing (it comes out
only with the next request, if there is one)."""
import sys
from lena.core import FillRequest, Split


class Store(object):
    def __init__(self):
        self.v = []

    def fill(self, x):
        self.v.append(x)

    def request(self):
        yield list(self.v)

    def reset(self):
        self.v = []


def mk():
    return FillRequest(Store(), bufsize=3, reset=True, buffer_input=True, yield_on_remainder=True)


flow = list(range(8))
bad = []
ref = list(mk().run(iter(flow)))
assert ref == [[0, 1, 2], [3, 4, 5], [6, 7]]
for m in (4, 5, 8, None):
    got = list(Split([mk()], bufsize=m).run(iter(flow)))
    if [x for b in got for x in b] != flow:
        bad.append("Split(bufsize=%s) around FillRequest(bufsize=3, buffer_input, yield_on_remainder): %r" % (m, got))
if bad:
    print("C16 violated (the final partial block is not yielded although yield_on_remainder is set; values unaccounted):")
    for b in bad:
        print("  " + b)
    sys.exit(1)
print("OK")
