"""Design-phase probe (not part of the framework): suspected defects confirmed on the real code."""
import traceback, copy, signal, sys
def run(name, f):
    try:
        r = f()
        print("%-40s -> %r" % (name, r))
    except BaseException as e:
        print("%-40s !! %s: %s" % (name, type(e).__name__, str(e)[:100]))

import lena, lena.core, lena.flow, lena.context, lena.math, lena.structures, lena.variables, lena.meta, lena.output
from lena.core import *
from lena.flow import *
from lena.context import *

# C20
run("RunningChunkBy bad container", lambda: RunningChunkBy(2, container=5))
run("SelectContext absent key", lambda: SelectContext("a.b", lambda x: True)((1, {})))
def star():
    ns = {}
    exec("from lena.math import *", ns)
    return sorted(k for k in ns if not k.startswith('__'))[:3]
run("from lena.math import *", star)
class TwoSums:
    def __init__(s): s.t=0
    def fill(s, v): s.t += v
    def compute(s): yield s.t; yield (s.t, {"a": 1})
    def reset(s): s.t = 0
def mean2():
    m = lena.math.Mean(TwoSums()); m.fill(1); m.fill(3); return list(m.compute())
run("Mean with 2 sums", mean2)
# C08
run("contains through int scalar", lambda: contains({"a": 5}, "a.b.c"))
run("contains through str scalar", lambda: contains({"a": "xbx"}, "a.b.c"))
run("contains a.b scalar match", lambda: contains({"a": 5}, "a.5"))
run("get_recursively through scalar", lambda: get_recursively({"a": 5}, "a.b.c", default="DEF"))
run("DeleteContext('')", lambda: DeleteContext("")((1, {"a": 1})))
run("DeleteContext a.b scalar", lambda: DeleteContext("a.b")((1, {"a": 5})))
run("DeleteContext a.b.c thru scalar", lambda: DeleteContext("a.b.c")((1, {"a": 5})))
run("roundtrip a..b", lambda: get_recursively(str_to_dict("a..b", 1), "a..b"))
run("to_string int key", lambda: (to_string({1: "a"}), to_string({"1": "a"})))
# C07
run("difference falsy 0", lambda: difference({"k": 0}, {"k": 1}))
run("difference falsy None", lambda: difference({"k": None}, {"k": 1}))
run("difference {} vs 5", lambda: difference({"k": {}}, {"k": 5}))
run("difference {} vs {a:1} lvl1", lambda: (difference({"k": {}}, {"k": {"a": 1}}, level=1), intersection({"k": {}}, {"k": {"a": 1}}, level=1)))
run("difference nested falsy", lambda: difference({"k": {"x": False, "y": 1}}, {"k": {"x": True, "y": 1}}))
run("intersection lvl0 empty", lambda: intersection({}, {}, level=0))
run("update_nested other[key] scalar", lambda: update_nested("v", {"v": {"n": 1}}, {"v": 5}))
# C15 GroupBy scalars
def gb(group_by, merge, vals):
    g = GroupBy(group_by, merge)
    for v in vals: g.fill(v)
    return g.groups
run("GroupBy('', 'a.b') scalars a", lambda: gb("", "a.b", [(1, {"a": 5}), (2, {"a": 6})]))
run("GroupBy('a.b','') empty subdict", lambda: gb("a.b", "", [(1, {"a": {"c": 1}}), (2, {})]))
run("GroupBy(('a',), ('', 'a.b')) scalar", lambda: gb(("a",), ("", "a.b"), [(1, {"a": 5}), (2, {"a": 6})]))
# C13 UCFS aliasing
def ucfs():
    from lena.meta import SetContext, UpdateContextFromStatic, StoreContext
    u = UpdateContextFromStatic(); st = StoreContext()
    s = Sequence(SetContext("a", 1), u, st, SetContext("b", 2))
    return (u._context, st.context, list(s.run([(0, {})])))
run("UCFS sees later SetContext", ucfs)
# C14
def comp():
    from lena.variables import Variable, Compose
    v1 = Variable("n1", lambda x: x+1, type="t1", u=1)
    v2 = Variable("n2", lambda x: x*2, type="t2", w=2)
    pre = {"variable": {"name": "n0", "type": "t0", "t0": {"name": "n0"}}}
    a = Sequence(v1, v2).run([(1, copy.deepcopy(pre))])
    b = Compose(v1, v2)((1, copy.deepcopy(pre)))
    a = list(a)[0]
    return (a == b, a, b)
run("Compose vs Sequence w/ pre var", comp)
# C09 Histogram reset
def hreset():
    h = lena.structures.Histogram([0,1,2]); h.fill(0.5); h.reset(); return list(h.compute())
run("Histogram.reset", hreset)
def halias():
    h = lena.structures.Histogram([0,1,2]); c = {"x": 1}; h.fill((0.5, c)); r = list(h.compute())[0]; return r[1] is c
run("Histogram.compute ctx aliased", halias)
def valias():
    h = lena.math.VarianceMeanCount(); c = {"x": 1}; h.fill((0.5, c)); h.fill((1.5, c)); r = list(h.compute())[0]; return r[1] is c
run("VMC.compute ctx aliased", valias)
def vect():
    return lena.math.Vectorize(lena.flow.StoreFilled.__new__(lena.flow.StoreFilled), dim=2)
class NoReset:
    def fill(s, v): pass
    def compute(s): yield 1
run("Vectorize no-reset inner", lambda: lena.math.Vectorize(NoReset(), dim=2))
