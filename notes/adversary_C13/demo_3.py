"""C13 candidate 3: LenaSequence._get_context returns a copy of the dictionaries only ("a context is made of nested
dictionaries"); a list-valued static key is shared between the sequence's static context and every context it
exports.  The static context of a sequence is then no longer a function of what it encloses: whoever receives the
exported context and extends the list in it (a caller of _get_context(), an ordinary run-time element after an
UpdateContextFromStatic of an ENCLOSING sequence) rewrites it."""
import sys
from lena.core import Sequence
from lena.meta import SetContext, StoreContext, UpdateContextFromStatic


def add_cut(value):
    data, context = value
    context["cuts"].append("pt>%d" % data)
    return (data, context)


ok = True
inner = Sequence(SetContext("cuts", ["trigger"]))
ucfs = UpdateContextFromStatic()
store = StoreContext()
seq = Sequence(inner, ucfs, add_cut, store)
exported = seq._get_context()
exported["cuts"].append("mine")          # the caller's own copy
if seq._get_context() != {"cuts": ["trigger"]}:
    print("C13 VIOLATION: Sequence._get_context() is", seq._get_context(), "after its caller updated the returned "
          "dictionary; the fold of its SetContext elements is {'cuts': ['trigger']}")
    ok = False
seq2 = Sequence(Sequence(SetContext("cuts", ["trigger"])), UpdateContextFromStatic(), add_cut, StoreContext())
out = list(seq2.run([(1, {}), (2, {})]))
if seq2[0]._get_context() != {"cuts": ["trigger"]}:
    print("C13 VIOLATION: the nested Sequence exports", seq2[0]._get_context(), "after the flow ran; the fold of its "
          "SetContext elements is {'cuts': ['trigger']}")
    ok = False
if out[1][1] != {"cuts": ["trigger", "pt>2"]}:
    print("C13 VIOLATION: second value got", out[1][1])
    ok = False
print("ok" if ok else "violated")
sys.exit(0 if ok else 1)
