"""C13 candidate 5: LenaSplit._set_context hands each branch a SHALLOW copy (context.copy()) instead of a deep one
("SetContext makes a deep copy itself").  The branches own their top-level dictionary only: every nested
sub-dictionary is the very object held by the sibling branches, by the element before the Split and by the
enclosing sequence.  A branch is not handed an independent copy."""
import sys
from lena.core import Sequence, Split
from lena.meta import SetContext, UpdateContextFromStatic, StoreContext


class Tag(object):
    """a user element that records in the (nested) static context it was given that it has seen it"""

    def _set_context(self, context):
        context["data"]["tagged"] = True

    def __call__(self, value):
        return value


ok = True
before, left, right = UpdateContextFromStatic(), UpdateContextFromStatic(), UpdateContextFromStatic()
seq = Sequence(SetContext("data.detector", "far"), before, Split([(left,), (right, Tag())]))
if left._context["data"] is right._context["data"] or before._context["data"] is right._context["data"]:
    print("C13 VIOLATION: the branches of the Split were not handed independent copies: they share the nested "
          "dictionary 'data'")
    ok = False
for name, el in (("before the Split", before), ("in the sibling branch", left)):
    if el._context != {"data": {"detector": "far"}}:
        print("C13 VIOLATION: the UpdateContextFromStatic", name, "holds", el._context,
              "expected the prefix fold {'data': {'detector': 'far'}}")
        ok = False
print("ok" if ok else "violated")
sys.exit(0 if ok else 1)
