"""C13 candidate 1: a list-valued static key is shared between the static context and the run-time contexts
made by UpdateContextFromStatic; an ordinary run-time element that appends to it rewrites the static context."""
import sys
from lena.core import Sequence
from lena.meta import SetContext, StoreContext, UpdateContextFromStatic


def add_cut(value):
    # an ordinary run-time element: it records in the run-time context what it did to the value
    data, context = value
    context["cuts"].append("pt>%d" % data)
    return (data, context)


ucfs = UpdateContextFromStatic()
seq = Sequence(SetContext("cuts", ["trigger"]), ucfs, add_cut)
before = seq._get_context()
out = [(d, c) for d, c in seq.run([(1, {}), (2, {})])]
after = seq._get_context()
ok = True
if before != after:
    print("C13 VIOLATION: Sequence._get_context() was", before, "before the run and is", after, "after it")
    ok = False
if ucfs._context != {"cuts": ["trigger"]}:
    print("C13 VIOLATION: UpdateContextFromStatic holds", ucfs._context, "expected the prefix fold {'cuts': ['trigger']}")
    ok = False
if out[1][1] != {"cuts": ["trigger", "pt>2"]}:
    print("C13 VIOLATION: second value got", out[1][1], "- the static context it was updated with was changed "
          "by the first value")
    ok = False
print("ok" if ok else "violated")
sys.exit(0 if ok else 1)
