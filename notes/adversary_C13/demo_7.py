"""C13 candidate 7: MakeFilename.__call__ merges the run-time context into a SHALLOW copy of its static context
with update_recursively ("also for nested keys").  Nested sub-dictionaries of the static context are updated in
place by the run-time context of every value: run-time values leak into the static context, the name derived for
a LATER value depends on an earlier value, and what MakeFilename (and every element sharing that dictionary, e.g.
an UpdateContextFromStatic before it) saw is changed by the flow."""
import sys
from lena.core import Sequence
from lena.meta import SetContext, UpdateContextFromStatic
from lena.output import MakeFilename

ok = True
ucfs = UpdateContextFromStatic()
mkf = MakeFilename("{{data.detector}}_{{data.run}}")
seq = Sequence(SetContext("data.detector", "far"), ucfs, mkf)
out = list(seq.run([(0, {"data": {"run": 1}}), (1, {})]))
if mkf._context != {"data": {"detector": "far"}}:
    print("C13 VIOLATION: after the run MakeFilename holds", mkf._context, "- it was handed {'data': {'detector': 'far'}}")
    ok = False
if out[1][1] != {"data": {"detector": "far"}}:
    print("C13 VIOLATION: the second value came out with", out[1][1], "- its run-time context was {} and the static "
          "context is {'data': {'detector': 'far'}}")
    ok = False
print("ok" if ok else "violated")
sys.exit(0 if ok else 1)
