"""C13 candidate 4: SetContext remembers the value it formatted the first time ("contexts are set several times for
nested sequences") and never formats again.  Within one construction the first successful formatting is the final
one, so nothing changes there; but a sequence (or a SetContext object, as lena's own tests do) that is placed into
a second enclosing sequence keeps the value formatted against the FIRST prefix: the static context its elements
receive is no longer the fold of the elements that enclose and precede them."""
import sys
from lena.core import Sequence
from lena.meta import SetContext, StoreContext

ok = True
store = StoreContext()
inner = Sequence(SetContext("name", "{{detector}}_hist"), store)
far = Sequence(SetContext("detector", "far"), inner)
if store.context != {"detector": "far", "name": "far_hist"}:
    print("C13 VIOLATION: in the first sequence the store saw", store.context)
    ok = False
near = Sequence(SetContext("detector", "near"), inner)
if store.context != {"detector": "near", "name": "near_hist"}:
    print("C13 VIOLATION: the store saw", store.context, "- the prefix fold of the enclosing sequence is "
          "{'detector': 'near', 'name': 'near_hist'}")
    ok = False
if near._get_context() != {"detector": "near", "name": "near_hist"}:
    print("C13 VIOLATION: the enclosing sequence exports", near._get_context())
    ok = False
print("ok" if ok else "violated")
sys.exit(0 if ok else 1)
