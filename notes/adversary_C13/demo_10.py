"""C13 candidate 10: SetContext._get_context returns a copy of the dictionaries only; list values are shared between
SetContext's own static context and every context it exports.  The next element of the sequence (here an
UpdateContextFromStatic) therefore holds the very list of the SetContext: the caller of _get_context(), or anybody
who is handed that context, rewrites what the SetContext — and every later pass through it — exports."""
import sys
from lena.core import Sequence
from lena.meta import SetContext, UpdateContextFromStatic

sc = SetContext("cuts", ["trigger"])
ucfs = UpdateContextFromStatic()
seq = Sequence(sc, ucfs)
ok = True
if ucfs._context["cuts"] is sc._get_context()["cuts"] or ucfs._context["cuts"] is sc._static_context["cuts"]:
    print("C13 VIOLATION: the context handed to the next element shares the list 'cuts' with the SetContext")
    ok = False
got = sc._get_context()
got["cuts"].append("mine")          # the caller's own copy
if sc._get_context() != {"cuts": ["trigger"]}:
    print("C13 VIOLATION: SetContext._get_context() is", sc._get_context(), "after its caller updated the returned "
          "dictionary")
    ok = False
print("ok" if ok else "violated")
sys.exit(0 if ok else 1)
