"""C13 candidate 2: LenaSplit._set_context hands its LAST branch the context object itself instead of a copy
("one copy less", as Split._fill does with values).  The branch is no longer given an independent copy: the
dictionary it holds is the very object that the element before the Split (and the enclosing sequence) holds, so
whatever the branch does to its context reaches an EARLIER element of the enclosing sequence."""
import sys
from lena.core import Sequence, Split
from lena.meta import SetContext, UpdateContextFromStatic, StoreContext


class Tag(object):
    """an element of a branch that records in the static context it was given that it has seen it (a user
    element with _set_context; before dd35ba0 SetContext itself updated its argument in place)"""

    def _set_context(self, context):
        context["tagged"] = True

    def __call__(self, value):
        return value


ok = True
before = UpdateContextFromStatic()
inside = UpdateContextFromStatic()
seq = Sequence(SetContext("a", 1), before, Split([(StoreContext(),), (inside, Tag())]))
if before._context is inside._context:
    print("C13 VIOLATION: the last Split branch was not handed an independent copy: the element before the Split "
          "and the element inside the branch hold the same dictionary object")
    ok = False
if before._context != {"a": 1}:
    print("C13 VIOLATION: the UpdateContextFromStatic BEFORE the Split holds", before._context,
          "expected the prefix fold {'a': 1}: a sibling/later element changed what an earlier element saw")
    ok = False
out = list(seq.run([(0, {})]))
print("ok" if ok else "violated")
sys.exit(0 if ok else 1)
