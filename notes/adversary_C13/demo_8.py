"""C13 candidate 8: StoreContext._set_context keeps a SHALLOW copy (context.copy()).  Its comment says why it
copies: "otherwise further elements might influence our context" — with a shallow copy every nested sub-dictionary
is still the object that the sequence hands on to the following elements."""
import sys
from lena.core import Sequence
from lena.meta import SetContext, StoreContext


class Tag(object):
    """a later user element that records in the (nested) static context it was given that it has seen it"""

    def _set_context(self, context):
        context["data"]["tagged"] = True

    def __call__(self, value):
        return value


store = StoreContext()
seq = Sequence(SetContext("data.detector", "far"), store, Tag())
ok = store.context == {"data": {"detector": "far"}}
if not ok:
    print("C13 VIOLATION: the StoreContext holds", store.context, "- a LATER element changed what it saw "
          "(prefix fold: {'data': {'detector': 'far'}})")
print("ok" if ok else "violated")
sys.exit(0 if ok else 1)
