"""C13 candidate 6: Write._set_context / Cache._set_context return early once the name has been formatted ("it was
already formatted when an inner sequence was created").  Within one construction the first successful formatting is
final; but a sequence placed into a second enclosing sequence (element re-use, as in lena's tests) keeps the
directory / cache file derived from the FIRST prefix: the derived name is not the one of the static context the
element received."""
import os, sys, tempfile
os.chdir(tempfile.mkdtemp())
from lena.core import Sequence
from lena.meta import SetContext
from lena.output import Write
from lena.flow import Cache

ok = True
write, cache = Write("out_{{detector}}"), Cache("c_{{detector}}.pkl")
inner = Sequence(write, cache)
far = Sequence(SetContext("detector", "far"), inner)
if (write.output_directory, cache._filename) != ("out_far", "c_far.pkl"):
    print("C13 VIOLATION: first sequence:", write.output_directory, cache._filename)
    ok = False
near = Sequence(SetContext("detector", "near"), inner)
if (write.output_directory, cache._filename) != ("out_near", "c_near.pkl"):
    print("C13 VIOLATION: Write directory / Cache file are", (write.output_directory, cache._filename),
          "but the static context they received is {'detector': 'near'}")
    ok = False
print("ok" if ok else "violated")
sys.exit(0 if ok else 1)
