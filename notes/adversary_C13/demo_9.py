"""C13 candidate 9: UpdateContextFromStatic._set_context merges every context it is handed into the one it holds
("contexts from all enclosing sequences are collected") instead of replacing it.  Within one construction later
deliveries extend earlier ones, so nothing changes; an element (or sequence) placed into a second enclosing
sequence keeps the keys of the first: what it holds is not the fold of what encloses and precedes it."""
import sys
from lena.core import Sequence
from lena.meta import SetContext, UpdateContextFromStatic

ucfs = UpdateContextFromStatic()
inner = Sequence(ucfs)
far = Sequence(SetContext("detector", "far"), SetContext("cycle", 1), inner)
near = Sequence(SetContext("detector", "near"), inner)
out = list(near.run([(0, {})]))
ok = True
if ucfs._context != {"detector": "near"}:
    print("C13 VIOLATION: UpdateContextFromStatic holds", ucfs._context, "- the prefix fold of its enclosing sequences "
          "is {'detector': 'near'}")
    ok = False
if out != [(0, {"detector": "near"})]:
    print("C13 VIOLATION: the flow is", out, "- static context of ANOTHER sequence leaked into the run-time context")
    ok = False
print("ok" if ok else "violated")
sys.exit(0 if ok else 1)
