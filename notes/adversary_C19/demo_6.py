"""C19 adversary candidate 6: LaTeXToPDF treats only a POSITIVE return code as a failure.

A converter that is killed by a signal (out-of-memory killer, a time limit of the batch system, `kill`) has a
negative return code in Python (-9, -15).  Its pdf was not produced, but the value is yielded as if it had been.
Property clause: every file named by a yielded value exists (a failed conversion is never named by a yielded value).
"""
import os
import shutil
import sys
import tempfile

from lena.output import LaTeXToPDF

base = tempfile.mkdtemp(prefix="adv-c19-6-")
try:
    tex = os.path.join(base, "p.tex")
    with open(tex, "w") as f:
        f.write("TPL1 end")
    bad = []
    # one value: the command is collected in the final wait; two values: the first is collected while the flow runs
    for n in (1, 2):
        el = LaTeXToPDF(verbose=0, create_command=lambda t, o, d, c: ["sh", "-c", "kill -9 $$"])
        flow = [(tex, {"output": {"filetype": "tex", "changed": True}})]
        if n == 2:
            import time

            def gen():
                yield flow[0]
                time.sleep(0.5)
                yield ("other", {"output": {"filetype": "csv"}})
            res = list(el.run(gen()))
        else:
            res = list(el.run(iter(flow)))
        for v in res:
            if v[1]["output"].get("filetype") == "pdf" and not os.path.exists(v[0]):
                bad.append("flow of %d values: yielded %s, which does not exist (its command was killed)" % (n, v[0]))
    if bad:
        print("VIOLATED:", "; ".join(bad))
        sys.exit(1)
    print("ok")
finally:
    shutil.rmtree(base, ignore_errors=True)
