"""C19 adversary candidate 3: Write._make_filename no longer normalises an absolute *file name* (only dirname).

A value whose context.output.filename is absolute (MakeFilename("/plots/{{name}}") - a leading slash is an easy
mistake, Write documents a warning and keeps the file below output_directory) is then written OUTSIDE the output
directory: os.path.join drops everything before an absolute component.
Property clause: every file named by a yielded value exists at output_directory/dirname/filename.fileext.
"""
import os
import shutil
import sys
import tempfile
import warnings

from lena.core import Sequence
from lena.output import ToCSV, MakeFilename, Write
from lena.structures import histogram

base = tempfile.mkdtemp(prefix="adv-c19-3-")
try:
    out = os.path.join(base, "out")
    stray = os.path.join(base, "plots")
    seq = Sequence(ToCSV(), MakeFilename(stray + "/{{name}}"), Write(out, verbose=False))
    with warnings.catch_warnings():
        warnings.simplefilter("ignore")
        res = list(seq.run([(histogram([0, 1, 2], bins=[1, 7]), {"name": "p"})]))
    path, ctx = res[0]
    want = os.path.join(out, stray.lstrip("/"), "p.csv")
    bad = []
    if path != want or ctx["output"]["filepath"] != want:
        bad.append("yielded %s, output_directory/dirname/filename.fileext is %s" % (path, want))
    if not os.path.exists(want):
        bad.append("%s does not exist" % want)
    if os.path.exists(os.path.join(stray, "p.csv")):
        bad.append("a file was written outside the output directory: %s" % os.path.join(stray, "p.csv"))
    if bad:
        print("VIOLATED:", "; ".join(bad))
        sys.exit(1)
    print("ok")
finally:
    shutil.rmtree(base, ignore_errors=True)
