"""C19 adversary candidate 4: RenderLaTeX looks its template up once per run (for the first selected value).

Two plots in one run that select different templates through context.output.template (documented: "unless
context.output.template overwrites that"): the second plot is rendered from the template of the first.
Property clause: every file named by a yielded value holds exactly the content produced from the current data
and the current template.
"""
import os
import shutil
import sys
import tempfile

from lena.core import Sequence
from lena.output import ToCSV, MakeFilename, Write, RenderLaTeX
from lena.structures import histogram

base = tempfile.mkdtemp(prefix="adv-c19-4-")
try:
    out = os.path.join(base, "out")
    tdir = os.path.join(base, "tpl")
    os.mkdir(tdir)
    for name, k in (("a.tex", 1), ("b.tex", 2)):
        with open(os.path.join(tdir, name), "w") as f:
            f.write("TPL%d CSV:\\VAR{output.filepath} end" % k)
    seq = Sequence(ToCSV(), MakeFilename("{{name}}"), Write(out, verbose=False),
                   RenderLaTeX("a.tex", template_dir=tdir), Write(out, verbose=False))
    flow = [(histogram([0, 1, 2], bins=[1, 7]), {"name": "p0"}),
            (histogram([0, 1, 2], bins=[1, 7]), {"name": "p1", "output": {"template": "b.tex"}})]
    res = list(seq.run(flow))
    bad = []
    for (path, ctx), k in zip(res, (1, 2)):
        with open(path) as f:
            text = f.read()
        want = "TPL%d CSV:%s end" % (k, path[:-4] + ".csv")
        if text != want:
            bad.append("%s holds %r, its template gives %r" % (path, text, want))
    if bad:
        print("VIOLATED:", "; ".join(bad))
        sys.exit(1)
    print("ok")
finally:
    shutil.rmtree(base, ignore_errors=True)
