"""C19 adversary candidate 2: LaTeXToPDF starts its command in the directory of the .tex file (cwd=...).

With a RELATIVE output directory (Write("out"), the usual way lena is used) the command line still holds paths
relative to the old working directory, so every conversion fails: the pdf is not (re)generated although it is missing
/ although its sources were rewritten.  Real sub-processes (a small sh command through create_command).
"""
import os
import shutil
import sys
import tempfile

from lena.core import Sequence
from lena.output import ToCSV, MakeFilename, Write, RenderLaTeX, LaTeXToPDF
from lena.structures import histogram

SCRIPT = ('cat "$1" > "$2.tmp" || exit 1; for f in $(grep -o "CSV:[^ ]*" "$1" | sed s/CSV://); do '
          'cat "$f" >> "$2.tmp" || exit 1; done; mv "$2.tmp" "$2"')


def csv_text(d):
    return "0.000000,%d.000000\n1.000000,7.000000\n2.000000,7.000000" % d


base = tempfile.mkdtemp(prefix="adv-c19-2-")
old = os.getcwd()
try:
    os.chdir(base)
    os.mkdir("tpl")
    with open("tpl/t.tex", "w") as f:
        f.write("TPL1 CSV:\\VAR{output.filepath} end")

    def run(d):
        seq = Sequence(ToCSV(), MakeFilename("{{name}}"), Write("out", verbose=False),
                       RenderLaTeX("t.tex", template_dir="tpl"), Write("out", verbose=False),
                       LaTeXToPDF(verbose=0, create_command=lambda tex, pdf, outdir, ctx: ["sh", "-c", SCRIPT, "sh", tex, pdf]))
        return list(seq.run([(histogram([0, 1, 2], bins=[d, 7]), {"name": "p"})]))

    bad = []
    for i, d in enumerate((1, 2)):
        res = run(d)
        want = "TPL1 CSV:out/p.csv end" + csv_text(d)
        if [v[0] for v in res] != ["out/p.pdf"]:
            bad.append("run %d: yielded %s, expected out/p.pdf" % (i, [v[0] for v in res]))
        if not os.path.exists("out/p.pdf"):
            bad.append("run %d: out/p.pdf was missing and has not been generated" % i)
        else:
            with open("out/p.pdf") as f:
                if f.read() != want:
                    bad.append("run %d: out/p.pdf is not rendered from the current data" % i)
    if bad:
        print("VIOLATED:", "; ".join(bad))
        sys.exit(1)
    print("ok")
finally:
    os.chdir(old)
    shutil.rmtree(base, ignore_errors=True)
