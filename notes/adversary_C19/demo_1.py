"""C19 adversary candidate 1: MakeFilename leaks the run-time context of one value into its static context.

Pipeline: SetContext("detector", "far"), ToCSV, MakeFilename("{{detector}}_{{name}}"), Write(out).
Two plots in one run: the first has context.name == "a", the second has no name (its file name cannot be
formatted, so MakeFilename must leave it alone and Write uses its default name "output").
Property clause: every file named by a yielded value holds exactly the content produced from the current data,
and MakeFilename only names a value from that value's own context + the static context.
"""
import os
import shutil
import sys
import tempfile

from lena.core import Sequence
from lena.meta import SetContext
from lena.output import ToCSV, MakeFilename, Write
from lena.structures import histogram


def csv_text(d):
    return "0.000000,%d.000000\n1.000000,7.000000\n2.000000,7.000000" % d


base = tempfile.mkdtemp(prefix="adv-c19-1-")
try:
    out = os.path.join(base, "out")
    seq = Sequence(SetContext("detector", "far"), ToCSV(), MakeFilename("{{detector}}_{{name}}"),
                   Write(out, verbose=False))
    flow = [(histogram([0, 1, 2], bins=[1, 7]), {"name": "a"}),
            (histogram([0, 1, 2], bins=[2, 7]), {})]
    res = list(seq.run(flow))
    bad = []
    want = [(os.path.join(out, "far_a.csv"), 1), (os.path.join(out, "output.csv"), 2)]
    for (path, ctx), (wpath, d) in zip(res, want):
        if path != wpath:
            bad.append("value with data %d was written to %s, the naming rules give %s" % (d, path, wpath))
        with open(path) as f:
            text = f.read()
    # the file named by the FIRST yielded value must hold the first plot
    with open(res[0][0]) as f:
        if f.read() != csv_text(1):
            bad.append("%s (named by the first yielded value) does not hold the data of the first plot" % res[0][0])
    if bad:
        print("VIOLATED:", "; ".join(bad))
        sys.exit(1)
    print("ok")
finally:
    shutil.rmtree(base, ignore_errors=True)
