"""C19 adversary candidate 5: ToCSV reads context.output.duplicate_last_bin with `or` (a False in the context is lost).

ToCSV documents: "If output.duplicate_last_bin is present in context, it takes precedence over this element's
value."  A plot whose context says duplicate_last_bin=False is written with the last bin duplicated.
Property clause: every file named by a yielded value holds exactly the content produced from the current data
(and the options that travel with it in the context).
"""
import os
import shutil
import sys
import tempfile

from lena.core import Sequence
from lena.output import ToCSV, MakeFilename, Write
from lena.structures import histogram

base = tempfile.mkdtemp(prefix="adv-c19-5-")
try:
    out = os.path.join(base, "out")
    seq = Sequence(ToCSV(), MakeFilename("{{name}}"), Write(out, verbose=False))
    flow = [(histogram([0, 1, 2], bins=[1, 7]), {"name": "p", "output": {"duplicate_last_bin": False}})]
    res = list(seq.run(flow))
    with open(res[0][0]) as f:
        text = f.read()
    want = "0.000000,1.000000\n1.000000,7.000000"
    if text != want:
        print("VIOLATED: %s holds %r, the data and its context give %r" % (res[0][0], text, want))
        sys.exit(1)
    print("ok")
finally:
    shutil.rmtree(base, ignore_errors=True)
