"""C08 candidate 9: to_string sorts the keys itself (recursively through dictionaries and lists) instead of sort_keys=True;
the helper does not descend into tuples, which json.dumps writes as arrays.
Property: to_string is canonical - equal dictionaries give equal strings whatever their key order."""
import sys
from lena.context import to_string

bad = []
d1 = {"variables": ({"name": "x", "unit": "cm"}, {"name": "y", "unit": "cm"})}
d2 = {"variables": ({"unit": "cm", "name": "x"}, {"unit": "cm", "name": "y"})}
assert d1 == d2
if to_string(d1) != to_string(d2):
    bad.append("equal dictionaries give different strings:\n  %s\n  %s" % (to_string(d1), to_string(d2)))
# what the check generates is unchanged
assert to_string({"b": [{"d": 1, "c": 2}], "a": {"z": 1, "y": [[{"q": 1, "p": 2}]]}}) == '{"a":{"y":[[{"p":2,"q":1}]],"z":1},"b":[{"c":2,"d":1}]}'
if bad:
    print("\n".join(bad))
    sys.exit(1)
print("demo_9: ok")
