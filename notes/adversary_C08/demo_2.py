"""C08 candidate 2: format_context strips blanks around a field name ("as in jinja2").
Property: format_context renders exactly the addressed items and raises LenaKeyError when one is absent;
the field {{ a}} names the key " a" (that is what get_recursively, str_to_dict, contains, DeleteContext do with " a")."""
import sys
from lena.context import format_context, get_recursively, str_to_dict, format_update_with
from lena.core import LenaKeyError

bad = []
# the item addressed by the dotted string " a.b " is rendered
d = str_to_dict(" a.b ", 7)                  # {' a': {'b ': 7}}
assert get_recursively(d, " a.b ") == 7
try:
    r = format_context("{{ a.b }}")(d)
    if r != "7":
        bad.append("format_context('{{ a.b }}')(%r) = %r, expected '7'" % (d, r))
except LenaKeyError as e:
    bad.append("format_context('{{ a.b }}')(%r) raised LenaKeyError though the item is present" % (d,))
# another item is rendered instead of the addressed one
ctx = {" a": "addressed", "a": "other"}
r = format_context("x_{{ a}}")(ctx)
if r != "x_addressed":
    bad.append("format_context('x_{{ a}}')(%r) = %r, expected 'x_addressed'" % (ctx, r))
# absent item: LenaKeyError expected, another item is rendered
try:
    r = format_context("{{a }}")({"a": 1})
    bad.append("format_context('{{a }}')({'a': 1}) = %r, expected LenaKeyError (no key 'a ')" % (r,))
except LenaKeyError:
    pass
# format_update_with goes through format_context
d = {" a": 1, "a": 2}
format_update_with("o", "{{ a}}", d)
if d["o"] != "1":
    bad.append("format_update_with('o', '{{ a}}', ..) wrote %r, expected '1'" % (d["o"],))
if bad:
    print("\n".join(bad))
    sys.exit(1)
print("demo_2: ok")
