"""C08 candidate 6: get_recursively refactored to "try: d = d[key] ... except (KeyError, TypeError, IndexError)".
Identical on plain dictionaries with None/bool/int/str/float/list values.  Differs on a context that is (or holds) a
collections.defaultdict - a dict subclass, accepted everywhere in lena - and on values that can be indexed with a string.
Property: an absent item gives the default / LenaKeyError, contains agrees with get_recursively, the dictionary is left untouched."""
import sys, collections, copy
from lena.context import get_recursively, contains, UpdateContext, DeleteContext
from lena.core import LenaKeyError

bad = []
ctx = collections.defaultdict(dict, {"a": 1})
before = copy.deepcopy(ctx)
r = get_recursively(ctx, "b.c", default="dflt")
if r != "dflt":
    bad.append("get_recursively(ctx, 'b.c', default) = %r" % (r,))
if ctx != before:
    bad.append("a lookup of an absent key changed the context: %r -> %r" % (dict(before), dict(ctx)))
ctx = collections.defaultdict(dict, {"a": 1})
try:
    r = get_recursively(ctx, ["output"])
    bad.append("absent item 'output': expected LenaKeyError, got %r (contains says %r)" % (r, contains(ctx, "output")))
except LenaKeyError:
    pass
# UpdateContext(value=True, skip_on_missing=True) must not touch the context when the key is missing
ctx = collections.defaultdict(dict, {"a": 1})
UpdateContext("x", "{{variable.name}}", value=True, skip_on_missing=True)((0, ctx))
if dict(ctx) != {"a": 1}:
    bad.append("UpdateContext(.., skip_on_missing=True) changed the context to %r" % (dict(ctx),))
# DeleteContext of an absent key must not touch the context
ctx = collections.defaultdict(dict, {"a": 1})
DeleteContext("b.c")((0, ctx))
if dict(ctx) != {"a": 1}:
    bad.append("DeleteContext('b.c') changed the context to %r" % (dict(ctx),))
if bad:
    print("\n".join(bad))
    sys.exit(1)
print("demo_6: ok")
