"""C08 candidate 4: to_string rounds floats to 12 significant digits ("hash-stable").
Property: to_string is canonical - ... different dictionaries give different strings."""
import sys
from lena.context import to_string

bad = []
pairs = [
    ({"x": 0.1 + 0.2}, {"x": 0.3}),
    ({"scale": 1.0000000000001}, {"scale": 1.0}),
    ({"edges": [0.0, 1e-13]}, {"edges": [0.0, 1.00000000000004e-13]}),
    ({"a": {"b": 2.5000000000000004}}, {"a": {"b": 2.5}}),
]
for d1, d2 in pairs:
    assert d1 != d2
    if to_string(d1) == to_string(d2):
        bad.append("different dictionaries %r and %r give the same string %s" % (d1, d2, to_string(d1)))
# sanity: what the check generates is unchanged
assert to_string({"a": 2.5, "b": [1.0, float("inf")], "c": 0.0}) == '{"a":2.5,"b":[1.0,Infinity],"c":0.0}'
if bad:
    print("\n".join(bad))
    sys.exit(1)
print("demo_4: ok")
