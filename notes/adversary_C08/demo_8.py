"""C08 candidate 8: to_string passes default=str to json.dumps ("numpy numbers and other objects are written as strings").
Property: different dictionaries give different strings (and an unserialisable item is LenaValueError)."""
import sys, decimal
from lena.context import to_string
from lena.core import LenaValueError

bad = []
d1, d2 = {"a": decimal.Decimal("1.5")}, {"a": "1.5"}
try:
    if to_string(d1) == to_string(d2):
        bad.append("different dictionaries %r and %r give the same string %s" % (d1, d2, to_string(d1)))
except LenaValueError:
    pass
try:
    r = to_string({"a": {1, 2}})
    bad.append("to_string({'a': {1, 2}}) = %r, expected LenaValueError" % (r,))
except LenaValueError:
    pass
if bad:
    print("\n".join(bad))
    sys.exit(1)
print("demo_8: ok")
