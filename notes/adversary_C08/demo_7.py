"""C08 candidate 7: DeleteContext.__call__ tests the sub-context with hasattr(subcont, "__delitem__") ("any mapping will do")
instead of isinstance(subcont, dict).  A key that lies below a list is no longer ignored: builtin TypeError.
Property: DeleteContext ... a missing key is ignored, never another exception; every other item untouched."""
import sys, copy
from lena.context import DeleteContext

bad = []
for key, ctx in (("a.b", {"a": "abc"}), (["a", "x"], {"a": ["x", "y"]}), ("cuts.pt", {"cuts": ["pt", "eta"]}), ("a.b", {"a": 5})):
    c = copy.deepcopy(ctx)
    try:
        DeleteContext(key)((0, c))
        if c != ctx:
            bad.append("DeleteContext(%r) changed %r to %r" % (key, ctx, c))
    except Exception as e:
        bad.append("DeleteContext(%r) on %r raised %s: %s" % (key, ctx, type(e).__name__, e))
if bad:
    print("\n".join(bad))
    sys.exit(1)
print("demo_7: ok")
