"""C08 candidate 5: UpdateContextFromStatic.run (lena/meta/elements.py, an anchored file of C08) no longer deep-copies the
static context ("update_recursively does not change its second argument" - true, but it inserts its sub-dictionaries).
Property (title: context ... update elements touch exactly the named item): updating one value's context must leave
every other item - here: the contexts of the other values and the element's static context - untouched."""
import sys
from lena.meta.elements import UpdateContextFromStatic
from lena.context import UpdateContext

bad = []
el = UpdateContextFromStatic()
el._set_context({"data": {"detector": "far"}})
vals = list(el.run([(1, {}), (2, {})]))
# a later element changes the context of the first value only
UpdateContext("data.cycle", 2)(vals[0])
if vals[1][1] != {"data": {"detector": "far"}}:
    bad.append("updating the context of value 1 changed the context of value 2: %r" % (vals[1][1],))
if el._context != {"data": {"detector": "far"}}:
    bad.append("... and the static context of the element: %r" % (el._context,))
if bad:
    print("\n".join(bad))
    sys.exit(1)
print("demo_5: ok")
