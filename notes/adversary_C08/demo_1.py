"""C08 candidate 1: UpdateContext copies only dict/list items; tuples, sets and other containers are shared.
Property: the addressed item becomes "a deep copy of another context item" / "the given value" and every other item is untouched."""
import sys
from lena.context import UpdateContext

bad = []
# (a) context value: a tuple of lists (e.g. histogram edges) copied to another place
ctx = {"hist": {"edges": ([0, 1, 2], [0, 5])}}
data, out = UpdateContext("plot.edges", "{{hist.edges}}", value=True)((1, ctx))
if out["plot"]["edges"] != ([0, 1, 2], [0, 5]):
    bad.append("wrong value copied")
out["plot"]["edges"][0].append(99)          # change the inserted item in place
if out["hist"]["edges"] != ([0, 1, 2], [0, 5]):
    bad.append("changing the inserted item changed the source item: %r" % (out["hist"]["edges"],))

# (b) default that is a set: shared by the contexts of all values of the flow
el = UpdateContext("cuts", "{{selection.cuts}}", value=True, default=set())
c1 = el((1, {}))[1]
c2 = el((2, {}))[1]
c1["cuts"].add("pt>5")
if c2["cuts"] != set():
    bad.append("the default object is shared between values: %r" % (c2["cuts"],))
if el((3, {}))[1]["cuts"] != set():
    bad.append("the element's default was changed through a context")

# (c) simple update with a tuple holding a dictionary
el = UpdateContext("style", ({"colour": "red"}, 2))
s1 = el((1, {}))[1]
s1["style"][0]["colour"] = "blue"
if el((2, {}))[1]["style"] != ({"colour": "red"}, 2):
    bad.append("simple update value is shared between values")

if bad:
    print("\n".join(bad))
    sys.exit(1)
print("demo_1: ok")
