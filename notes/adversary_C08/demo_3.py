"""C08 candidate 3: format_update_with (and SetContext through it) also formats strings inside a dictionary value.
Property: format_update_with changes exactly the addressed item - to the given value [when the value is not a
template string] - ... a missing key -> LenaKeyError only for a template *value*."""
import sys
from lena.context import format_update_with
from lena.meta import SetContext
from lena.core import LenaKeyError, LenaValueError

bad = []
d = {"name": "x"}
given = {"title": "{{name}}", "n": 1}
format_update_with("plot", given, d)
if d != {"name": "x", "plot": {"title": "{{name}}", "n": 1}}:
    bad.append("format_update_with('plot', %r, ..) wrote %r: not the given value" % (given, d["plot"]))
# a dictionary value whose string is not a template at all: must be stored as given, no exception
d = {}
try:
    format_update_with("latex", {"preamble": "\\newcommand{\\x}{1}"}, d)
    if d != {"latex": {"preamble": "\\newcommand{\\x}{1}"}}:
        bad.append("value changed: %r" % (d,))
except (LenaValueError, LenaKeyError, ValueError, IndexError) as e:
    bad.append("format_update_with('latex', {'preamble': '\\newcommand{\\x}{1}'}, {}) raised %s for a plain dictionary value"
               % type(e).__name__)
# SetContext
el = SetContext("output", {"filename": "{{variable}}_{{cut}}"})
got = el._get_context() if hasattr(el, "_static_context") else None
if got != {"output": {"filename": "{{variable}}_{{cut}}"}}:
    bad.append("SetContext('output', {'filename': '{{variable}}_{{cut}}'}) static context: %r" % (got,))
if bad:
    print("\n".join(bad))
    sys.exit(1)
print("demo_3: ok")
