"""C12 demo 4: rescaling a histogram (scale(s), set_nevents(n)) multiplies every cell exactly once by s/old scale
(n/old events) -- also when rows of the bins are the same list object (bins=[[1, 2]] * 2, or a row re-used for
several x)."""
import sys
from lena.structures import histogram

bad = []
row = [1, 2]
h = histogram([[0, 1, 2], [0, 1, 2]], bins=[row, row])      # integral 6, 6 events
h.scale(12)
if h.bins != [[2.0, 4.0], [2.0, 4.0]] or h.scale(recompute=True) != 12:
    bad.append("scale(12) of a histogram with scale 6: bins %s (expected [[2, 4], [2, 4]]), recomputed scale %s"
               % (h.bins, h.scale(recompute=True)))
h = histogram([[0, 1, 2], [0, 1, 2]], bins=[[1, 2]] * 2)
h.set_nevents(12)
if h.bins != [[2, 4], [2, 4]] or h.get_nevents() != 12:
    bad.append("set_nevents(12) of a histogram with 6 events: bins %s, get_nevents() = %s" % (h.bins, h.get_nevents()))
if bad:
    print("\n".join(bad))
    sys.exit(1)
print("demo_4: ok")
