"""C12 demo 2: iter_cells restricted to index ranges must agree with iter_bins / iter_bins_with_edges restricted to
the same index ranges (content, index, edges) -- also when the ranges are passed as the second positional argument,
iter_cells(hist, ranges), as the documented signature iter_cells(hist, ranges=None, coord_ranges=None) allows."""
import sys
from lena.structures import histogram
from lena.structures.hist_functions import iter_cells, iter_bins, iter_bins_with_edges

h = histogram([0, 10, 20, 30, 40], bins=[1, 2, 3, 4])
ranges = ((1, 3),)
want_idx = [(i, v) for i, v in iter_bins(h.bins) if 1 <= i[0] < 3]
want_edges = [ed for k, (v, ed) in enumerate(iter_bins_with_edges(h.bins, h.edges)) if 1 <= k < 3]
got = list(iter_cells(h, ranges))
ok = ([(c.index, c.bin) for c in got] == want_idx and [tuple(c.edges) for c in got] == [tuple(e) for e in want_edges])
# two-dimensional
h2 = histogram([[0, 1, 2, 3], [0, 5, 10]], bins=[[1, 2], [3, 4], [5, 6]])
r2 = ((0, 2), (1, 2))
want2 = [(i, v) for i, v in iter_bins(h2.bins) if 0 <= i[0] < 2 and 1 <= i[1] < 2]
got2 = [(c.index, c.bin) for c in iter_cells(h2, r2)]
if not ok or got2 != want2:
    print("iter_cells(h, ((1, 3),)) yields", [(c.index, c.bin) for c in got], "iter_bins in that index range:", want_idx)
    print("iter_cells(h2, ((0, 2), (1, 2))) yields", got2, "iter_bins in that index range:", want2)
    sys.exit(1)
print("demo_2: ok")
