"""C12 demo 3: a graph made by hist_to_graph(hist, scale=1) (a normalised density: the documented meaning of a
numeric *scale*) has scale 1; rescaling it to s must multiply the value column by s/1 and make scale() equal s."""
import sys
from lena.structures import histogram, hist_to_graph

bad = []
for one in (1, 1.0):
    h = histogram([0, 1, 2, 4], bins=[2, 4, 1])          # integral 8
    g = hist_to_graph(h, scale=one)
    if g.scale() != 1:
        bad.append("hist_to_graph(h, scale=%r).scale() = %r, expected 1" % (one, g.scale()))
    g.scale(3)
    if list(g.coords[1]) != [6.0, 12.0, 3.0] or list(g.coords[0]) != [0, 1, 2]:
        bad.append("graph of scale %r rescaled to 3: y = %s, expected [6, 12, 3] (contents * 3/1)" % (one, g.coords[1]))
if bad:
    print("\n".join(bad))
    sys.exit(1)
print("demo_3: ok")
