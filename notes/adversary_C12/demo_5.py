"""C12 demo 5: scale_to / GroupScale with a numeric target rescale every structure of the group to that number
(contents * s/old scale, scale() == s) -- for every kind of number, e.g. fractions.Fraction (numbers.Number)."""
import sys
from fractions import Fraction
from lena.structures import histogram, graph
from lena.flow import GroupScale

h = histogram([0, 1, 2], bins=[1, 3])                 # integral 4
g = graph([[0, 1], [2, 6]], scale=4)
try:
    GroupScale(Fraction(1, 2))([h, g])
except Exception as err:
    print("GroupScale(Fraction(1, 2)) raised %s: %s" % (type(err).__name__, err))
    sys.exit(1)
if [float(v) for v in h.bins] != [0.125, 0.375] or list(g.coords[1]) != [0.25, 0.75] or h.scale() != 0.5 or g.scale() != 0.5:
    print("group rescaled to 1/2:", h.bins, g.coords, h.scale(), g.scale())
    sys.exit(1)
print("demo_5: ok")
