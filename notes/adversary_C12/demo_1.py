"""C12 demo 1: graph.scale must multiply exactly the last coordinate and its error columns by s/old scale and
leave the other coordinates untouched -- also when two columns of the graph are the same list object
(y = x, or symmetric errors given once for error_y_low and error_y_high)."""
import sys
from lena.structures import graph

bad = []
# 1. the diagonal y = x given as the same list
xs = [1.0, 2.0, 3.0]
g = graph([xs, xs], field_names=("x", "y"), scale=2)
g.scale(4)
if list(g.coords[0]) != [1.0, 2.0, 3.0] or list(g.coords[1]) != [2.0, 4.0, 6.0]:
    bad.append("graph([xs, xs]) rescaled 2 -> 4: x = %s (must stay [1, 2, 3]), y = %s (must be [2, 4, 6])"
               % (g.coords[0], g.coords[1]))
# 2. symmetric errors: one list for error_y_low and error_y_high
x, y, e = [0.0, 1.0, 2.0], [4.0, 8.0, 12.0], [0.5, 1.0, 1.5]
g = graph([x, y, e, e], field_names=("x", "y", "error_y_low", "error_y_high"), scale=1)
g.scale(2)
if list(g.coords[2]) != [1.0, 2.0, 3.0] or list(g.coords[3]) != [1.0, 2.0, 3.0] or list(g.coords[1]) != [8.0, 16.0, 24.0]:
    bad.append("errors given once for low and high, rescaled 1 -> 2: error columns %s / %s, must be [1, 2, 3]"
               % (g.coords[2], g.coords[3]))
if bad:
    print("\n".join(bad))
    sys.exit(1)
print("demo_1: ok")
