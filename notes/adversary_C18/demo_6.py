"""C18 adversary 6: a filled Cache two Sequences deep; Cache.alter_sequence must hoist it into a Source, so that
no element upstream of it is run - also one whose `run` is an ordinary method that reads its input when called
(this is what alter_sequence is for: Sequence.run calls el.run(flow) of every element)."""
import os, sys, tempfile
from lena.core import Source, Sequence
from lena.flow import Cache

ran = []

class Sort(object):
    """not a generator: consumes the flow when run is called"""
    def run(self, flow):
        vals = sorted(flow)
        ran.append(len(vals))
        return iter(vals)

name = os.path.join(tempfile.mkdtemp(), "c.pkl")
inner = Sequence(Sequence(Cache(name)))
seq = Sequence(Sort(), inner, lambda x: x + 1)
first = list(seq.run(iter([3, 1, 2])))
del ran[:]
pulled = []
def upstream():
    for v in [9, 8]:
        pulled.append(v)
        yield v
alt = Cache.alter_sequence(seq)
later = list(alt()) if isinstance(alt, Source) else list(alt.run(upstream()))
print("first:", first, "later:", later, "hoisted:", isinstance(alt, Source), "pulled from upstream:", pulled, "upstream element ran:", ran)
if first != [2, 3, 4] or later != [2, 3, 4] or pulled or ran:
    print("C18 VIOLATED: the later run (alter_sequence) pulled values from / ran an element of the upstream")
    sys.exit(1)
print("OK")
