"""C18 adversary 8: the cache file lies in a directory that does not exist yet, two levels deep
(Cache creates the directory of its file): the first complete run must yield the flow unaltered and store it."""
import os, sys, tempfile
from lena.core import Source
from lena.flow import Cache

name = os.path.join(tempfile.mkdtemp(), "cache", "hists", "c.pkl")
try:
    first = list(Source(lambda: iter([1, 2, 3]), Cache(name))())
    later = list(Source(lambda: iter([7]), Cache(name))())
except Exception as e:
    print("C18 VIOLATED: the first run through the Cache raised", type(e).__name__, e)
    sys.exit(1)
print("first:", first, "later:", later)
if first != [1, 2, 3] or later != [1, 2, 3]:
    print("C18 VIOLATED")
    sys.exit(1)
print("OK")
