"""C18 adversary 3: a pipeline object (its Cache element) replays the cache; then the cache is recomputed through
another Cache object on the same file (e.g. recompute=True given on the command line of another sequence);
every later run must yield exactly the values stored NOW."""
import os, sys, tempfile
from lena.core import Source
from lena.flow import Cache

name = os.path.join(tempfile.mkdtemp(), "c.pkl")
list(Source(lambda: iter([1, 2, 3]), Cache(name))())          # first complete run stores 1 2 3
s = Source(lambda: iter([]), Cache(name))
replay1 = list(s())
list(Source(lambda: iter([7, 8]), Cache(name, recompute=True))())   # recompute stores 7 8
replay2 = list(s())
print("replay:", replay1, "after the recomputation:", replay2)
if replay1 != [1, 2, 3] or replay2 != [7, 8]:
    print("C18 VIOLATED: a later run did not yield the stored values")
    sys.exit(1)
print("OK")
