"""C18 adversary 10: a flow of length 0: the first complete run stores it (an empty cache), and every later run
yields exactly the stored values (none) without pulling from the upstream."""
import os, sys, tempfile
from lena.core import Source
from lena.flow import Cache

name = os.path.join(tempfile.mkdtemp(), "c.pkl")
first = list(Source(lambda: iter([]), Cache(name))())
pulled = []
def upstream():
    for v in [7, 8]:
        pulled.append(v)
        yield v
later = list(Source(upstream, Cache(name))())
print("first:", first, "later:", later, "pulled:", pulled)
if first != [] or later != [] or pulled:
    print("C18 VIOLATED: the complete (empty) flow was not stored; the later run pulled from the upstream")
    sys.exit(1)
print("OK")
