"""C18 adversary 1: a Cache in a Sequence member of a Split that also has a member of another type
(FillCompute).  The flow (5 values) is longer than the buffer (2)."""
import os, pickle, sys, tempfile
from lena.core import Source, Sequence, Split
from lena.flow import Cache, CountFrom, Slice


class Sum(object):
    """a FillCompute element"""
    def __init__(self):
        self.s = 0
    def fill(self, val):
        self.s += val
    def compute(self):
        yield ("sum", self.s)


name = os.path.join(tempfile.mkdtemp(), "c.pkl")
s = Source(CountFrom(0), Slice(5), Split([Sequence(Cache(name)), Sum()], bufsize=2))
first = [v for v in s() if not isinstance(v, tuple)]
stored = []
with open(name, "rb") as f:
    while True:
        try:
            stored.append(pickle.load(f))
        except EOFError:
            break
later = list(Source(CountFrom(10), Slice(7), Cache(name))())
print("first run through the Cache member:", first)
print("cache file:", stored)
print("later run:", later)
if first != [0, 1, 2, 3, 4] or stored != [0, 1, 2, 3, 4] or later != [0, 1, 2, 3, 4]:
    print("C18 VIOLATED: the flow is 0 1 2 3 4; a prefix (one buffer) was stored and is served as the complete flow")
    sys.exit(1)
print("OK")
