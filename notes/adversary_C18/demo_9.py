"""C18 adversary 9: the Source that Cache.alter_sequence makes of a Sequence with a filled Cache is kept and
called again (as every lena Source can be): every later run must yield exactly the stored values."""
import os, sys, tempfile, warnings
from lena.core import Source, Sequence
from lena.flow import Cache

warnings.simplefilter("ignore")
name = os.path.join(tempfile.mkdtemp(), "c.pkl")
seq = Sequence(lambda x: x + 1, Cache(name), lambda x: 10 * x)
first = list(seq.run(iter([1, 2, 3])))
alt = Cache.alter_sequence(seq)
later1 = list(alt())
later2 = list(alt())
print("first:", first, "hoisted:", isinstance(alt, Source), "later runs:", later1, later2)
if first != [20, 30, 40] or later1 != first or later2 != first:
    print("C18 VIOLATED: a later run of the hoisted Source did not yield the stored values")
    sys.exit(1)
print("OK")
