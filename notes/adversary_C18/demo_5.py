"""C18 adversary 5: one Sequence object with a Cache whose file name is a template of the static context is used
in two pipelines with different contexts (like tests/example_sequences.lowercase_cached_seq is shared between tests).
The first complete run through the Cache for detector 'near' must yield its flow unaltered and store it."""
import os, sys, tempfile
from lena.core import Source, Sequence
from lena.flow import Cache
from lena.meta import SetContext

d = tempfile.mkdtemp()
cached = Sequence(Cache(os.path.join(d, "{{detector}}_hists.pkl")))
far = list(Source(lambda: iter([1, 2, 3]), SetContext("detector", "far"), cached)())
near = list(Source(lambda: iter([7, 8]), SetContext("detector", "near"), cached)())
print("far:", far, "near:", near, "files:", sorted(os.listdir(d)))
if far != [1, 2, 3] or near != [7, 8] or sorted(os.listdir(d)) != ["far_hists.pkl", "near_hists.pkl"]:
    print("C18 VIOLATED: the first run for 'near' was served the cache of 'far'")
    sys.exit(1)
print("OK")
