"""C18 adversary 2: a filled bare Cache as a member of Split is hoisted into a Source member by alter_sequence;
the same pipeline object is run twice: every later run must yield exactly the stored values."""
import os, sys, tempfile
from lena.core import Source, Split
from lena.flow import Cache

name = os.path.join(tempfile.mkdtemp(), "c.pkl")
list(Source(lambda: iter([1, 2, 3]), Cache(name))())          # first complete run stores 1 2 3
s = Source(lambda: iter([7, 8]), Split([Cache(name)]))
replay1 = list(s())
replay2 = list(s())
print("replay through Split([Cache]):", replay1, "the same object again:", replay2)
if replay1 != [1, 2, 3] or replay2 != [1, 2, 3]:
    print("C18 VIOLATED: a later run did not yield the stored values")
    sys.exit(1)
print("OK")
