"""C18 adversary 7: drop_cache() of a Cache created with recompute=True must remove the stored flow:
after it a run through a plain Cache on that file is a first run again."""
import os, sys, tempfile
from lena.core import Source
from lena.flow import Cache

name = os.path.join(tempfile.mkdtemp(), "c.pkl")
list(Source(lambda: iter([1, 2, 3]), Cache(name))())
Cache(name, recompute=True).drop_cache()
after = list(Source(lambda: iter([7, 8]), Cache(name))())
print("exists after drop_cache:", os.path.exists(name) and after != [7, 8], "run after drop_cache:", after)
if after != [7, 8]:
    print("C18 VIOLATED: drop_cache() did not restore the first-run behaviour")
    sys.exit(1)
print("OK")
