"""C14 adversary candidate 6: Variable.__call__ decides ONCE (at the first application) whether var_context is flat
(strings/numbers only) and then makes a shallow copy; an attribute with a nested value set afterwards is shared
between the variable and every context it produces.
Last sentence: applying a variable changes neither the variable ..., repeated application to equal values gives equal
results."""
import sys
from copy import deepcopy
import lena.core
from lena.variables import Variable

bad = []
e = Variable("E", lambda ev: ev[0], unit="MeV")      # untyped, flat
e((5, 6))                                            # first application
e.range = [0, 100]                                   # documented: attributes can be set with dot notation
before = deepcopy(e.var_context)
d1, c1 = e((5, 6))
snap1 = deepcopy(c1)
if c1["variable"]["range"] is e.var_context["range"]:
    bad.append("context.variable.range IS the variable's own list object")
# a later element narrows the range in the context of ITS value
c1["variable"]["range"][1] = 50
if e.var_context != before:
    bad.append("a change of the produced context changed the variable: %r -> %r" % (before, e.var_context))
d2, c2 = e((5, 6))
if (d2, c2) != (d1, snap1):
    bad.append("two applications to equal values differ: %r / %r" % ((d1, snap1), (d2, c2)))
for m in bad:
    print(m)
if bad:
    print("demo_6: VIOLATION")
    sys.exit(1)
print("demo_6: OK")
