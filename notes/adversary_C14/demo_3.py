"""C14 adversary candidate 3: Compose of ONE variable re-uses that variable's var_context object instead of a copy.
"keep each variable's description": composing a variable (and setting attributes of the composition) must not change
the variable; Compose(v1, v2) and the Sequence (v1, v2) must agree."""
import sys
from copy import deepcopy
import lena.core
from lena.variables import Variable, Compose

bad = []
x = Variable("x", lambda c: c[0], type="coordinate")
before = deepcopy(x.var_context)
# a composition with its own attributes (the chain of 1 variable of the property's quantifier)
x_mm = Compose(x, unit="mm", latex_name="x_{mm}")
if x.var_context != before:
    bad.append("constructing Compose(x, unit=..., latex_name=...) changed x.var_context: %r -> %r" % (before, x.var_context))

y = Variable("y", lambda c: c[1], type="coordinate")
cy = Compose(y)
cy.unit = "cm"                     # an attribute of the composition only
if "unit" in y.var_context:
    bad.append("setting an attribute of Compose(y) changed y: %r" % (y.var_context,))

# Compose(v1, v2) vs the Sequence (v1, v2), where v2 = x, v1 = a particle
p = Variable("positron", lambda ev: ev[0], type="particle")
val = ((1, 2), (3, 4))
a = Compose(p, x)(deepcopy(val))
b = list(lena.core.Sequence(p, x).run([deepcopy(val)]))[0]
want = {"name": "x", "type": "coordinate", "coordinate": {"name": "x"}, "compose": ["particle", "coordinate"],
        "particle": {"name": "positron"}}
for which, r in (("Compose", a), ("Sequence", b)):
    if r[1]["variable"] != want:
        bad.append("%s(positron, x): context.variable %r, expected %r" % (which, r[1]["variable"], want))
for m in bad:
    print(m)
if bad:
    print("demo_3: VIOLATION")
    sys.exit(1)
print("demo_3: OK")
