"""C14 adversary candidate 5: Combine.__init__ tests `if not name` instead of `if name is None`.
Sentence 2: context.variable carries the name of the resulting variable -- the name the Combine was given."""
import sys
from lena.variables import Variable, Combine

x = Variable("x", lambda c: c[0], type="coordinate")
y = Variable("y", lambda c: c[1], type="coordinate")
bad = []
for name in ("xy", ""):
    c = Combine(x, y, name=name)
    got = c((1, 2))[1]["variable"]["name"]
    if got != name:
        bad.append("Combine(x, y, name=%r): context.variable.name is %r" % (name, got))
for m in bad:
    print(m)
if bad:
    print("demo_5: VIOLATION")
    sys.exit(1)
print("demo_5: OK")
