"""C14 adversary candidate 2: the deep copy of var_context in Variable.__call__ replaced by a cached pickle,
invalidated by __setattr__ only.
Sentence 2: context.variable carries the name and attributes of the resulting variable.  var_context is the documented
public dictionary of the variable's attributes; attribute values obtained with dot notation are the variable's own
objects.  Changing them between two applications must reach the context, as it does on the unchanged code."""
import sys
from lena.variables import Variable, Compose

bad = []

# 1. documented public dictionary var_context
x = Variable("x", lambda c: c[0], type="coordinate", unit="mm")
x((1, 2))                                   # first application
x.var_context["unit"] = "cm"                # "var_context is public, so that one can get all attributes"
assert x.unit == "cm"                       # the variable's attribute IS cm
ctx = x((1, 2))[1]["variable"]
if ctx.get("unit") != x.unit:
    bad.append("x.unit is %r but context.variable.unit is %r" % (x.unit, ctx.get("unit")))

# 2. an attribute value changed in place through dot notation
y = Variable("y", lambda c: c[1], type="coordinate", range=[0, 100])
y((1, 2))
y.range[1] = 200
ctx = y((1, 2))[1]["variable"]
if ctx.get("range") != y.range:
    bad.append("y.range is %r but context.variable.range is %r" % (y.range, ctx.get("range")))

# 3. the same for a Compose: Compose(v1, v2) and the Sequence (v1, v2) agree before, not after
p = Variable("positron", lambda ev: ev[0], type="particle")
c = Compose(p, x)
c(((1, 2), (3, 4)))
c.var_context["latex_name"] = "x_{e^+}"
ctx = c(((1, 2), (3, 4)))[1]["variable"]
if ctx.get("latex_name") != c.latex_name:
    bad.append("Compose: latex_name is %r but context.variable.latex_name is %r" % (c.latex_name, ctx.get("latex_name")))

for b in bad:
    print(b)
if bad:
    print("demo_2: VIOLATION (context.variable does not carry the attributes of the variable)")
    sys.exit(1)
print("demo_2: OK")
