"""C14 adversary candidate 4: copy.deepcopy(var_context) in Variable.__call__ replaced by a hand-written copy of
dicts/lists/tuples; every other attribute value (set, bytearray, deque, OrderedDict, numpy array, user object) is
now SHARED between the variable and every context it produced.
Last sentence: applying a variable does not change the variable, repeated application to equal values gives equal
results ("arbitrary extra attributes")."""
import sys
import collections
from copy import deepcopy
from lena.variables import Variable

bad = []
v = Variable("E", lambda ev: ev[0], type="energy", unit="MeV",
             cuts=collections.OrderedDict([("min", 0), ("max", 10)]),    # a dictionary, but not exactly `dict`
             triggers={"mu", "e"})
before = deepcopy(v.var_context)
d1, c1 = v((5, 6))
snapshot1 = deepcopy(c1)
# a later element of the analysis annotates ITS context (contexts are per-value dictionaries and free to be changed)
c1["variable"]["cuts"]["max"] = 7
c1["variable"]["triggers"].add("tau")
c1["variable"]["energy"]["triggers"].discard("mu")
if v.var_context != before:
    bad.append("changing the context produced by v changed v.var_context:\n  %r\n  -> %r" % (before, v.var_context))
d2, c2 = v((5, 6))
if (d2, c2) != (d1, snapshot1):
    bad.append("two applications to equal values give different results:\n  %r\n  %r" % ((d1, snapshot1), (d2, c2)))
for m in bad:
    print(m)
if bad:
    print("demo_4: VIOLATION")
    sys.exit(1)
print("demo_4: OK")
