"""C14 adversary candidate 1: Variable.run with the deep copy of var_context hoisted out of the loop.
Sentence 1: Compose(v1, v2) and the Sequence (v1, v2) must give the same data and context -- for every value of a flow."""
import sys
from copy import deepcopy
import lena.core
from lena.variables import Variable, Compose

v1 = Variable("positron", lambda ev: ev[0], type="particle", latex_name="e^+")
v2 = Variable("x", lambda p: p[0], type="coordinate")
flow = [((1.0, 2.0), (3.0, 4.0)), ((5.0, 6.0), (7.0, 8.0)), ((9.0, 1.0), (2.0, 3.0))]

comp = Compose(v1, v2)
want = [comp(deepcopy(val)) for val in flow]
got = list(lena.core.Sequence(v1, v2).run(deepcopy(flow)))
bad = 0
for i, (w, g) in enumerate(zip(want, got)):
    if w != g:
        bad += 1
        print("value %d: Compose %r\n         Sequence %r" % (i, w, g))
# every result must have its own context.variable (no result may change when another one is changed)
if len(set(id(g[1]["variable"]) for g in got)) != len(got) and not bad:
    bad += 1
    print("results of the Sequence share one context.variable object")
if bad:
    print("demo_1: VIOLATION (Compose != Sequence on a flow of several values)")
    sys.exit(1)
print("demo_1: OK")
