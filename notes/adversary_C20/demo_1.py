"""C20 demo 1: GroupScale behaves differently with only lena.flow imported and with the whole framework imported
(an AttributeError on the lena module -- module 'lena' has no attribute 'structures' -- is swallowed by the
existing `except AttributeError` of scale_to)."""
import subprocess, sys, os
BODY = r'''
import sys
%s
import lena.flow
class S(object):
    def __init__(self): self.s = 1.
    def scale(self, other=None):
        if other is None: return self.s
        self.s = other
grp = [(S(), {})]
try:
    lena.flow.GroupScale(2.)(grp)
    print("scaled to", grp[0][0].s)
except Exception as e:
    print("EXC", type(e).__name__, str(e)[:60])
'''
def run(pre):
    return subprocess.run([sys.executable, "-c", BODY % pre], capture_output=True, text=True, env=os.environ).stdout.strip()
own = run("")
full = run("import lena.context, lena.core, lena.flow, lena.input, lena.math, lena.meta, lena.output, lena.structures, lena.variables")
print("only lena.flow :", own)
print("whole framework:", full)
if own != full or "scaled to 2.0" not in own:
    print("C20 violated: GroupScale(2.) on a group of one user structure depends on what was imported")
    sys.exit(1)
print("demo_1: OK")
