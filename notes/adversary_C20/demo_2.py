"""C20 demo 2: lena.context.contains fails with AttributeError on the lena module (module 'lena' has no attribute
'math') when only lena.context is imported; the failing read sits in the `else:` clause of a try/except Exception,
where the handler does not apply."""
import subprocess, sys, os
BODY = r'''
%s
import lena.context
try:
    print("result", lena.context.contains({"dim": 2.0}, "dim.2"))
except Exception as e:
    print("EXC", type(e).__name__, str(e)[:80])
'''
def run(pre):
    return subprocess.run([sys.executable, "-c", BODY % pre], capture_output=True, text=True, env=os.environ).stdout.strip()
own = run("")
full = run("import lena.context, lena.core, lena.flow, lena.input, lena.math, lena.meta, lena.output, lena.structures, lena.variables")
print("only lena.context:", own)
print("whole framework  :", full)
if own != full or "AttributeError" in own or "NameError" in own:
    print("C20 violated: contains({'dim': 2.0}, 'dim.2') fails on an undefined name / depends on what was imported")
    sys.exit(1)
print("demo_2: OK")
