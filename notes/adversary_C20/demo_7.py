"""C20 demo 7: an invalid argument (bins of a wrong shape) of lena.structures.histogram is reported with the builtin
ValueError and not with the documented LenaValueError: the exception object is created in one statement
(`wrong_bins_error = ValueError(...)`) and raised through the local variable (`raise wrong_bins_error`)."""
import sys
import lena.core, lena.structures
try:
    lena.structures.histogram([0, 1, 2], bins=[1, 2, 3])
    print("no exception"); sys.exit(1)
except lena.core.LenaException as e:
    print("reported with", type(e).__name__)
except Exception as e:
    print("reported with", type(e).__name__)
    print("C20 violated: invalid arguments must be reported with the documented LenaException subclasses")
    sys.exit(1)
print("demo_7: OK")
