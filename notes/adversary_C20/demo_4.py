"""C20 demo 4: Vectorize behaves differently with only lena.math imported and with the whole framework imported: the
AttributeError on the lena module (module 'lena' has no attribute 'structures') is swallowed by the existing
`except AttributeError: fcel = _seq` of Vectorize.__init__, which then takes the sequence for its element."""
import subprocess, sys, os
BODY = r'''
%s
import lena.math, lena.core
class Count(object):
    def __init__(self): self.n = 0
    def fill(self, v): self.n += 1
    def compute(self): yield self.n
    def reset(self): self.n = 0
seq = lena.core.FillComputeSeq(Count())
v = lena.math.Vectorize(seq, dim=2)
print("elements reset:", [type(el).__name__ for el in v._fc_els] if hasattr(v, "_fc_els") else None)
v.fill((1, 2)); v.reset(); v.fill((1, 2))
print("result:", list(v.compute()))
'''
def run(pre):
    r = subprocess.run([sys.executable, "-c", BODY % pre], capture_output=True, text=True, env=os.environ)
    return (r.stdout + r.stderr[-300:]).strip()
own = run("")
full = run("import lena.context, lena.core, lena.flow, lena.input, lena.math, lena.meta, lena.output, lena.structures, lena.variables")
print("only lena.math :", own)
print("whole framework:", full)
if own != full:
    print("C20 violated: Vectorize(FillComputeSeq(...), dim=2) depends on what was imported")
    sys.exit(1)
print("demo_4: OK")
