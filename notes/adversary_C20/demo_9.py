"""C20 demo 9: lena.context.intersection behaves differently with only lena.context imported and with the whole
framework imported -- without any name failure: the code asks `"lena.math" in sys.modules`."""
import subprocess, sys, os
BODY = r'''
%s
import lena.context
print(lena.context.intersection({"x": 0.1 + 0.2, "y": 1}, {"x": 0.3, "y": 1}))
'''
def run(pre):
    r = subprocess.run([sys.executable, "-c", BODY % pre], capture_output=True, text=True, env=os.environ)
    return (r.stdout + r.stderr[-300:]).strip()
own = run("")
full = run("import lena.context, lena.core, lena.flow, lena.input, lena.math, lena.meta, lena.output, lena.structures, lena.variables")
print("only lena.context:", own)
print("whole framework  :", full)
if own != full:
    print("C20 violated: intersection({'x': 0.1 + 0.2, 'y': 1}, {'x': 0.3, 'y': 1}) depends on what was imported")
    sys.exit(1)
print("demo_9: OK")
