"""C20 demo 6: lena.context.difference behaves differently with only lena.context imported and with the whole
framework imported -- without any name failure: the code asks `getattr(lena, "math", None)`, which is an import-order
question (lena.math is an attribute of lena only after somebody imported it)."""
import subprocess, sys, os
BODY = r'''
%s
import lena.context
print(lena.context.difference({"x": 0.1 + 0.2}, {"x": 0.3}))
'''
def run(pre):
    r = subprocess.run([sys.executable, "-c", BODY % pre], capture_output=True, text=True, env=os.environ)
    return (r.stdout + r.stderr[-300:]).strip()
own = run("")
full = run("import lena.context, lena.core, lena.flow, lena.input, lena.math, lena.meta, lena.output, lena.structures, lena.variables")
print("only lena.context:", own)
print("whole framework  :", full)
if own != full:
    print("C20 violated: difference({'x': 0.1 + 0.2}, {'x': 0.3}) depends on what was imported")
    sys.exit(1)
print("demo_6: OK")
