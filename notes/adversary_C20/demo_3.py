"""C20 demo 3: SelectContext.__call__ fails by referring to an undefined name (`copy` is not imported in
lena/flow/selectors.py); the read sits in a `try` whose `except Exception` handler re-raises (raise_on_error=True)
-- and silently turns every selection into False otherwise."""
import sys
import lena.flow
sel = lena.flow.SelectContext("a", lambda c: c == 1, raise_on_error=True)
try:
    res = sel((0, {"a": 1}))
    print("result", res)
except Exception as e:
    print("EXC", type(e).__name__, e)
    if isinstance(e, NameError):
        print("C20 violated: SelectContext('a', pred, raise_on_error=True) fails with NameError")
        sys.exit(1)
    raise
quiet = lena.flow.SelectContext("a", lambda c: c == 1)((0, {"a": 1}))
if res is not True:
    sys.exit(1)
print("demo_3: OK")
