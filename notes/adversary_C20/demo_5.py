"""C20 demo 5: lena.structures.graph.to_csv behaves differently with only lena.structures imported and with the whole
framework imported: a module-level `try: from lena.output import ... except ImportError:` in
lena/structures/graph.py succeeds or fails depending on which of the two circularly importing sub-packages is
imported first (lena.output is partially initialised when it is the one that imports lena.structures)."""
import subprocess, sys, os
BODY = r'''
%s
import lena.structures
g = lena.structures.graph([[0, 1], [2, 3]])
print(repr(g.to_csv()))
'''
def run(pre):
    r = subprocess.run([sys.executable, "-c", BODY % pre], capture_output=True, text=True, env=os.environ)
    return (r.stdout + r.stderr[-300:]).strip()
own = run("")
full = run("import lena.context, lena.core, lena.flow, lena.input, lena.math, lena.meta, lena.output, lena.structures, lena.variables")
print("only lena.structures:", own)
print("whole framework     :", full)
if own != full:
    print("C20 violated: graph([[0, 1], [2, 3]]).to_csv() depends on what was imported")
    sys.exit(1)
print("demo_5: OK")
