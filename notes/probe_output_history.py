"""Design-phase probe (not part of the framework): output pipeline histories with stub converters."""
import os, sys, warnings, shutil, tempfile, glob
warnings.simplefilter("ignore")
import lena.core, lena.flow, lena.structures, lena.output, lena.context
from lena.core import Sequence, Source
from lena.output import *
from lena.structures import histogram
d = tempfile.mkdtemp(); os.chdir(d)
os.environ["STUBLOG"] = os.path.join(d, "stub.log")
os.mkdir("stubbin")
open("stubbin/pdftoppm", "w").write("""#!/bin/sh
echo "pdftoppm $1" >> "$STUBLOG"
fmt=$(echo "$3" | sed 's/^-//')
( echo "PNG-OF:"; cat "$1" ) > "$2.$fmt"
""")
open("stubbin/fakelatex", "w").write("""#!/bin/sh
echo "latex $1" >> "$STUBLOG"
out="${1%.tex}.pdf"
( echo "PDF-OF:"; cat "$1"; for f in $(grep -o 'CSV:[^ ]*' "$1" | sed 's/CSV://'); do echo "--$f"; cat "$f"; done ) > "$out"
""")
os.chmod("stubbin/pdftoppm", 0o755); os.chmod("stubbin/fakelatex", 0o755)
os.environ["PATH"] = os.path.join(d, "stubbin") + ":" + os.environ["PATH"]
os.mkdir("tpl")
def set_tpl(s):
    open("tpl/t.tex","w").write(s)
set_tpl(r"TEMPLATE1 CSV:\VAR{output.filepath} end")
def pipeline():
    return Sequence(
        ToCSV(), MakeFilename("{{name}}"), Write("out", verbose=False),
        RenderLaTeX("t.tex", template_dir="tpl"), Write("out", verbose=False),
        LaTeXToPDF(verbose=0, create_command=lambda tex, out, odir, ctx: ["fakelatex", tex]),
        PDFToPNG(verbose=False),
    )
def data(vals):
    return [(histogram([0,1,2], bins=list(v)), {"name": "p%d" % i}) for i, v in enumerate(vals)]
def runp(vals):
    open(os.environ["STUBLOG"], "w").close()
    res = list(pipeline().run(iter(data(vals))))
    log = open(os.environ["STUBLOG"]).read().split("\n")
    return [(r[0], r[1]["output"].get("changed")) for r in res], [l for l in log if l]
def show(tag, vals):
    r, log = runp(vals)
    pdf = open("out/p0.pdf").read() if os.path.exists("out/p0.pdf") else None
    ok = pdf is not None and ("%f" % vals[0][0]) in pdf
    print(tag, r, log, "PDF fresh:", ok)
show("run1", [(1,2)])
show("run2 same", [(1,2)])
show("run3 data changed", [(5,2)])
os.remove("out/p0.csv")
show("run4 csv deleted, data changed", [(7,2)])
os.remove("out/p0.csv")
show("run5 csv deleted, same data", [(7,2)])
os.remove("out/p0.pdf")
show("run6 pdf deleted", [(7,2)])
os.remove("out/p0.png")
show("run7 png deleted", [(7,2)])
os.remove("out/p0.tex")
show("run8 tex deleted", [(7,2)])
set_tpl(r"TEMPLATE2 CSV:\VAR{output.filepath} end")
show("run9 template changed", [(7,2)])
print(sorted(os.listdir("out")))
