"""Design-phase probe (not part of the framework): FillRequest run vs fill/request schedules, with a watchdog."""
import traceback, copy, signal, sys, itertools
def run(name, f, timeout=3):
    def h(s, fr): raise TimeoutError("TIMEOUT")
    signal.signal(signal.SIGALRM, h); signal.alarm(timeout)
    try:
        r = f()
        print("%-40s -> %r" % (name, r))
    except BaseException as e:
        print("%-40s !! %s: %s" % (name, type(e).__name__, str(e)[:100]))
    finally:
        signal.alarm(0)

import lena, lena.core, lena.flow, lena.context, lena.math, lena.structures
from lena.core import *
from lena.flow import *
from lena.math import Sum

class Acc:
    "fill/compute/reset element listing values"
    def __init__(s): s.v=[]
    def fill(s, x): s.v.append(x)
    def compute(s): yield list(s.v)
    def reset(s): s.v=[]
class Req:
    def __init__(s): s.v=[]
    def fill(s, x): s.v.append(x)
    def request(s): yield list(s.v)
    def reset(s): s.v=[]

# C16
def fr_run(**kw):
    return lambda: list(FillRequest(Acc(), **kw).run(iter(range(7))))
run("FR run bi bufsize3 reset", fr_run(bufsize=3, reset=True, buffer_input=True))
run("FR run bo bufsize3 reset", fr_run(bufsize=3, reset=True, buffer_output=True))
run("FR run yor bufsize3 reset", fr_run(bufsize=3, reset=True, yield_on_remainder=True))
def fr_fill(points, n=7, **kw):
    def f():
        fr = FillRequest(Acc(), **kw); out = []
        for i in range(n):
            fr.fill(i)
            if i in points:
                for j, r in enumerate(fr.request()):
                    out.append(r)
                    if j > 50: out.append("RUNAWAY"); break
        return out
    return f
run("FR fill bi aligned", fr_fill({2,5}, bufsize=3, reset=True, buffer_input=True))
run("FR fill bi end only", fr_fill({6}, bufsize=3, reset=True, buffer_input=True))
run("FR fill bi misaligned {3}", fr_fill({3, 6}, bufsize=3, reset=True, buffer_input=True))
run("FR fill bi misaligned {1,4}", fr_fill({1, 4, 6}, bufsize=3, reset=True, buffer_input=True))
run("FR fill bi misaligned noreset", fr_fill({3, 6}, bufsize=3, reset=False, buffer_input=True))
run("FR fill bo aligned", fr_fill({2,5}, bufsize=3, reset=True, buffer_output=True))
run("FR fill bo end only", fr_fill({6}, bufsize=3, reset=True, buffer_output=True))
run("FR fill bo misaligned", fr_fill({3,6}, bufsize=3, reset=True, buffer_output=True))
# Split around FillRequest
def sp(bs, frbs, **kw):
    def f():
        s = Split([ (FillRequest(Acc(), bufsize=frbs, **kw),) ], bufsize=bs)
        return list(s.run(iter(range(7))))
    return f
run("Split bs=3 fr=3 bi", sp(3,3,reset=True,buffer_input=True))
run("Split bs=2 fr=3 bi", sp(2,3,reset=True,buffer_input=True))
run("Split bs=4 fr=3 bi", sp(4,3,reset=True,buffer_input=True))
run("Split bs=6 fr=3 bi", sp(6,3,reset=True,buffer_input=True))
run("Split bs=6 fr=3 bo", sp(6,3,reset=True,buffer_output=True))
run("Split bs=7 fr=3 bo", sp(7,3,reset=True,buffer_output=True))
run("Split bs=None fr=3 bi", sp(None,3,reset=True,buffer_input=True))
run("FRSeq run", lambda: list(FillRequestSeq(lambda x: x+1, FillRequest(Acc(), bufsize=2, reset=True, buffer_input=True), bufsize=2, reset=False, buffer_input=True).run(iter(range(5)))))
