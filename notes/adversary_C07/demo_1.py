"""C07 candidate 1: intersection is not the greatest common part when the first argument holds one
sub-dictionary object under two keys (copy.deepcopy keeps the sharing, the in-place pruning then prunes both)."""
import sys
from lena.context import intersection

common = {"name": "x", "unit": "cm"}
d1 = {"variable": common, "previous": common}          # the same object twice (a DAG, not a tree)
d2 = {"variable": {"name": "x"}, "previous": {"name": "x", "unit": "cm"}}
res = intersection(d1, d2)
expected = {"variable": {"name": "x"}, "previous": {"name": "x", "unit": "cm"}}
# {"previous": {"name": "x", "unit": "cm"}} is contained in d1 and in d2, so it must be contained in the result
if res != expected:
    print("PROPERTY C07 VIOLATED: intersection(d1, d2) =", res, "is not the greatest common part", expected)
    sys.exit(1)
# commutativity
if intersection(d2, d1) != res:
    print("PROPERTY C07 VIOLATED: not commutative", intersection(d2, d1), res)
    sys.exit(1)
print("OK")
