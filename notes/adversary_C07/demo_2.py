"""C07 candidate 2: difference(d1, d2) drops items of d1 that d2 does not contain, and changes d2, when d2 (or a
sub-dictionary of it) is a dict subclass with __missing__ (collections.defaultdict)."""
import sys
import collections
import copy
from lena.context import difference, intersection, update_recursively

d1 = {"output": {"filetype": "csv", "changed": {}}, "variable": {"name": "x"}}
d2 = collections.defaultdict(dict)
d2["variable"] = {"name": "x"}
d2_before = copy.deepcopy(d2)
diff = difference(d1, d2)
if d2 != d2_before:
    print("PROPERTY C07 VIOLATED: difference changed its argument d2:", dict(d2_before), "->", dict(d2))
    sys.exit(1)
if diff != {"output": {"filetype": "csv", "changed": {}}}:
    print("PROPERTY C07 VIOLATED: difference =", diff)
    sys.exit(1)
rec = intersection(d1, d2)
update_recursively(rec, diff)
if rec != d1:
    print("PROPERTY C07 VIOLATED: no reconstruction", rec)
    sys.exit(1)
# an empty dictionary that d2 does not contain
d2 = collections.defaultdict(dict, {"a": 1})
diff = difference({"a": 1, "b": {}}, d2)
if diff != {"b": {}} or dict(d2) != {"a": 1}:
    print("PROPERTY C07 VIOLATED: difference({'a': 1, 'b': {}}, defaultdict(dict, {'a': 1})) =", diff, "d2 afterwards:", dict(d2))
    sys.exit(1)
print("OK")
