"""C07 candidate 3: update_recursively(d, other) loses items of d that other does not overwrite when a nested value of
other is a dictionary subclass (collections.OrderedDict, lena.context.Context)."""
import sys
import collections
import json
from lena.context import update_recursively, Context

d = {"output": {"filetype": "csv", "filename": "x"}, "a": 1}
# a context read from a file with a stable key order
other = json.loads('{"output": {"filename": "y"}}', object_pairs_hook=collections.OrderedDict)
update_recursively(d, other)
if d != {"output": {"filetype": "csv", "filename": "y"}, "a": 1}:
    print("PROPERTY C07 VIOLATED: update_recursively lost output.filetype, which other does not overwrite:", d)
    sys.exit(1)
d = {"output": {"filetype": "csv", "filename": "x"}, "a": 1}
update_recursively(d, {"output": Context({"filename": "y"})})
if d != {"output": {"filetype": "csv", "filename": "y"}, "a": 1}:
    print("PROPERTY C07 VIOLATED: update_recursively lost output.filetype (Context):", d)
    sys.exit(1)
print("OK")
