"""C15 adversary 8: as demo_1 (a LenaKeyError of the predicate is not 'absent'), and a malformed key is an error of the
specification whatever raise_on_error is."""
import lena.core
from lena.context import get_recursively
from lena.flow import SelectContext

pred = lambda sub: get_recursively(sub, "bins.n") > 10
sc = SelectContext("histogram", pred)
val = (1, {"histogram": {"dim": 1}})
try:
    r = sc(val)
except lena.core.LenaKeyError:
    r = "raised"
assert r == "raised", "SelectContext(raise_on_error=True) returned %r instead of propagating the predicate's exception" % (r,)
print("demo_8: OK")
