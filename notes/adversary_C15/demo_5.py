"""C15 adversary 5: GroupBy preserves ARRIVAL order inside a group."""
from lena.flow import GroupBy

flow = [(3, {"d": "near"}), (1, {"d": "far"}), (2, {"d": "near"}), (0, {"d": "near"}), (-1, {"d": "far"})]
gb = GroupBy("d")
for val in flow:
    gb.fill(val)
groups = [[v[0] for v in grp] for grp in gb.compute()]
assert groups == [[3, 2, 0], [1, -1]], "arrival order inside the groups is [[3, 2, 0], [1, -1]], got %r" % (groups,)
print("demo_5: OK")
