"""C15 adversary 1: SelectContext must apply its predicate to a PRESENT sub-context; with raise_on_error=True an
exception of the predicate propagates (it is not 'absent').  Filter(SelectContext(..)) must not silently drop the value."""
import lena.core
from lena.context import get_recursively
from lena.flow import SelectContext, Filter, Selector

# the predicate looks one level deeper with lena's own accessor
pred = lambda sub: get_recursively(sub, "bins.n") > 10
sc = SelectContext("histogram", pred)            # raise_on_error=True
val = (1, {"histogram": {"dim": 1}})             # the addressed sub-context {"dim": 1} is PRESENT
try:
    r = sc(val)
except lena.core.LenaKeyError:
    r = "raised"
assert r == "raised", "SelectContext(raise_on_error=True) returned %r instead of propagating the predicate's exception" % (r,)
# inside a list: OR must propagate as well, not go on to the next alternative
try:
    r = Selector([sc, int])(val)
except lena.core.LenaKeyError:
    r = "raised"
assert r == "raised", "Selector([SelectContext, int]) gave %r" % (r,)
try:
    kept = list(Filter(sc).run([val]))
except lena.core.LenaKeyError:
    kept = "raised"
assert kept == "raised", "Filter silently dropped the value: %r" % (kept,)
print("demo_1: OK")
