"""C15 adversary 6: a tuple is AND, a list is OR - also when the tuple is a named tuple / the list a list subclass."""
import collections
from lena.flow import Selector, Filter

Cuts = collections.namedtuple("Cuts", ["kind", "positive"])
cuts = Cuts(kind=int, positive=lambda v: v > 0)
assert isinstance(cuts, tuple)
try:
    sel = Selector(cuts)
except Exception as e:
    raise AssertionError("Selector(named tuple of a class and a callable) raised %r" % (e,))
assert [sel(v) for v in (1, -1, 2)] == [True, False, True]
assert list(Filter(cuts).run([1, -1, 2])) == [1, 2]

class Alternatives(list):
    pass
sel = Selector(Alternatives([str, cuts]))
assert [sel(v) for v in ("s", -1, 2)] == [True, False, True]
print("demo_6: OK")
