"""C15 adversary 2: a list is OR, and with raise_on_error=False an exception inside any leaf counts as not selected.
The same specification list is used for two selectors (a strict one for debugging, a lenient one for production)."""
from lena.flow import Selector, Filter

no_len = lambda v: len(v) > 100          # raises TypeError on a number
spec = [no_len, int]

strict = Selector(spec)                              # raise_on_error=True: may raise, fine
lenient = Selector(spec, raise_on_error=False)       # leaf error = not selected, then `int` selects 1

r = lenient(1)
assert r is True, "Selector([no_len, int], raise_on_error=False)(1) == %r, the OR of (error -> False, True) is True" % (r,)
kept = list(Filter(lenient).run([1, "s", 2]))
assert kept == [1, 2], kept
# and the specification the user wrote is still what he wrote
assert spec[1] is int, "the user's list was changed: %r" % (spec,)
print("demo_2: OK")
