"""C15 adversary 10: a class tests the type of the data (isinstance) - abstract base classes included."""
import numbers
import collections.abc
from lena.flow import Selector, Filter

assert Selector(numbers.Number)(1.5) is True, "1.5 is a numbers.Number"
assert Selector(numbers.Integral)((3, {"a": 1})) is True
assert Selector(collections.abc.Mapping)({"x": 1}) is True
assert Selector(collections.abc.Sequence)("s") is True
assert list(Filter(numbers.Number).run([1, "s", 2.5, None])) == [1, 2.5]
print("demo_10: OK")
