"""C15 adversary 3: two values share a group exactly when their contexts agree on the group_by paths.  A source that
re-uses one context dictionary and updates it between the values (usual in lena sources: the run number changes)."""
import copy
from lena.flow import GroupBy

def source():
    ctx = {"run": 1, "detector": "near"}
    for data, run in [(10, 1), (11, 1), (20, 2), (21, 2), (30, 3)]:
        ctx["run"] = run                 # updated in place
        yield (data, ctx)

gb = GroupBy("run")
seen = []
for val in source():
    gb.fill(val)
    seen.append((val[0], copy.deepcopy(val[1])))   # what the context was when the value was filled
groups = [[v[0] for v in grp] for grp in gb.compute()]
# reference: the same flow with independent copies of the contexts
ref = GroupBy("run")
for val in seen:
    ref.fill(val)
expected = [[v[0] for v in grp] for grp in ref.compute()]
assert expected == [[10, 11], [20, 21], [30]], expected
assert groups == expected, "GroupBy('run') made %r, the contexts at fill time give %r" % (groups, expected)
print("demo_3: OK")
