"""C15 adversary 4: GroupBy partitions the FILLED values (every filled value is in exactly one group, arrival order kept).
Equal values are still different values of the flow (two events with the same energy in the same detector)."""
from lena.flow import GroupBy

flow = [(1.5, {"detector": "near"}), (2.5, {"detector": "far"}), (1.5, {"detector": "near"}), (1.5, {"detector": "far"}),
        (2.5, {"detector": "far"})]
gb = GroupBy("detector")
for val in flow:
    gb.fill(val)
groups = [[v[0] for v in grp] for grp in gb.compute()]
assert sum(len(g) for g in groups) == len(flow), "%d values were filled, the groups hold %d: %r" % (
    len(flow), sum(len(g) for g in groups), groups)
assert groups == [[1.5, 1.5], [2.5, 1.5, 2.5]], groups
print("demo_4: OK")
