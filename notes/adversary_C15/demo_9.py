"""C15 adversary 9: with raise_on_error=False an exception inside ANY leaf counts as not selected instead of propagating -
also an exception class defined by lena itself."""
import lena.core
from lena.context import get_recursively
from lena.flow import Selector, Not, Filter, get_data

# data may be a (value, error) pair with a dictionary, or a bare number: get_recursively refuses a non-dictionary
big_err = lambda v: get_recursively(get_data(v), "error.stat") > 0.5

sel = Selector([big_err, str], raise_on_error=False)
flow = [{"error": {"stat": 0.7}}, 3, "s", {"error": {"stat": 0.1}}]
try:
    r = [bool(sel(v)) for v in flow]
except lena.core.LenaTypeError as e:
    raise AssertionError("Selector(.., raise_on_error=False) propagated %r" % (e,))
assert r == [True, False, True, False], r
assert Not(big_err, raise_on_error=False)(3) is True
assert list(Filter(sel).run(flow)) == [flow[0], "s"]
print("demo_9: OK")
