"""C15 adversary 7: a string tests the context with contains: the dotted string addresses a key, or a value whose str()
is the last part.  A list is a value (an opaque JSON value for lena), str(['x', 'y']) != 'x'."""
from lena.context import contains
from lena.flow import Selector, Not, Filter

ctx = {"output": {"formats": ["pdf", "png"]}, "variable": {"range": (0, 1)}}
val = (1, ctx)
assert contains(ctx, "output.formats.pdf") is False, "contains(.., 'output.formats.pdf') is True"
assert Selector("output.formats.pdf")(val) is False
assert Not("output.formats.png")(val) is True
assert list(Filter("output.formats.pdf").run([val])) == []
# the documented comparison with the string representation still holds
assert contains({"a": {"b": ["x"]}}, "a.b.['x']") is True
print("demo_7: OK")
