"""C15 adversary 11: GroupBy partitions the filled values by their contexts; a value without a context has the empty
context - also when its data is a pair (a 2-dimensional point)."""
from lena.flow import GroupBy

flow = [(1.0, 2.0), ((0.5, 1.5), {"detector": "far"}), (3.0, 4.0), ((2.5, 3.5), {"detector": "far"})]
gb = GroupBy("detector")
for val in flow:
    try:
        gb.fill(val)
    except Exception as e:
        raise AssertionError("GroupBy('detector').fill(%r) raised %r" % (val, e))
groups = list(gb.compute())
assert groups == [[(1.0, 2.0), (3.0, 4.0)], [flow[1], flow[3]]], groups
print("demo_11: OK")
