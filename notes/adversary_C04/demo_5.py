"""C04 sentence 1, Split.run with a Source branch in front: the branches after it must stay independent."""
import sys
import lena.context
import lena.core
import lena.math


def run(branches, flow):
    return list(lena.core.Split(branches, bufsize=2).run(iter(flow)))


flow = lambda: [(i, {"variable": {"name": "x"}}) for i in range(3)]
from lena.flow import CountFrom, ISlice
src = lambda: lena.core.Source(CountFrom(10), ISlice(1))
c1 = lambda: (lena.context.UpdateContext("variable.unit", "cm"), lena.math.Sum())
c2 = lambda: (lena.math.Sum(),)
together = run([src(), c1(), c2()], flow())
alone = run([src()], flow()) + run([c1()], flow()) + run([c2()], flow())
print("together", together)
print("alone   ", alone)
if together != alone:
    print("C04 VIOLATED: the last Split branch saw the context update made by the branch before it")
    sys.exit(1)
print("OK")
