"""C04 sentence 1, Zip: every branch works on a private deep copy; the filled values stay untouched."""
import copy
import sys
import lena.context
import lena.core
import lena.flow
import lena.math

z = lena.flow.Zip([
    lena.core.FillComputeSeq(lena.math.Sum()),
    lena.core.FillComputeSeq(lena.context.UpdateContext("variable.unit", "cm"), lena.flow.Count("n")),
])
vals = [(i, {"variable": {"name": "x"}}) for i in range(3)]
snap = copy.deepcopy(vals)
for v in vals:
    z.fill(v)
res = list(z.compute())
print(res)
if vals != snap:
    print("C04 VIOLATED: the last Zip branch worked on the caller's objects, the filled values are now", vals)
    sys.exit(1)
print("OK")
