"""C04 sentence 2, Graph.compute: the yielded context shares nothing with the context of the filled value."""
import copy
import sys
import lena.structures

g = lena.structures.Graph()
vals = [((0, 1), {"variable": {"name": "x"}}), ((1, 2), {"variable": {"name": "x", "range": [0, 2]}})]
snap = copy.deepcopy(vals)
for v in vals:
    g.fill(v)
_, ctx = next(g.compute())
bad = 0
if ctx["variable"] is vals[-1][1]["variable"]:
    print("C04 VIOLATED: Graph.compute() yields a context that shares context.variable with the last filled value")
    bad = 1
ctx["variable"]["unit"] = "cm"     # downstream in-place update
if vals != snap:
    print("   the source data are corrupted:", vals[-1][1])
    bad = 1
_, ctx2 = next(g.compute())
if "unit" in ctx2["variable"]:
    print("   and the later result:", ctx2)
    bad = 1
print("OK" if not bad else "FAILED")
sys.exit(bad)
