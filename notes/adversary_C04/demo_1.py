"""C04 sentence 1, Split.run: a branch that changes its event (a user object, as in lena's tutorials) in place
must not be visible in the next branch.  Exit 1 if it is."""
import sys
import lena.core
import lena.flow
import lena.math


class Event(object):
    def __init__(self, hits):
        self.hits = hits          # a mutable attribute


def calibrate(value):
    # user mutator: changes the data in place
    event = lena.flow.get_data(value)
    for i in range(len(event.hits)):
        event.hits[i] *= 10
    return value


def n_hits_sum(value):
    event, context = lena.flow.get_data_context(value)
    return (sum(event.hits), context)


def run(branches, flow):
    return list(lena.core.Split(branches, bufsize=2).run(iter(flow)))


def flow():
    return [(Event([1, 2]), {"n": {"i": 0}}), (Event([3]), {"n": {"i": 1}}), Event([4, 5])]


b1 = lambda: (calibrate, n_hits_sum, lena.math.Sum())
b2 = lambda: (n_hits_sum, lena.math.Sum())
together = run([b1(), b2()], flow())
alone = run([b1()], flow()) + run([b2()], flow())
print("together", together)
print("alone   ", alone)
if together != alone:
    print("C04 VIOLATED: the second Split branch saw the in-place calibration made by the first one")
    sys.exit(1)
print("OK")
