"""C04 sentence 2 for the framework accumulator lena.structures.NumpyHistogram (fill/request):
the context yielded by request() must share no mutable object with the context of the filled value
nor with a context yielded earlier.  numpy is not installed in /venv, so a minimal pure-Python stand-in for
numpy.histogram is registered (NumpyHistogram only calls numpy.histogram(data, bins=edges))."""
import bisect
import copy
import sys
import types

try:
    import numpy  # noqa: F401
except ImportError:
    np = types.ModuleType("numpy")

    def histogram(a, bins=10, **kwargs):
        edges = list(bins)
        counts = [0] * (len(edges) - 1)
        for x in a:
            if edges[0] <= x <= edges[-1]:
                counts[min(bisect.bisect_right(edges, x) - 1, len(counts) - 1)] += 1
        return counts, edges
    np.histogram = histogram
    sys.modules["numpy"] = np

from lena.structures.numpy_histogram import NumpyHistogram

bad = 0
nh = NumpyHistogram(bins=[0, 1, 2, 3, 4], reset=False)
values = [(0.5, {"variable": {"name": "x"}}), (2.5, {"variable": {"name": "x", "range": [0, 4]}})]
snapshot = copy.deepcopy(values)
for val in values:
    nh.fill(val)
hist1, context1 = next(nh.request())
if context1 is values[-1][1] or context1["variable"] is values[-1][1]["variable"]:
    print("C04 VIOLATED: the context yielded by NumpyHistogram.request() is (shares objects with) the context "
          "of the last filled value")
    bad = 1
# a downstream element updates the result in place (as MakeFilename / UpdateContext do)
context1.setdefault("output", {})["filename"] = "hist_x"
context1["variable"]["name"] = "changed downstream"
if [v[1] for v in values] != [v[1] for v in snapshot]:
    print("C04 VIOLATED: a downstream in-place update corrupted the source data:", values[-1][1])
    bad = 1
hist2, context2 = next(nh.request())
if context2 is context1 or "output" in context2:
    print("C04 VIOLATED: the later result carries the downstream update of the earlier one:", context2)
    bad = 1
print("OK" if not bad else "FAILED")
sys.exit(bad)
