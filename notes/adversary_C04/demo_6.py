"""C04 sentence 2, Mean.compute with a multi-valued sum_seq: the contexts of the values of one compute()
share no mutable object."""
import sys
import lena.core
import lena.flow
import lena.math

m = lena.math.Mean(lena.core.Split([lena.math.Sum(), lena.flow.Count("n_events")]))
for i in range(3):
    m.fill((i, {"variable": {"name": "x"}}))
res = list(m.compute())
print(res)
if res[0][1]["variable"] is res[1][1]["variable"]:
    print("C04 VIOLATED: two values of one Mean.compute() share context.variable")
    res[0][1]["variable"]["unit"] = "cm"
    print("   after a downstream update of the first:", res[1])
    sys.exit(1)
print("OK")
