"""C04 sentence 2: the context yielded by compute() shares no mutable object with the context of a filled value
nor with an earlier result -- here for flows whose contexts are lena.context.Context objects (the dict subclass
that lena's own element lena.context.Context() puts into the flow).  Exit 1 if violated."""
import copy
import sys
import lena.context
import lena.core
import lena.math


def ids(obj, acc):
    if isinstance(obj, (dict, list)):
        acc.add(id(obj))
        for v in (obj.values() if isinstance(obj, dict) else obj):
            ids(v, acc)
    elif isinstance(obj, tuple):
        for v in obj:
            ids(v, acc)
    return acc


bad = 0
for make in (lena.math.Sum, lena.math.DSum, lena.math.Mean, lambda: lena.math.VarianceMeanCount(corrected=False),
             lambda: lena.math.Vectorize(lena.math.Sum(), dim=1)):
    acc = make()
    name = type(acc).__name__
    data = [(1, {"variable": {"name": "x", "range": [0, 4]}}), (3, {"variable": {"name": "x", "range": [0, 4]}})]
    # lena.context.Context() is a lena element: (data, context) -> (data, Context(context))
    flow = list(lena.core.Sequence(lena.context.Context()).run(iter(data)))
    if name == "Vectorize":
        flow = [((d,), c) for d, c in flow]
    snapshot = copy.deepcopy(flow)
    for val in flow:
        acc.fill(val)
    res1 = list(acc.compute())
    filled_ids = set()
    for val in flow:
        ids(val[1], filled_ids)
    shared = ids(res1[0][1], set()) & filled_ids
    if shared:
        print("C04 VIOLATED: %s.compute() yields a context that shares %d mutable object(s) with the context of "
              "a filled value" % (name, len(shared)))
        bad = 1
    # downstream in-place update (what UpdateContext("variable.unit", "cm") does)
    res1[0][1]["variable"]["unit"] = "cm"
    if [v[1] for v in flow] != [v[1] for v in snapshot]:
        print("   the downstream update corrupted the source data:", dict(flow[-1][1]))
        bad = 1
    res2 = list(acc.compute())
    if "unit" in res2[0][1]["variable"]:
        print("   and the later result:", dict(res2[0][1]))
        bad = 1
print("OK" if not bad else "FAILED")
sys.exit(bad)
