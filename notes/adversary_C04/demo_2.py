"""C04 sentence 1, Split driven by fill and Zip: a branch that changes its event (a user object) in place
must not be visible in the other branches nor in the caller's value.  Exit 1 if it is."""
import sys
import lena.core
import lena.flow
import lena.math


class Event(object):
    def __init__(self, hits):
        self.hits = hits          # a mutable attribute


def calibrate(value):
    event = lena.flow.get_data(value)
    for i in range(len(event.hits)):
        event.hits[i] *= 10
    return value


def n_hits_sum(value):
    event, context = lena.flow.get_data_context(value)
    return (sum(event.hits), context)


def flow():
    return [(Event([1, 2]), {"n": {"i": 0}}), (Event([3]), {"n": {"i": 1}}), (Event([4, 5]), {"x": 2})]


b1 = lambda: lena.core.FillComputeSeq(calibrate, n_hits_sum, lena.math.Sum())
b2 = lambda: lena.core.FillComputeSeq(n_hits_sum, lena.math.Sum())
b3 = lambda: lena.core.FillComputeSeq(n_hits_sum, lena.math.Mean())


def filled(el, fl):
    for val in fl:
        el.fill(val)
    return list(el.compute())


bad = 0
alone = filled(b1(), flow()) + filled(b2(), flow()) + filled(b3(), flow())
together = filled(lena.core.Split([b1(), b2(), b3()]), flow())
print("Split.fill together", together)
print("            alone   ", alone)
if together != alone:
    print("C04 VIOLATED: a Split branch (driven by fill) saw the in-place change of data made by another one")
    bad = 1

fl = flow()
zipped = filled(lena.flow.Zip([b1(), b2(), b3()]), fl)
print("Zip", zipped)
if zipped[0][0] != tuple(v[0] for v in alone):
    print("C04 VIOLATED: a Zip branch saw the in-place change of data made by another one")
    bad = 1
if [ev.hits for ev, _ in fl] != [ev.hits for ev, _ in flow()]:
    print("C04 VIOLATED: the values filled into Zip were changed by a branch")
    bad = 1
print("OK" if not bad else "FAILED")
sys.exit(bad)
