"""C06 adversary candidate 6: Histogram.reset() copies the old histogram and replaces its bins (no second check of
the edges) - n_out_of_range survives the reset.  After reset and new fills the sum of bins + n_out_of_range is not
the weight filled (sentence 5, element)."""
import sys
from lena.structures import Histogram

el = Histogram([0, 1, 2])
for v in (0.5, 7, -3):
    el.fill(v)
el.reset()
el.fill(1.5)
h = list(el.compute())[0][0]
got = sum(h.bins) + h.n_out_of_range
if got != 1 or h.n_out_of_range != 0:
    print("VIOLATION: reset(), fill(1.5): bins %r, n_out_of_range %r; sum %r, weight filled since the reset 1"
          % (h.bins, h.n_out_of_range, got))
    sys.exit(1)
print("demo_6: ok")
