"""C06 adversary candidate 3: get_bin_on_value searches axes with more than 32 edges of a multidimensional
histogram with bisect.bisect_left - 1: a coordinate exactly on an edge gets the bin BELOW the edge
(sentences 1 and 4: half-open [low, high); index = number of edges not greater than the value, minus one)."""
import sys
from lena.structures import histogram, get_bin_on_value

xs = [i * 0.5 for i in range(41)]          # 41 edges 0, 0.5, .., 20
edges = [xs, [0, 1, 2]]
bad = []
for coord in [(3.0, 0.5), (3.25, 1), (0, 0), (20.0, 1.5), (19.5, 1.5)]:
    want = [sum(1 for e in a if e <= c) - 1 for c, a in zip(coord, edges)]
    got = get_bin_on_value(coord, edges)
    if got != want:
        bad.append((coord, got, want))
h = histogram(edges)
h.fill((3.0, 0.5), 2)
if h.bins[6][0] != 2:
    bad.append(("fill((3.0, 0.5), 2)", [i for i, r in enumerate(h.bins) if r[0]], "bins[6][0] == 2"))
h.fill((0, 0), 1)                          # on the lowest edge: inside the range
if h.n_out_of_range != 0:
    bad.append(("fill((0, 0))", "n_out_of_range %r" % h.n_out_of_range, 0))
if bad:
    for b in bad:
        print("VIOLATION: %r -> %r, expected %r" % b)
    sys.exit(1)
print("demo_3: ok")
