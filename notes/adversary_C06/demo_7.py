"""C06 adversary candidate 7: the weight is converted to float before it is added to the cell.  Integer weights
are summed exactly by the unchanged code whatever their size (sentence 1: fill adds THE WEIGHT to the cell;
sentence 5: conservation)."""
import sys
from lena.structures import histogram

h = histogram([[0, 1, 2], [0, 1]])
w = 2**53 + 1
h.fill((0.5, 0.5), w)
h.fill((0.5, 0.5), 1)
h.fill((1.5, 0.5), 3)
total = w + 1 + 3
got = sum(sum(r) for r in h.bins) + h.n_out_of_range
if h.bins[0][0] != w + 1 or got != total:
    print("VIOLATION: bins[0][0] = %r (expected %r); sum(bins) + n_out_of_range = %r, total filled weight %r"
          % (h.bins[0][0], w + 1, got, total))
    sys.exit(1)
print("demo_7: ok")
