"""C06 adversary candidate 4: Histogram.compute() hands its histogram over and silently continues with a new
(empty) one.  After fill, compute, fill the element's histogram no longer holds the total filled weight
(sentence 5: sum of bins + n_out_of_range ALWAYS equals the total filled weight, for the element alike).
reset() was not called by anybody."""
import sys
from lena.structures import Histogram

el = Histogram([0, 1, 2])
el.fill(0.5)
el.fill(1.5)
el.fill(7)
first = list(el.compute())[0][0]
el.fill(0.5)
h = list(el.compute())[0][0]
got = sum(h.bins) + h.n_out_of_range
if got != 4 or h.bins != [2, 1] or h.n_out_of_range != 1:
    print("VIOLATION: after 4 fills (one compute() in between, no reset) bins %r, n_out_of_range %r: "
          "sum %r, total filled weight 4" % (h.bins, h.n_out_of_range, got))
    sys.exit(1)
print("demo_4: ok")
