"""C06 adversary candidate 5: direct computation of the bin for edges given as a range object.
(val - start) / step is rounded: the float just below an edge is put into the bin above it
(sentences 1 and 4: half-open intervals; index = number of edges <= value, minus one)."""
import math
import sys
from lena.structures import histogram, get_bin_on_value_1d

bad = []
arr = range(-20, 21, 4)
for e in arr[1:]:
    v = math.nextafter(float(e), -math.inf)
    want = sum(1 for x in arr if x <= v) - 1
    got = get_bin_on_value_1d(v, arr)
    if got != want:
        bad.append((v, got, want))
h = histogram(range(-20, 21, 4))
v = math.nextafter(-12.0, -math.inf)
h.fill(v, 3)
if h.bins[1] != 3:
    bad.append((v, h.bins, "bins[1] == 3"))
if bad:
    for b in bad:
        print("VIOLATION: value %r -> %r, expected %r" % b)
    sys.exit(1)
print("demo_5: ok")
