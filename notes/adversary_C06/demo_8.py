"""C06 adversary candidate 8: the search treats a value within one part in 1e15 of a lower search bound as lying ON
that edge ("robust against rounding").  The float just below an inner edge is then put into the bin above it
(sentences 1 and 4: half-open intervals [low, high); the index is the number of edges <= value, minus one)."""
import math
import sys
from lena.structures import histogram, get_bin_on_value_1d

arr = [0.0, 0.1, 0.2, 0.30000000000000004, 0.4, 0.5, 0.6000000000000001, 0.7000000000000001, 0.8, 0.9, 1.0]
bad = []
for e in arr[1:-1]:
    v = math.nextafter(e, -math.inf)
    want = sum(1 for x in arr if x <= v) - 1
    got = get_bin_on_value_1d(v, arr)
    if got != want:
        bad.append((v, got, want))
if bad:
    for b in bad:
        print("VIOLATION: value %r -> bin %r, expected %r" % b)
    sys.exit(1)
print("demo_8: ok")
