"""C06 adversary candidate 9: a guard against division by (almost) zero in the interpolation: when the remaining
search range is narrower than the machine epsilon the search gives up and returns its lower bound.  Edges of tiny
magnitude (quantifier: tiny and huge magnitudes) are strictly increasing all the same (sentences 1, 4)."""
import sys
from lena.structures import histogram, get_bin_on_value_1d

arr = [0.0, 1e-20, 2e-20, 3e-20, 4e-20, 5e-20]
bad = []
for v in (3.5e-20, 4.5e-20, 2e-20):
    want = sum(1 for x in arr if x <= v) - 1
    got = get_bin_on_value_1d(v, arr)
    if got != want:
        bad.append((v, got, want))
h = histogram(arr)
h.fill(4.5e-20, 2)
if h.bins != [0, 0, 0, 0, 2]:
    bad.append((4.5e-20, h.bins, [0, 0, 0, 0, 2]))
if bad:
    for b in bad:
        print("VIOLATION: value %r -> %r, expected %r" % b)
    sys.exit(1)
print("demo_9: ok")
