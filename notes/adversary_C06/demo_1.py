"""C06 adversary candidate 1: n_out_of_range accumulates in floating point.
Integer weights are summed exactly by the unchanged code, whatever their size."""
import sys
from lena.structures import histogram

h = histogram([0, 1, 2])
big = 2**53            # a large integer weight (e.g. a luminosity-scaled count)
fills = [(5, big), (-1, 1), (7, 1), (0.5, 3)]
for coord, w in fills:
    h.fill(coord, w)
total = sum(w for _, w in fills)
got = sum(h.bins) + h.n_out_of_range
if got != total or h.n_out_of_range != big + 2:
    print("VIOLATION: sum(bins) + n_out_of_range = %r, total filled weight = %r "
          "(n_out_of_range = %r, expected %r)" % (got, total, h.n_out_of_range, big + 2))
    sys.exit(1)
print("demo_1: ok")
