"""C06 adversary candidate 2: n_out_of_range counts entries instead of weights
("n_out_of_range is the number of entries filled outside the range" in the class docstring).
Sentence 2: a fill without a containing cell adds THE WEIGHT to n_out_of_range."""
import sys
from lena.structures import histogram

h = histogram([0, 1, 2])
fills = [(0.5, 2), (5, 3), (-1, 0.5), (1, 1)]
for coord, w in fills:
    h.fill(coord, w)
total = sum(w for _, w in fills)
if h.n_out_of_range != 3.5 or sum(h.bins) + h.n_out_of_range != total:
    print("VIOLATION: n_out_of_range = %r (expected 3.5); sum(bins) + n_out_of_range = %r, total filled weight %r"
          % (h.n_out_of_range, sum(h.bins) + h.n_out_of_range, total))
    sys.exit(1)
print("demo_2: ok")
