"""C11 sentences 1-2: a cell gets exactly the values whose argument falls into it: lo <= x < hi;
values outside the edges are ignored."""
import sys
from lena.variables import Variable
from lena.structures import SplitIntoBins


class Store(object):
    def __init__(self):
        self.vals = []
    def fill(self, v):
        self.vals.append(v)
    def compute(self):
        yield tuple(self.vals)


edges = [0.0, 0.5, 1.0, 1.5]
below_1 = 1.0 - 2 ** -40           # < 1.0: belongs to [0.5, 1.0)
below_0 = -2.0 ** -45               # < 0.0: outside the edges
flow = [0.25, below_1, 1.0, below_0, 1.25]
sib = SplitIntoBins(Store(), Variable("x", lambda x: x), edges)
for v in flow:
    sib.fill(v)
(hist, ctx), = list(sib.compute())
want = [tuple(v for v in flow if lo <= v < hi) for lo, hi in zip(edges, edges[1:])]
if hist.bins != want:
    print("VIOLATED: cells", hist.bins, "expected", want); sys.exit(1)
print("OK")
