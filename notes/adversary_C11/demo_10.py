"""C11 sentence 5: IterateBins yields every cell with its own context (contrast candidate: a shallow copy of
the histogram's context is shared, one level down, by all cells)."""
import sys
from lena.variables import Variable
from lena.structures import SplitIntoBins, IterateBins


class Count(object):
    def __init__(self):
        self.n = 0
    def fill(self, v):
        self.n += 1
    def compute(self):
        yield self.n


sib = SplitIntoBins(Count(), Variable("x", lambda x: x), [0, 1, 2])
sib.fill(0.5); sib.fill(1.5)
out = list(IterateBins(select_bins=int).run(list(sib.compute())))
# a downstream element renames the split variable in the context of the first cell only
out[0][1]["bins"]["variable"]["name"] = "renamed"
if out[1][1]["bins"]["variable"]["name"] != "x":
    print("VIOLATED: the cells' contexts share a dictionary:", out[1][1]); sys.exit(1)
print("OK")
