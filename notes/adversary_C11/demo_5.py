"""C11 sentence 4: the yielded histograms carry the context of the last value inside the edges
(as that value arrived), with context.variable describing the argument variable.
Here the values of the flow share one context dictionary that the source updates in place."""
import sys
from lena.variables import Variable
from lena.structures import SplitIntoBins


class Count(object):
    def __init__(self):
        self.n = 0
    def fill(self, v):
        self.n += 1
    def compute(self):
        yield self.n


def source():
    ctx = {"input": {"file": None}}
    for fname, vals in [("a.dat", [0.5, 1.5]), ("b.dat", [2.5, 7.0])]:
        ctx["input"]["file"] = fname          # the same dictionary for the whole flow
        for v in vals:
            yield (v, ctx)


sib = SplitIntoBins(Count(), Variable("x", lambda x: x), [0, 1, 2, 3])
for val in source():
    sib.fill(val)
(hist, ctx), = list(sib.compute())
assert hist.bins == [1, 1, 1]
want = {"input": {"file": "b.dat"}, "variable": {"name": "x"}}
if ctx != want:
    print("VIOLATED: context of the histogram is", ctx, "expected", want); sys.exit(1)
print("OK")
