"""C11 sentence 5: IterateBins enumerates every cell of a histogram once.
IterateBins(select_bins=<class>) is the documented way "to choose other classes" (see Selector)."""
import sys
import lena.core, lena.flow
from lena.variables import Variable
from lena.structures import SplitIntoBins, IterateBins


class Count(object):
    def __init__(self):
        self.n = 0
    def fill(self, v):
        self.n += 1
    def compute(self):
        yield self.n


sib = SplitIntoBins(Count(), Variable("x", lambda x: x), [0, 1, 2, 3])
for v in [1.5, 2.5, 2.7]:          # nothing falls into the first cell: its count is 0
    sib.fill(v)
hists = list(sib.compute())
assert hists[0][0].bins == [0, 1, 2]
it = IterateBins(select_bins=int)   # iterate histograms whose bins hold integers
try:
    out = list(it.run(hists))
except Exception as e:
    print("VIOLATED: IterateBins raised", repr(e)); sys.exit(1)
cells = [lena.flow.get_data(o) for o in out]
edges = [lena.flow.get_context(o).get("bin", {}).get("edges") for o in out]
if cells != [0, 1, 2] or edges != [((0, 1),), ((1, 2),), ((2, 3),)]:
    print("VIOLATED: IterateBins(select_bins=int) did not enumerate the 3 cells:", out); sys.exit(1)
print("OK")
