"""C11 sentence 6: MapBins returns a histogram whose every cell is the sequence applied to the cell.
select_bins is a general Selector; a string selects by the context of the (example) bin."""
import sys
import lena.core
from lena.variables import Variable
from lena.structures import SplitIntoBins, MapBins
from lena.math import Mean, Sum

flow = [(0.5, {}), (1.5, {}), (1.25, {}), (2.5, {})]
edges = [0, 1, 2, 3]
x = Variable("x", lambda v: v)
# two analyses per cell; their results are told apart by the context of the bins
sib_e = SplitIntoBins(lena.core.FillComputeSeq(Variable("energy", lambda v: 10 * v), Sum()), x, edges)
sib_t = SplitIntoBins(lena.core.FillComputeSeq(Variable("time", lambda v: v), Sum()), x, edges)
hists = []
for sib in (sib_e, sib_t):
    for v in flow:
        sib.fill(v)
    hists.extend(sib.compute())
assert [h.bins[1][0] for h, _ in hists] == [27.5, 2.75]
# scale only the histograms whose bins hold the energy
m = MapBins(Variable("gev", lambda e: e / 10), select_bins="variable.name.energy")
out = list(m.run(hists))
got = [h.bins for h, _ in out]
if got[0] != [0.5, 2.75, 2.5]:
    print("VIOLATED: the selected histogram was not transformed cell by cell:", got[0]); sys.exit(1)
assert got[1] == hists[1][0].bins
print("OK")
