"""C11 sentences 1-2: every cell gets exactly the values whose argument falls into it
(half-open cells: a value on a border belongs to the cell above it)."""
import sys
from lena.variables import Variable
from lena.structures import SplitIntoBins


class Store(object):
    def __init__(self):
        self.vals = []
    def fill(self, v):
        self.vals.append(v)
    def compute(self):
        yield tuple(self.vals)


edges = list(range(0, 21))          # 20 cells [k, k+1)
sib = SplitIntoBins(Store(), Variable("x", lambda x: x), edges)
flow = [0, 0.5, 1, 7, 7.25, 19, 19.5, 20, -1]
for v in flow:
    sib.fill(v)
(hist, ctx), = list(sib.compute())
want = [tuple(v for v in flow if k <= v < k + 1) for k in range(20)]
if hist.bins != want:
    bad = [(k, hist.bins[k], want[k]) for k in range(20) if hist.bins[k] != want[k]]
    print("VIOLATED: (cell, got, expected):", bad); sys.exit(1)
print("OK")
