"""C11 sentence 3: compute() yields histograms over the given edges that hold the per-cell results -
one histogram for every result of the analysis (here: sum and count)."""
import sys
from lena.variables import Variable
from lena.structures import SplitIntoBins


class SumCount(object):
    def __init__(self):
        self.s, self.n = 0, 0
    def fill(self, v):
        self.s += v; self.n += 1
    def compute(self):
        yield self.s
        yield self.n


sib = SplitIntoBins(SumCount(), Variable("x", lambda x: x), [0, 1, 2, 3])
for v in [0.5, 1.5, 1.25, 2.5]:
    sib.fill(v)
results = list(sib.compute())
bins = [h.bins for h, c in results]
if bins != [[0.5, 2.75, 2.5], [1, 2, 1]]:
    print("VIOLATED: the histograms hold", bins, "expected [[0.5, 2.75, 2.5], [1, 2, 1]]"); sys.exit(1)
print("OK")
