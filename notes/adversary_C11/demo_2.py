"""C11 sentence 6: MapBins returns a histogram whose every cell is the sequence applied to the cell.
The "arbitrary bin" that select_bins tests is returned by the constructor argument get_example_bin."""
import sys
import lena.flow
from lena.variables import Variable
from lena.structures import SplitIntoBins, MapBins


class Mean(object):
    """mean of the values of a cell; None for a cell that was never filled"""
    def __init__(self):
        self.s, self.n = 0, 0
    def fill(self, v):
        self.s += v; self.n += 1
    def compute(self):
        yield (self.s / self.n) if self.n else None


sib = SplitIntoBins(Mean(), Variable("x", lambda x: x), [0, 1, 2, 3])
for v in [1.5, 2.5, 2.75]:          # the first cell stays empty
    sib.fill(v)
(hist, ctx), = list(sib.compute())
assert hist.bins == [None, 1.5, 2.625]


def last_bin(struct):
    """an example bin that is filled (the first one may be empty)"""
    bins = getattr(struct, "bins", struct)
    while isinstance(bins, list):
        bins = bins[-1]
    return bins


m = MapBins(lambda x: None if x is None else 2 * x, select_bins=float, get_example_bin=last_bin)
out = list(m.run([(hist, ctx)]))
got = out[0][0].bins
if got != [None, 3.0, 5.25]:
    print("VIOLATED: MapBins did not apply the sequence to the cells:", got); sys.exit(1)
print("OK")
