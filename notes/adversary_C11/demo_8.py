"""C11 sentences 1-2 with large integer coordinates (time stamps in ns, event numbers):
the value 2**60 - 1 lies inside the last cell [10, 2**60)."""
import signal
import sys
from lena.variables import Variable
from lena.structures import SplitIntoBins


class Store(object):
    def __init__(self):
        self.vals = []
    def fill(self, v):
        self.vals.append(v)
    def compute(self):
        yield tuple(self.vals)


def alarm(*a):
    print("VIOLATED: SplitIntoBins.fill does not return (endless search for the cell)")
    sys.exit(1)


signal.signal(signal.SIGALRM, alarm)
signal.alarm(5)
edges = [0, 10, 2 ** 60]
flow = [5, 2 ** 60 - 1, 2 ** 60, 11]
sib = SplitIntoBins(Store(), Variable("t", lambda t: t), edges)
for v in flow:
    sib.fill(v)
(hist, ctx), = list(sib.compute())
signal.alarm(0)
if hist.bins != [(5,), (2 ** 60 - 1, 11)]:
    print("VIOLATED: cells", hist.bins); sys.exit(1)
print("OK")
