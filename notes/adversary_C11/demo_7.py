"""C11 sentences 1-3 for 2-dimensional edges whose axes are sequences other than list/tuple (here: range)."""
import sys
from lena.variables import Variable, Combine
from lena.structures import SplitIntoBins


class Count(object):
    def __init__(self):
        self.n = 0
    def fill(self, v):
        self.n += 1
    def compute(self):
        yield self.n


edges = [range(0, 3), range(0, 4)]          # 2 x 3 cells of unit size
xy = Combine(Variable("x", lambda v: v[0]), Variable("y", lambda v: v[1]))
try:
    sib = SplitIntoBins(Count(), xy, edges)
    for v in [(0.5, 2.5), (1.5, 0.5), (1.5, 0.75), (5, 1), (1, 3)]:
        sib.fill(v)
    (hist, ctx), = list(sib.compute())
except Exception as e:
    print("VIOLATED:", repr(e)); sys.exit(1)
if hist.bins != [[0, 0, 1], [2, 0, 0]] or hist.edges != edges:
    print("VIOLATED: bins", hist.bins); sys.exit(1)
print("OK")
