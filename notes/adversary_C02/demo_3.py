"""C02 candidate 3: Slice(start, -m) keeps alive only the m values it documents (not the skipped ones)."""
import sys, weakref
import lena.core, lena.flow

class V(object):
    __slots__ = ("d", "__weakref__")
    def __init__(self, d): self.d = d

alive = [0]
log = []
def dead(_): alive[0] -= 1
def inp(n):
    refs = []
    for i in range(n):
        log.append(alive[0])
        v = V(i)
        refs.append(weakref.ref(v, dead)); alive[0] += 1
        yield v
        del v
    log.append(alive[0])

seq = lena.core.Sequence(lena.flow.Slice(3, -2))
out = []
for v in seq.run(inp(40)):
    out.append(v.d); del v
assert out == list(range(3, 38)), out
if max(log) > 2 + 1:
    print("C02 violated: Slice(3, -2) kept %d input values alive at a pull (documented: |stop| = 2)" % max(log))
    sys.exit(1)
print("OK max alive", max(log))
