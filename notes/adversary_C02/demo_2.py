"""C02 candidate 2: Source(Chain(it1, it2), f, Slice(3)) pulls from the chained iterators only what Slice(3) needs."""
import sys
import lena.core, lena.flow

class TooMany(Exception):
    pass

pulled = []
def endless():
    i = 0
    while True:
        if i > 5000:
            raise TooMany()
        pulled.append(i)
        yield i
        i += 1

s = lena.core.Source(lena.flow.Chain(endless(), [7, 8]), lambda x: x + 1, lena.flow.Slice(3))
try:
    res = list(s())
except TooMany:
    print("C02 violated: Slice(3) after Source(Chain(<endless iterator>, ...)) does not terminate: %d values pulled" % len(pulled))
    sys.exit(1)
assert res == [1, 2, 3], res
assert pulled == [0, 1, 2], pulled
print("OK", res, pulled)
