"""C02 candidate 1: a Source branch of a Split is iterated on demand.
Sequence(Split([Source(infinite), f], bufsize=2), Slice(3)) must terminate after one block of the input."""
import sys
import lena.core, lena.flow

class TooMany(Exception):
    pass

pulled_inner = []
def endless():
    i = 0
    while True:
        if i > 5000:
            raise TooMany()
        pulled_inner.append(i)
        yield 1000 + i
        i += 1

pulled = []
def inp():
    for i in range(10):
        pulled.append(i)
        yield i

seq = lena.core.Sequence(
    lena.core.Split([lena.core.Source(endless), (lambda x: x,)], bufsize=2),
    lena.flow.Slice(3))
try:
    res = list(seq.run(inp()))
except TooMany:
    print("C02 violated: Slice(3) after Split([Source(endless), f], bufsize=2) does not terminate: "
          "%d values of the Source branch were produced before the first result was handed over" % len(pulled_inner))
    sys.exit(1)
assert res == [1000, 1001, 1002], res
assert pulled == [0, 1], pulled
assert len(pulled_inner) <= 4, pulled_inner
print("OK", res, pulled, len(pulled_inner))
