"""C09 candidate 5: Sum no longer yields the left-to-right sum total + v1 + v2 + ... of the filled floats
(what the builtin sum computed before Python 3.12 and what `Sum` documents: 'total is similar to Python's builtin
sum start', `self._total += data`).  Floats of mixed magnitude whose partial sums are NOT exact."""
import functools
import operator
import sys
import lena.math

vals = [0.1, 0.2, 0.3, 1e16, 1.0, -1e16]
s = lena.math.Sum()
for v in vals:
    s.fill(v)
got = list(s.compute())[0]
want = functools.reduce(operator.add, vals, 0)
print("Sum yields", repr(got), " 0 + v1 + v2 + ... =", repr(want))
sys.exit(0 if got == want else 1)
