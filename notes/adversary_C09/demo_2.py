"""C09 candidate 2: VarianceMeanCount gets a reset() although only sum_sq can be reset.
"If they both can be reset, this object has also a reset() method": here sum_ cannot, so either there is no reset
or reset() makes the element equal to a new one."""
import sys
import lena.core
import lena.math


def new():
    return lena.math.VarianceMeanCount(lena.math.Sum(), lena.core.FillCompute(lena.math.Sum()), corrected=False)


el = new()
if not hasattr(el, "reset"):
    print("no reset method: outside the quantifier, fine")
    sys.exit(0)
for x in (1, 2, 3):
    el.fill(x)
try:
    el.reset()
    print("reset() returned")
except Exception as e:
    print("reset() raised", repr(e))
for x in (10, 20):
    el.fill(x)
fresh = new()
for x in (10, 20):
    fresh.fill(x)
got, want = list(el.compute()), list(fresh.compute())
print("after reset:", got, " new element:", want)
sys.exit(0 if got == want else 1)
