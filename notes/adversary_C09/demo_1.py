"""C09 candidate 1: Sum.compute no longer copies the context it yields.
History fill; compute; compute - a downstream element adds a key to the context it received (lena elements
update contexts in place all the time) - the second compute must still yield the context of the last filled value."""
import sys
import lena.math

s = lena.math.Sum()
s.fill((5, {"a": 1, "variable": {"name": "x"}}))
first = list(s.compute())[0]
# what any following element does with the value it receives
first[1]["output"] = {"filename": "sum.txt"}
first[1]["variable"]["name"] = "renamed"
second = list(s.compute())[0]
print("second compute yields", second)
ok = second == (5, {"a": 1, "variable": {"name": "x"}})
sys.exit(0 if ok else 1)
