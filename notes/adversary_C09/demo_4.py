"""C09 candidate 4: a value just below an inner edge is counted in the bin above it.
Histogram yields the filled histogram: bin i holds the values with edges[i] <= x < edges[i+1]."""
import sys
import lena.structures

h = lena.structures.Histogram([0, 1, 2, 3])
x = 1 - 1e-12            # 0 <= x < 1: bin 0
h.fill(x)
h.fill(0.1 + 0.2 + 0.7 - 1e-15)   # 0.9999999999999990: bin 0
hist = list(h.compute())[0][0]
print(hist.bins, hist.n_out_of_range)
sys.exit(0 if hist.bins == [2, 0, 0] else 1)
