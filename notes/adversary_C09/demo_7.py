"""C09 candidate 7: after reset() a sorting Graph is not equal to a new one: it yields unsorted points
when as many points are filled as it held before the reset."""
import sys
import lena.structures

g = lena.structures.Graph()
g.fill((1, 10)); g.fill((2, 20))
list(g.compute())
g.reset()
fresh = lena.structures.Graph()
for el in (g, fresh):
    el.fill((5, 1)); el.fill((3, 2))
got = [list(y[0].points) for y in g.compute()]
want = [list(y[0].points) for y in fresh.compute()]
print("after reset:", got, " new element:", want)
sys.exit(0 if got == want == [[(3, 2), (5, 1)]] else 1)
