"""C09 candidate 6: after reset() a Sum that had summed floats is not equal to a new Sum():
it keeps float arithmetic, so integers beyond 2**53 are no longer summed exactly."""
import sys
import lena.math

s = lena.math.Sum()
s.fill(0.5)
s.reset()
fresh = lena.math.Sum()
for el in (s, fresh):
    el.fill(2 ** 60 + 1)
    el.fill(1)
got, want = list(s.compute()), list(fresh.compute())
print("after reset:", got, " new element:", want, " Python's sum:", sum([2 ** 60 + 1, 1]))
sys.exit(0 if got == want and repr(got) == repr(want) else 1)
