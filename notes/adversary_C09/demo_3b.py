"""C09 candidate 3: the group key depends on the order of the keys in the context.
GroupBy yields the filled values grouped by key: two values whose contexts are equal belong to one group."""
import sys
import lena.flow

g = lena.flow.GroupBy(("g", "m"))
g.fill((1, {"g": 1, "m": 2}))
g.fill((2, {"m": 2, "g": 1}))      # the same context, written in another order
groups = list(g.compute())
print(groups)
sys.exit(0 if groups == [[(1, {"g": 1, "m": 2}), (2, {"m": 2, "g": 1})]] else 1)
