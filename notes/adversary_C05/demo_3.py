"""C05 sentence 1: a chain gives the same result as a branch of a Split (any bufsize, copy_buf=True by default)
as when run as a Sequence or filled into a FillComputeSeq.  Here the Split has a Sequence branch (a Variable
followed by End) before the chain."""
import sys
from lena.core import Split, Sequence, FillComputeSeq
from lena.flow import StoreFilled, End
from lena.variables import Variable

def chain():
    return (lambda v: v, StoreFilled())

def flow():
    return [(1, {"run": 7}), (2, {"run": 7}), (3, {"run": 8})]

want = list(Sequence(*chain()).run(iter(flow())))
fcs = FillComputeSeq(*chain())
for v in flow():
    fcs.fill(v)
assert list(fcs.compute()) == want
bad = 0
for bufsize in (1, 2, 3, 4, 1000, None):
    sibling = (Variable("sq", lambda x: x * x), End())
    res = list(Split([sibling, chain()], bufsize=bufsize).run(iter(flow())))
    print("bufsize", bufsize, res)
    if res != want:
        bad += 1
if bad:
    print("PROPERTY C05 VIOLATED: as a Split branch the chain gives another result than Sequence/FillComputeSeq:", want)
    sys.exit(1)
print("ok")
