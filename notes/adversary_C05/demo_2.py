"""C05 sentence 1: a chain gives the same result as a branch of a Split (any bufsize) as when run as a Sequence.
Here the Split has a Source branch before the chain."""
import sys
import lena.core
from lena.core import Source, Split, Sequence, FillComputeSeq
from lena.flow import CountFrom, Slice
from lena.math import Sum

def chain():
    return (lambda x: 2 * x, Sum())

flow = [1, 2, 3, 4, 5, 6, 7]
want = list(Sequence(*chain()).run(iter(flow)))            # [56]
fcs = FillComputeSeq(*chain())
for v in flow:
    fcs.fill(v)
assert list(fcs.compute()) == want
bad = 0
for bufsize in (1, 2, 3, 7, 8, 1000, None):
    src = Source(CountFrom(100), Slice(2))
    res = list(Split([src, chain()], bufsize=bufsize).run(iter(flow)))
    # the source yields 100, 101, then comes the result of the chain
    print("bufsize", bufsize, res)
    if res[2:] != want or res[:2] != [100, 101]:
        bad += 1
if bad:
    print("PROPERTY C05 VIOLATED: the branch after a Source gives another result than Sequence/FillComputeSeq", want)
    sys.exit(1)
print("ok")
