"""C05 sentence 1: a chain of callables + accumulator gives the same result by run and by fill.
The callables here are ordinary Python callables (a builtin type, operator.itemgetter, max)."""
import operator
import sys
import lena.core
import lena.flow
from lena.math import Sum

bad = 0
for name, make, flow in [
        ("int", lambda: (int, Sum()), ["1", "2", "3"]),
        ("itemgetter(0)", lambda: (operator.itemgetter(0), Sum()), [(1, 5), (2, 6), (3, 7)]),
        ("max", lambda: (max, lena.flow.StoreFilled()), [(1, 5), (2, 6)]),
]:
    seq = list(lena.core.Sequence(*make()).run(iter(flow)))
    try:
        fcs = lena.core.FillComputeSeq(*make())
        for v in flow:
            fcs.fill(v)
        fill = list(fcs.compute())
    except Exception as e:
        fill = "raised %s" % type(e).__name__
    try:
        split = list(lena.core.Split([make()], bufsize=2).run(iter(flow)))
    except Exception as e:
        split = "raised %s" % type(e).__name__
    print(name, "Sequence:", seq, "FillComputeSeq:", fill, "Split:", split)
    if not (seq == fill == split):
        bad += 1
if bad:
    print("PROPERTY C05 VIOLATED: %d chains of plain callables differ between run and fill" % bad)
    sys.exit(1)
print("ok")
