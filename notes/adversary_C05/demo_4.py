"""C05 sentence 1: post-processing elements (any run element) give the same results in all three drivers.
Here the post-processing uses the static context (SetContext before and after the accumulator,
UpdateContextFromStatic as a run element)."""
import sys
from lena.core import Split, Sequence, FillComputeSeq
from lena.math import Sum
from lena.meta import SetContext, UpdateContextFromStatic

def chain():
    return (SetContext("detector", "far"), lambda v: v + 1, Sum(),
            SetContext("unit", "MeV"), UpdateContextFromStatic())

flow = [1, 2, 3]
want = list(Sequence(*chain()).run(iter(flow)))
fcs = FillComputeSeq(*chain())
for v in flow:
    fcs.fill(v)
fill = list(fcs.compute())
split = list(Split([chain()], bufsize=2).run(iter(flow)))
print("Sequence      ", want)
print("FillComputeSeq", fill)
print("Split         ", split)
if not (want == fill == split):
    print("PROPERTY C05 VIOLATED: the drivers differ")
    sys.exit(1)
print("ok")
