"""C01 candidate 2: Source.__call__ chains the tail elements itself when the first element is callable ("a generator
needs no conversion") and thereby loses the flow_to_iter that Sequence.run applies to the entering flow.  A callable
first element that returns a container (a function returning a list, a class whose __call__ returns a tuple) then
hands a non-iterator to the first tail element; lena.flow.Count (next(flow)) fails, although
Sequence(*tail).run(first()) yields the values: placing elements after the first element changes the result."""
import sys
import lena.core
import lena.flow


def wrap(v):
    return [v]


def data():
    return [1, 2, 3]


class Table(object):
    def __call__(self):
        return (4, 5)


def observed(thunk):
    try:
        return list(thunk())
    except Exception as e:
        return "raised %s: %s" % (type(e).__name__, e)


bad = 0
for name, first in (("function returning a list", data), ("object whose __call__ returns a tuple", Table()),
                    ("generator function", lambda: iter([1, 2, 3]))):
    got = observed(lambda: lena.core.Source(first, lena.flow.Count(), wrap)())
    want = observed(lambda: lena.core.Sequence(lena.flow.Count(), wrap).run(first()))
    if got != want:
        print("C01 violated (%s): Source(first, Count(), wrap)() gave %s, Sequence(Count(), wrap).run(first()) gave %s"
              % (name, got, want))
        bad = 1
print("ok" if not bad else "FAILED")
sys.exit(bad)
