"""C01 candidate 9: Run._fc_run swallows a LenaRuntimeError that ends the incoming flow (raised by an upstream element
or by fill) and computes what was filled so far.  The transformation of a fill/compute element is: fill the whole
flow, then compute; if the flow (or fill) raises, run(flow) raises - nothing is computed."""
import sys
import lena.core
import lena.math


def check(v):
    if v < 0:
        raise lena.core.LenaRuntimeError("negative value")
    return v


def observed(thunk):
    out = []
    try:
        for v in thunk():
            out.append(v)
    except Exception as e:
        return out, type(e).__name__
    return out, None


flow = [1, 2, -3, 4]
got = observed(lambda: lena.core.Sequence(check, lena.math.Sum()).run(iter(flow)))


def composition():
    s = lena.math.Sum()
    for v in (check(v) for v in iter(flow)):
        s.fill(v)
    return s.compute()


want = observed(composition)
if got != want:
    print("C01 violated: Sequence(check, Sum()).run(%s) gave %s, the composition gives %s" % (flow, got, want))
    sys.exit(1)
print("ok")
