"""C01 candidate 5: Run._call_run treats a callable that returns a bool as a selector (True: the value itself passes,
False: the value is dropped) instead of yielding the returned value.  The stream transformation of a callable is its
map over the flow, whatever the type of the results."""
import sys
import lena.core


def is_even(v):
    return v % 2 == 0


def wrap(v):
    return [v]


flow = [1, 2, 3, 4]
got = list(lena.core.Sequence(is_even, wrap).run(iter(flow)))
want = [wrap(w) for w in (is_even(v) for v in flow)]
if got != want:
    print("C01 violated: Sequence(is_even, wrap).run(%s) gave %s, the composition of the two maps gives %s" % (flow, got, want))
    sys.exit(1)
print("ok")
