"""C01 candidate 11 (second round, after the follow-up): Run._fc_run ignores a KeyError raised by fill ("the value has
no entry for this element") and goes on filling.  fill/compute transformation: fill the whole flow, then compute; an
exception of fill is raised by run(flow)."""
import sys
import lena.core


class ByName(object):
    def __init__(self):
        self.table, self.seen = {"a": 1, "b": 2}, []

    def fill(self, v):
        self.seen.append(self.table[v])

    def compute(self):
        yield sum(self.seen)


def observed(thunk):
    try:
        return list(thunk()), None
    except Exception as e:
        return [], type(e).__name__


flow = ["a", "zz", "b"]
got = observed(lambda: lena.core.Sequence(ByName()).run(iter(flow)))


def composition():
    el = ByName()
    for v in iter(flow):
        el.fill(v)
    return el.compute()


want = observed(composition)
if got != want:
    print("C01 violated: Sequence(ByName()).run(%s) gave %s, fill-all-then-compute gives %s" % (flow, got, want))
    sys.exit(1)
print("ok")
