"""C01 candidate 10: Source.__init__ also accepts a first element that only has __getitem__ ("the sequence protocol
can be iterated as well"), but Source.__call__ was not extended: it knows callables and objects with __iter__ only.
Such an argument can not be converted to a first element by the code; it is no longer rejected with LenaTypeError at
construction - the failure (UnboundLocalError) comes later, when the Source is called."""
import sys
import lena.core


def inc(v):
    return v + 1


class Column(object):
    """old-style sequence: __getitem__ and __len__ only"""
    def __init__(self, vals):
        self.vals = vals

    def __getitem__(self, i):
        return self.vals[i]

    def __len__(self):
        return len(self.vals)


try:
    src = lena.core.Source(Column([1, 2, 3]), inc)
except lena.core.LenaTypeError:
    print("ok")      # rejected at construction
    sys.exit(0)
try:
    res = list(src())
except Exception as e:
    print("C01 violated: Source(Column([1, 2, 3]), inc) was constructed, but src() raised %s: %s" % (type(e).__name__, e))
    sys.exit(1)
if res != [2, 3, 4]:
    print("C01 violated: constructed, but src() yields %s" % res)
    sys.exit(1)
print("ok")
