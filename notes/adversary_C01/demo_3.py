"""C01 candidate 3: Run._call_run swallows a LenaKeyError raised by the callable and skips the value ("the value lacks
the keys needed by the element").  The stream transformation of a callable is its map over the flow: an exception of
the callable ends the flow with that exception; with the change the Sequence yields values the composition never
yields and no exception."""
import sys
import lena.core
import lena.context


def x_of(val):
    data, context = val
    try:
        return (context["x"], context)
    except KeyError:
        raise lena.core.LenaKeyError("no x in context")


def observed(thunk):
    out = []
    try:
        for v in thunk():
            out.append(v)
    except Exception as e:
        return out, type(e).__name__
    return out, None


flow = [(1, {"x": 10}), (2, {}), (3, {"x": 30})]
got = observed(lambda: lena.core.Sequence(x_of).run(iter(flow)))
want = observed(lambda: (x_of(v) for v in iter(flow)))
if got != want:
    print("C01 violated: Sequence(x_of).run(flow) gave %s, the map of x_of over the flow gives %s" % (got, want))
    sys.exit(1)
print("ok")
