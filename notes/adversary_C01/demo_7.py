"""C01 candidate 7: Sequence.run converts only lists and tuples to iterators (isinstance test instead of
flow_to_iter).  Other finite iterable flows that are not iterators (range, deque, a LenaSequence, a user class with
__iter__) reach the first element unconverted; elements that take next(flow) (lena.flow.Count) then fail."""
import collections
import sys
import lena.core
import lena.flow


def wrap(v):
    return [v]


def observed(thunk):
    try:
        return list(thunk())
    except Exception as e:
        return "raised %s: %s" % (type(e).__name__, e)


bad = 0
for name, mk in (("range(3)", lambda: range(3)), ("deque", lambda: collections.deque([0, 1, 2])),
                 ("list", lambda: [0, 1, 2])):
    got = observed(lambda: lena.core.Sequence(lena.flow.Count(), wrap).run(mk()))
    c = lena.flow.Count()
    want = observed(lambda: (wrap(v) for v in c.run(iter(mk()))))
    if got != want:
        print("C01 violated for flow %s: Sequence(Count(), wrap).run(flow) gave %s, the composition gives %s" % (name, got, want))
        bad = 1
print("ok" if not bad else "FAILED")
sys.exit(bad)
