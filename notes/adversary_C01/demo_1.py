"""C01 candidate 1: Sequence.run converts only sized containers (hasattr(flow, "__len__")) to iterators instead of
using flow_to_iter.  A finite iterable flow that is neither an iterator nor sized (a user class with __iter__ only,
e.g. a data reader) reaches the first element unconverted; elements that take next(flow) (lena.flow.Count) fail."""
import sys
import lena.core
import lena.flow


def wrap(v):
    return [v]


class Reader(object):
    """an iterable flow: __iter__ only"""
    def __init__(self, vals):
        self.vals = vals

    def __iter__(self):
        return iter(list(self.vals))


def observed(thunk):
    try:
        return list(thunk())
    except Exception as e:
        return "raised %s: %s" % (type(e).__name__, e)


bad = 0
for name, mk in (("Reader([0, 1, 2])", lambda: Reader([0, 1, 2])), ("[0, 1, 2]", lambda: [0, 1, 2]),
                 ("range(3)", lambda: range(3))):
    got = observed(lambda: lena.core.Sequence(lena.flow.Count(), wrap).run(mk()))
    # the statement: feed each element's transformation with the output of the previous one
    c = lena.flow.Count()
    want = observed(lambda: (wrap(v) for v in c.run(iter(mk()))))
    if got != want:
        print("C01 violated for flow %s: Sequence(Count(), wrap).run(flow) gave %s, the composition gives %s" % (name, got, want))
        bad = 1
print("ok" if not bad else "FAILED")
sys.exit(bad)
