"""C01 candidate 8: Sequence.__init__ resets a fill/compute accumulator (one with a reset method) when it converts it
("it may have been used in another sequence: start afresh").  An element is an object with its state: the stream
transformation of a Sum that already holds 10 is 'fill the flow, yield 10 + sum'.  With the change a Sequence built
around an element that was used before (filled directly, or run in an earlier Sequence) no longer computes the
composition of its elements' transformations."""
import sys
import lena.core
import lena.math


def inc(v):
    return v + 1


# the accumulator was used in an earlier sequence
s1 = lena.math.Sum()
first = list(lena.core.Sequence(s1).run(iter([4, 6])))
got = list(lena.core.Sequence(inc, s1, inc).run(iter([1, 2])))

# the statement, by hand, on an element with the same history
s2 = lena.math.Sum()
for v in [4, 6]:
    s2.fill(v)
list(s2.compute())
for v in (inc(v) for v in iter([1, 2])):
    s2.fill(v)
want = [inc(v) for v in s2.compute()]
if got != want:
    print("C01 violated: Sequence(inc, s, inc).run([1, 2]) with a Sum s that holds 10 gave %s, the composition gives %s"
          % (got, want))
    sys.exit(1)
print("ok")
