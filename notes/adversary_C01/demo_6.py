"""C01 candidate 6: Run.__init__ unwraps an element that already is a Run adapter ("don't stack adapters") and converts
the inner object again, by the default rules.  For Run(Run(obj, run="alt")) the customised method name is lost: the
outer adapter runs obj.run (or casts obj) instead of obj.alt.  A Run adapter is an element with a run method; a
Sequence / Run around it must compute the adapter's own transformation."""
import sys
import lena.core


class Reader(object):
    def run(self, flow):
        for v in flow:
            yield ["run", v]

    def alt(self, flow):
        for v in flow:
            yield ["alt", v]


def wrap(v):
    return [v]


inner = lena.core.Run(Reader(), run="alt")
want = [wrap(v) for v in inner.run(iter([1, 2]))]
got = list(lena.core.Sequence(lena.core.Run(lena.core.Run(Reader(), run="alt")), wrap).run(iter([1, 2])))
if got != want:
    print("C01 violated: Sequence(Run(Run(r, run='alt')), wrap) gave %s, the composition of the element's run "
          "(= r.alt) and wrap gives %s" % (got, want))
    sys.exit(1)
print("ok")
