"""C01 candidate 12 (second round): Source.__call__ with an iterable (not callable) first element converts only lists,
tuples and sequences to iterators and chains the tail itself; any other iterable first element that is not an
iterator (a deque, a range, a reader object) reaches the first tail element unconverted (Count: next(flow))."""
import collections
import sys
import lena.core
import lena.flow


def wrap(v):
    return [v]


def observed(thunk):
    try:
        return list(thunk())
    except Exception as e:
        return "raised %s: %s" % (type(e).__name__, e)


bad = 0
for name, mk in (("deque", lambda: collections.deque([1, 2, 3])), ("range", lambda: range(3)), ("list", lambda: [1, 2, 3])):
    got = observed(lambda: lena.core.Source(mk(), lena.flow.Count(), wrap)())
    want = observed(lambda: lena.core.Sequence(lena.flow.Count(), wrap).run(iter(mk())))
    if got != want:
        print("C01 violated (%s): Source(first, Count(), wrap)() gave %s, Sequence(Count(), wrap).run(iter(first)) gave %s" % (name, got, want))
        bad = 1
print("ok" if not bad else "FAILED")
sys.exit(bad)
