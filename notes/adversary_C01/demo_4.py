"""C01 candidate 4: meta.alter_sequence returns the sequence proposed by an element's alter_sequence method (the
unchanged code computes and discards it).  Split passes every branch given as a Sequence object through
alter_sequence: an element whose alter_sequence proposes another order (here: itself hoisted to the front, the way
Cache proposes a Source) changes what the branch computes - Split([Sequence(a, b)]) no longer equals
Split([(a, b)]) / the left-to-right composition a, then b."""
import sys
import lena.core


def inc(v):
    return v + 1


class Hoist(object):
    """doubles the values; proposes a sequence with itself in front"""
    def run(self, flow):
        for v in flow:
            yield 2 * v

    def alter_sequence(self, seq):
        els = list(seq)
        if els and els[0] is not self and any(e is self for e in els):
            return lena.core.Sequence(*([self] + [e for e in els if e is not self]))
        return seq


h = Hoist()
got = list(lena.core.Sequence(lena.core.Split([lena.core.Sequence(inc, h)])).run(iter([1, 2, 3])))
h2 = Hoist()
tup = list(lena.core.Sequence(lena.core.Split([(inc, h2)])).run(iter([1, 2, 3])))
want = list(Hoist().run(inc(v) for v in iter([1, 2, 3])))
if not (got == tup == want):
    print("C01 violated: Split([Sequence(inc, h)]) gave %s, Split([(inc, h)]) gave %s, composition inc then h gives %s"
          % (got, tup, want))
    sys.exit(1)
print("ok")
