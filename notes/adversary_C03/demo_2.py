"""Two runs of ONE Split object whose output generators are consumed alternately (e.g. zip(s.run(a), s.run(b))).
Every run must follow the schedule for its own flow: the branches here are stateless, so the expected outputs are
well defined.  With the change the list of active branches lives on the Split object and is shared by the two
generators, so a branch dropped in one run disappears from (or shifts in) the other."""
import sys
import itertools
from lena.core import Split, Source


class Letters(object):
    def __call__(self):
        return iter(["s0", "s1"])


def split():
    return Split([Source(Letters()), lambda x: -x, lambda x: 10 * x], bufsize=1)


def expected(flow):
    return list(split().run(flow))  # one run alone

s = split()
fa, fb = [1, 2, 3], [4, 5, 6]
a, b = s.run(fa), s.run(fb)
out_a, out_b = [], []
try:
    for x, y in itertools.zip_longest(a, b):
        out_a.append(x)
        out_b.append(y)
except Exception as e:
    print("interleaved runs raised %r" % (e,))
    sys.exit(1)
if out_a != expected(fa) or out_b != expected(fb):
    print("interleaved: %r / %r\nexpected:    %r / %r" % (out_a, out_b, expected(fa), expected(fb)))
    sys.exit(1)
print("OK")
