"""copy_buf=True: each branch but the last gets ITS OWN deep copy of the block.  With the change one copy per
block is shared by all branches but the last, so the first branch's in-place changes reach the second one."""
import sys
from lena.core import Split


def mark(val):
    data, context = val
    context["marked"] = True     # in place
    return ("mark", data)


def ctx(val):
    return ("ctx", dict(val[1]))


out = list(Split([mark, ctx, lambda val: ("last", val[0])], bufsize=2).run([(1, {}), (2, {})]))
seen = [v for v in out if v[0] == "ctx"]
if seen != [("ctx", {}), ("ctx", {})]:
    print("second branch received contexts changed by the first: %r" % (seen,))
    sys.exit(1)
print("OK")
