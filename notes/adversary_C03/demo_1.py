"""A fill/compute branch whose fill() raises LenaValueError (a bad value from the flow, NOT LenaStopFill)
must not be 'finalised and dropped': only LenaStopFill is the stop signal.  With the change the error is
swallowed, the branch is finalised (compute) and dropped, and the run goes on as if nothing happened."""
import sys
import lena.core
from lena.core import Split


class Positive(object):
    """accumulates positive numbers; a non-positive value is an error of the flow"""
    def __init__(self):
        self.vals = []

    def fill(self, val):
        if val <= 0:
            raise lena.core.LenaValueError("positive values expected, got {}".format(val))
        self.vals.append(val)

    def compute(self):
        yield ("positive", tuple(self.vals))


class All(object):
    def __init__(self):
        self.vals = []

    def fill(self, val):
        self.vals.append(val)

    def request(self):
        yield ("all", tuple(self.vals))
        self.vals = []


for bufsize in (1, 2, 1000, None):
    s = Split([Positive(), All()], bufsize=bufsize)
    out = []
    try:
        for v in s.run([1, 2, -3, 4]):
            out.append(v)
    except lena.core.LenaValueError:
        continue  # the error of the branch propagates: nothing was finalised
    print("bufsize=%r: LenaValueError of fill() was swallowed, output %r" % (bufsize, out))
    sys.exit(1)
print("OK")
