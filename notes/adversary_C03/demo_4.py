"""copy_buf=True: every branch but the last works on its own deep copy of the block, so a branch that changes
the DATA part of a value in place (here: sorts a list of hits) does not change what the later branches receive;
the results of a plain Sequence are those of that Sequence run on the block.  With the change only contexts are
copied; the data objects are shared between the branches."""
import sys
from lena.core import Split


def sort_hits(val):
    data, context = val
    data.sort()              # in place
    return ("sorted", list(data))


def first_hit(val):
    data, context = val
    return ("first", data[0])


class Firsts(object):
    def __init__(self):
        self.firsts = []

    def fill(self, val):
        self.firsts.append(val[0][0])

    def compute(self):
        yield ("firsts", tuple(self.firsts))


def flow():
    return [([3, 1, 2], {"ev": 0}), ([9, 7, 8], {"ev": 1})]

bad = False
for bufsize in (1, 2, None):
    out = list(Split([sort_hits, first_hit, Firsts()], bufsize=bufsize, copy_buf=True).run(flow()))
    mine = [v for v in out if v[0] in ("first", "firsts")]
    exp = [("first", 3), ("first", 9), ("firsts", (3, 9))]
    if sorted(mine, key=repr) != sorted(exp, key=repr):
        print("bufsize=%r: later branches saw the values changed by the first one: %r" % (bufsize, mine))
        bad = True
# the common-type fill
s = Split([Firsts(), Firsts()], copy_buf=True)


class SortFC(Firsts):
    def fill(self, val):
        val[0].sort()
        Firsts.fill(self, val)

s = Split([SortFC(), Firsts()], copy_buf=True)
for v in flow():
    s.fill(v)
res = list(s.compute())
if res != [("firsts", (1, 7)), ("firsts", (3, 9))]:
    print("Split.fill: %r" % (res,))
    bad = True
sys.exit(1 if bad else 0)
