"""bufsize=None: 'whole input flow is materialized in the buffer', i.e. the flow is ONE block: a fill/request
branch yields request() once, a plain Sequence is run once on the whole flow (this is also what the Cache rule of
Split.__init__ relies on).  With the change None silently means 'the default block size' (1000) inside run, which
shows only on flows longer than 1000 values."""
import sys
from lena.core import Split


class All(object):
    def __init__(self):
        self.vals = []

    def fill(self, val):
        self.vals.append(val)

    def request(self):
        yield ("request", len(self.vals))
        self.vals = []


class RunAll(object):
    def run(self, flow):
        yield ("run", len(list(flow)))


flow = list(range(2500))
out = list(Split([All(), RunAll()], bufsize=None).run(flow))
exp = [("request", 2500), ("run", 2500)]
if out != exp:
    print("Split(bufsize=None) on 2500 values yields %r, expected %r" % (out, exp))
    sys.exit(1)
print("OK")
