"""C10 demo 2: PDFToPNG selects values whose context.output.filetype is "pdf"; all other values pass unchanged.
A value whose output.filetype is a dictionary (or any non-"pdf" entry) is not selected."""
import sys
import lena.output

vals = [
    (5, {"output": {"filetype": {"pdf": True, "png": True}}}),       # e.g. "available file types"
    ("report", {"output": {"filetype": {"pdf": {"pages": 3}}}}),
]
bad = []
for v in vals:
    import copy
    before = copy.deepcopy(v)
    try:
        out = list(lena.output.PDFToPNG(verbose=False).run(iter([v, 7])))
    except Exception as e:
        bad.append("%r made PDFToPNG raise %s: %s" % (before, type(e).__name__, e))
        continue
    if not (len(out) == 2 and out[0] is v and v == before):
        bad.append("%r came out as %r" % (before, out))
if bad:
    print("C10 violated:\n  " + "\n  ".join(bad))
    sys.exit(1)
print("demo_2: OK")
