"""C10 demo 3: HistToGraph passes histograms with context.histogram.to_graph False unchanged —
also histograms whose bins are (data, context) pairs (as produced by SplitIntoBins / MapBins(drop_bins_context=False))."""
import copy
import sys
import lena.structures

h = lena.structures.histogram([0, 1, 2], [(1, {"a": 1}), (2, {"a": 1})])
val = (h, {"histogram": {"to_graph": False}})
before = copy.deepcopy((h.edges, h.bins, val[1]))
out = list(lena.structures.HistToGraph().run(iter([val, 7])))
assert len(out) == 2 and out[0] is val and out[1] == 7, out
after = (h.edges, h.bins, val[1])
if after != before:
    print("C10 violated: HistToGraph modified a histogram it does not select (to_graph False):\n  bins before %r\n  bins after  %r"
          % (before[1], after[1]))
    sys.exit(1)
print("demo_3: OK")
