"""C10 demo 4: what LaTeXToPDF produces for the tex files (as a multiset) must not depend on unselected values
interleaved with them.  A converter that fails (return code 1) yields nothing."""
import os
import sys
import tempfile
import time
import lena.output

root = tempfile.mkdtemp()
tex = os.path.join(root, "a.tex")
open(tex, "w").write("x")
# a failing "pdflatex": exits with 1 at once
cmd = lambda texname, out, outdir, ctx: ["/bin/sh", "-c", "exit 1"]


def slow(vals):
    for v in vals:
        yield v
        time.sleep(0.3)      # the process has ended when the next value arrives


def run(flow):
    el = lena.output.LaTeXToPDF(verbose=0, create_command=cmd)
    return [v for v in el.run(slow(flow)) if not isinstance(v, int)]

A = lambda: (tex, {"output": {"filetype": "tex"}})
alone = run([A()])
mixed = run([A(), 1, 2, 3])
if alone != mixed:
    print("C10 violated: LaTeXToPDF yields %r for the tex file alone, %r when unselected values follow it" % (alone, mixed))
    sys.exit(1)
print("demo_4: OK")
