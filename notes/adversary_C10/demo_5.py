"""C10 demo 5: RenderLaTeX run on values it does not select (nothing has filetype csv) must not touch the file system.
The whole temporary area is watched, not only the working directory."""
import os
import sys
import tempfile

sandbox = tempfile.mkdtemp()
tmp = os.path.join(sandbox, "tmp")
work = os.path.join(sandbox, "work")
os.makedirs(tmp)
os.makedirs(work)
os.environ["TMPDIR"] = tmp
tempfile.tempdir = None          # re-read TMPDIR
os.chdir(work)

import lena.output


def tree():
    return sorted(os.path.join(dp, n) for dp, dns, fns in os.walk(sandbox) for n in dns + fns)

before = tree()
flow = [1, "a string", (2.5, {"output": {"filetype": "tex"}}), (3, {"foo": "bar"})]
out = list(lena.output.RenderLaTeX("t.tex", template_dir=work).run(iter(flow)))
assert len(out) == len(flow) and all(a is b for a, b in zip(out, flow))
after = tree()
if after != before:
    print("C10 violated: RenderLaTeX selected nothing, yet the file system changed: new paths %r"
          % [p for p in after if p not in before])
    sys.exit(1)
print("demo_5: OK")
