"""C10 demo 1: MapGroup(map_scalars=False) must pass a value that is not a group unchanged.
A bare generator (no context.group) is not a group; after passing MapGroup it must still hold its items."""
import sys
import lena.flow


class Id(object):
    def run(self, flow):
        for v in flow:
            yield v

gen = (x for x in (1, 2, 3))
pair_gen = (x for x in "ab")
flow = [gen, 7, (pair_gen, {"foo": 1})]
out = list(lena.flow.MapGroup(Id(), map_scalars=False).run(iter(flow)))
assert len(out) == 3 and out[0] is gen and out[1] == 7 and out[2] is flow[2], out
rest = list(out[0]), list(out[2][0])
if rest != ([1, 2, 3], ["a", "b"]):
    print("C10 violated: MapGroup consumed the unselected generators passing through it; what is left: %r" % (rest,))
    sys.exit(1)
print("demo_1: OK")
