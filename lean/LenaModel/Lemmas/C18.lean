import LenaModel.Model.C18
