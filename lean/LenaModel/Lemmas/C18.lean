import LenaModel.Model.C18
/-! # C18 — lemmas: the generator machine refines the reference semantics

`rem…` is the flow a chain will still produce ("remaining flow"); `nextUppers_spec` is the one-step
simulation lemma, `drive_spec` its iteration; `Track c T` is the invariant that ties the temporary file of
cache `c` to the flow `T` that enters it. -/

namespace Lena.C18

/-! ## File system -/

@[simp] theorem FS.set_apply (fs : FS) (c : Nat) (f : CFiles) (d : Nat) :
    (fs.set c f) d = if d = c then f else fs d := rfl

@[simp] theorem FS.openTmpW_apply (fs : FS) (c d : Nat) :
    (fs.openTmpW c) d = if d = c then { fs c with tmp := some [] } else fs d := rfl

@[simp] theorem FS.writeTmp_apply (fs : FS) (c : Nat) (v : Val) (d : Nat) :
    (fs.writeTmp c v) d = if d = c then { fs c with tmp := (fs c).tmp.map (· ++ [v]) } else fs d := rfl

@[simp] theorem FS.removeTmp_apply (fs : FS) (c d : Nat) :
    (fs.removeTmp c) d = if d = c then { fs c with tmp := none } else fs d := rfl

theorem FS.replaceTmp_some {fs : FS} {c : Nat} {xs : List Val} (h : (fs c).tmp = some xs) :
    fs.replaceTmp c = some (fs.set c ⟨some xs, none⟩) := by
  simp [FS.replaceTmp, h]

theorem FS.replaceTmp_none {fs : FS} {c : Nat} (h : (fs c).tmp = none) : fs.replaceTmp c = none := by
  simp [FS.replaceTmp, h]

/-! ## Remaining flows -/

/-- the raise point of a map element, counted from the values it has already received -/
def shiftRaise (calls : Nat) : Option Nat → Option Nat
  | some q => if calls ≤ q then some (q - calls) else none
  | none => none

/-- what the bottom generator will still produce -/
def remB (fs : FS) : Bottom → Flow
  | .src _ _ _ true => ⟨[], none⟩
  | .src vals i r false =>
    match r with
    | some q => if i ≤ q ∧ q ≤ vals.length then ⟨(vals.drop i).take (q - i), some .srcBoom⟩ else ⟨vals.drop i, none⟩
    | none => ⟨vals.drop i, none⟩
  | .load c .fresh _ => storedFlow fs c
  | .load _ .active rest => ⟨rest, none⟩
  | .load _ .dead _ => ⟨[], none⟩

/-- what a generator will still produce when `g` is what its upstream will still produce -/
def remU : Upper → Flow → Flow
  | .map _ _ _ _ true, _ => ⟨[], none⟩
  | .map _ a calls r false, g => mapFlow a (shiftRaise calls r) g
  | .dump _ .dead, _ => ⟨[], none⟩
  | .dump _ _, g => g

def remUs (us : List Upper) (g : Flow) : Flow := us.foldr remU g

@[simp] theorem remUs_nil (g : Flow) : remUs [] g = g := rfl
@[simp] theorem remUs_cons (u : Upper) (us : List Upper) (g : Flow) : remUs (u :: us) g = remU u (remUs us g) := rfl

/-- the remaining flow of a chain -/
def rem (fs : FS) (ch : Chain) : Flow := remUs ch.uppers (remB fs ch.bottom)

/-- cache ids of the dump generators of a chain -/
def dumpIds : List Upper → List Nat
  | [] => []
  | .map _ _ _ _ _ :: us => dumpIds us
  | .dump c _ :: us => c :: dumpIds us

/-- no generator is dead, every cache is dumped by at most one generator, and the temporary file of every
suspended dump generator is there -/
def UsOk (fs : FS) : List Upper → Prop
  | [] => True
  | .map _ _ _ _ dead :: us => dead = false ∧ UsOk fs us
  | .dump c st :: us => st ≠ .dead ∧ c ∉ dumpIds us ∧ (st = .active → (fs c).tmp.isSome) ∧ UsOk fs us

def BotOk : Bottom → Prop
  | .src vals i _ dead => dead = false ∧ i ≤ vals.length
  | .load _ st _ => st ≠ .dead

/-- the temporary file of cache `c` and what is still to come add up to the flow `T` -/
def Track (c : Nat) (T : List Val) (fs : FS) (g : Flow) : List Upper → Prop
  | [] => True
  | .map _ _ _ _ _ :: us => Track c T fs g us
  | .dump c' st :: us =>
    if c' = c then
      match st with
      | .fresh => (remUs us g).vals = T
      | .active => ∃ pre, (fs c).tmp = some pre ∧ pre ++ (remUs us g).vals = T
      | .dead => True
    else Track c T fs g us

theorem remB_congr {fs1 fs2 : FS} (h : ∀ c, (fs1 c).final = (fs2 c).final) (b : Bottom) :
    remB fs1 b = remB fs2 b := by
  cases b with
  | src vals i r dead => cases dead <;> rfl
  | load c st rest => cases st <;> simp [remB, storedFlow, h]

theorem UsOk_congr {fs1 fs2 : FS} : ∀ (us : List Upper), (∀ c, c ∈ dumpIds us → (fs1 c).tmp = (fs2 c).tmp) →
    UsOk fs1 us → UsOk fs2 us
  | [], _, _ => trivial
  | .map _ _ _ _ _ :: us, h, ok => ⟨ok.1, UsOk_congr us (fun c hc => h c (by simpa [dumpIds] using hc)) ok.2⟩
  | .dump c st :: us, h, ok =>
    ⟨ok.1, ok.2.1, (by rw [← h c (by simp [dumpIds])]; exact ok.2.2.1),
      UsOk_congr us (fun d hd => h d (by simp [dumpIds, hd])) ok.2.2.2⟩

theorem Track_congr {fs1 fs2 : FS} {c : Nat} {T : List Val} {g : Flow} :
    ∀ (us : List Upper), (c ∈ dumpIds us → (fs1 c).tmp = (fs2 c).tmp) → Track c T fs1 g us → Track c T fs2 g us
  | [], _, _ => trivial
  | .map _ _ _ _ _ :: us, h, t => Track_congr (c := c) us (fun hc => h (by simpa [dumpIds] using hc)) (by simpa [Track] using t)
  | .dump c' st :: us, h, t => by
    unfold Track at t ⊢
    by_cases hc : c' = c
    · simp only [hc, if_true] at t ⊢
      cases st with
      | fresh => exact t
      | active => rw [← h (by simp [dumpIds, hc])]; exact t
      | dead => trivial
    · simp only [hc, if_false] at t ⊢
      exact Track_congr us (fun hd => h (by simp [dumpIds, hd])) t

theorem nextBottom_spec (fs : FS) (b : Bottom) (ok : BotOk b) :
    ∀ res evs b', nextBottom fs b = (res, evs, b') →
      (∀ v rest, (remB fs b).vals = v :: rest →
          res = .item v ∧ BotOk b' ∧ (∀ fs', remB fs' b' = ⟨rest, (remB fs b).exc⟩)) ∧
      ((remB fs b).vals = [] → (remB fs b).exc = none → res = .done) ∧
      (∀ e, (remB fs b).vals = [] → (remB fs b).exc = some e → res = .raised e) := by
  intro res evs b' h
  cases b with
  | src vals i r dead =>
    obtain ⟨hd, hi⟩ := ok
    subst hd
    unfold nextBottom at h
    by_cases hr : r = some i
    · subst hr
      simp only [if_true] at h
      obtain ⟨rfl, rfl, rfl⟩ := h
      simp [remB, hi]
    · simp only [hr, if_false] at h
      cases hv : vals[i]? with
      | some v =>
        rw [hv] at h
        obtain ⟨rfl, rfl, rfl⟩ := h
        have hlt : i < vals.length := by
          rcases List.getElem?_eq_some_iff.mp hv with ⟨hlt, _⟩; exact hlt
        have hvi : vals[i] = v := by
          rcases List.getElem?_eq_some_iff.mp hv with ⟨_, e⟩; exact e
        have hdrop : vals.drop i = v :: vals.drop (i + 1) := by
          rw [List.drop_eq_getElem_cons hlt, hvi]
        cases r with
        | none =>
          simp [remB, hdrop, BotOk]
          omega
        | some q =>
          have hqi : q ≠ i := fun e => hr (by rw [e])
          by_cases hq : i ≤ q ∧ q ≤ vals.length
          · have h1 : i + 1 ≤ q ∧ q ≤ vals.length := by omega
            have h2 : q - i = (q - (i + 1)) + 1 := by omega
            simp [remB, hq, h1, hdrop, BotOk, h2, List.take_succ_cons]
            omega
          · have h1 : ¬ (i + 1 ≤ q ∧ q ≤ vals.length) := by omega
            simp [remB, hq, h1, hdrop, BotOk]
            omega
      | none =>
        rw [hv] at h
        obtain ⟨rfl, rfl, rfl⟩ := h
        have hge : vals.length ≤ i := List.getElem?_eq_none_iff.mp hv
        have hdrop : vals.drop i = [] := List.drop_eq_nil_of_le hge
        cases r with
        | none => simp [remB, hdrop]
        | some q =>
          have hqi : q ≠ i := fun e => hr (by rw [e])
          have h1 : ¬ (i ≤ q ∧ q ≤ vals.length) := by omega
          simp [remB, h1, hdrop]
  | load c st rest =>
    cases st with
    | dead => exact absurd rfl ok
    | fresh =>
      cases hf : (fs c).final with
      | none =>
        simp only [nextBottom, hf] at h
        obtain ⟨rfl, rfl, rfl⟩ := h
        simp [remB, storedFlow, hf]
      | some xs =>
        cases xs with
        | nil =>
          simp only [nextBottom, hf] at h
          obtain ⟨rfl, rfl, rfl⟩ := h
          simp [remB, storedFlow, hf]
        | cons v xs =>
          simp only [nextBottom, hf] at h
          obtain ⟨rfl, rfl, rfl⟩ := h
          simp [remB, storedFlow, hf, BotOk]
    | active =>
      cases rest with
      | nil =>
        simp only [nextBottom] at h
        obtain ⟨rfl, rfl, rfl⟩ := h
        simp [remB]
      | cons v xs =>
        simp only [nextBottom] at h
        obtain ⟨rfl, rfl, rfl⟩ := h
        simp [remB, BotOk]

theorem Flow.eta (F : Flow) : (⟨F.vals, F.exc⟩ : Flow) = F := rfl

theorem Flow.ext' {F G : Flow} (h1 : F.vals = G.vals) (h2 : F.exc = G.exc) : F = G := by
  cases F; cases G; simp_all

@[simp] theorem mapFlow_nil (a : Int) (r : Option Nat) (e : Option Exc) : mapFlow a r ⟨[], e⟩ = ⟨[], e⟩ := by
  cases r <;> simp [mapFlow]

theorem mapFlow_raise_now (a : Int) (v : Val) (rest : List Val) (e : Option Exc) :
    mapFlow a (some 0) ⟨v :: rest, e⟩ = ⟨[], some .elBoom⟩ := by
  simp [mapFlow]

theorem shiftRaise_self (calls : Nat) : shiftRaise calls (some calls) = some 0 := by
  simp [shiftRaise]

/-- a map generator that does not raise on this value: its remaining flow loses its head -/
theorem mapFlow_step (a : Int) (calls : Nat) (r : Option Nat) (hr : r ≠ some calls) (v : Val) (rest : List Val)
    (e : Option Exc) :
    mapFlow a (shiftRaise calls r) ⟨v :: rest, e⟩ =
      ⟨(10 * v + a) :: (mapFlow a (shiftRaise (calls + 1) r) ⟨rest, e⟩).vals,
        (mapFlow a (shiftRaise (calls + 1) r) ⟨rest, e⟩).exc⟩ := by
  cases r with
  | none => simp [shiftRaise, mapFlow]
  | some q =>
    have hq : q ≠ calls := fun h => hr (by rw [h])
    by_cases h1 : calls ≤ q
    · have h2 : calls + 1 ≤ q := by omega
      have h3 : q - calls = (q - (calls + 1)) + 1 := by omega
      simp only [shiftRaise, h1, h2, if_true, mapFlow, h3, List.length_cons, Nat.add_lt_add_iff_right]
      split <;> simp [List.take_succ_cons]
    · have h2 : ¬ calls + 1 ≤ q := by omega
      simp [shiftRaise, h1, h2, mapFlow]

/-- the one-step simulation statement: `next` on a healthy chain produces the head of the remaining flow
(or its end), keeps the chain healthy, never touches a cache file before the end, and commits exactly the
tracked flows at the normal end -/
def StepSpec (fs : FS) (us : List Upper) (b : Bottom) : Prop :=
  ∀ res evs fs' us' b', nextUppers fs us b = (res, evs, fs', us', b') →
    (∀ c, c ∉ dumpIds us → fs' c = fs c) ∧
    dumpIds us' = dumpIds us ∧
    (∀ v rest, (remUs us (remB fs b)).vals = v :: rest →
        res = .item v ∧ UsOk fs' us' ∧ BotOk b' ∧
        remUs us' (remB fs' b') = ⟨rest, (remUs us (remB fs b)).exc⟩ ∧
        (∀ c, (fs' c).final = (fs c).final) ∧
        (∀ c T, Track c T fs (remB fs b) us → Track c T fs' (remB fs' b') us')) ∧
    ((remUs us (remB fs b)).vals = [] → (remUs us (remB fs b)).exc = none →
        res = .done ∧ (∀ c T, c ∈ dumpIds us → Track c T fs (remB fs b) us → fs' c = ⟨some T, none⟩)) ∧
    (∀ e, (remUs us (remB fs b)).vals = [] → (remUs us (remB fs b)).exc = some e →
        res = .raised e ∧ (∀ c, (fs' c).final = (fs c).final))

theorem step_nil (fs : FS) (b : Bottom) (okb : BotOk b) : StepSpec fs [] b := by
  intro res evs fs' us' b' h
  rcases hb : nextBottom fs b with ⟨r0, evs0, b0⟩
  simp only [nextUppers, hb] at h
  obtain ⟨rfl, rfl, rfl, rfl, rfl⟩ := h
  obtain ⟨h1, h2, h3⟩ := nextBottom_spec fs b okb _ _ _ hb
  refine ⟨fun _ _ => rfl, rfl, ?_, ?_, ?_⟩
  · intro v rest hv
    obtain ⟨e1, e2, e3⟩ := h1 v rest hv
    exact ⟨e1, trivial, e2, e3 _, fun _ => rfl, fun _ _ _ => trivial⟩
  · intro hv he
    exact ⟨h2 hv he, fun c T hc => by simp [dumpIds] at hc⟩
  · intro e hv he
    exact ⟨h3 e hv he, fun _ => rfl⟩

theorem step_map (fs : FS) (j : Nat) (a : Int) (calls : Nat) (r : Option Nat) (us : List Upper) (b : Bottom)
    (ih : StepSpec fs us b) : StepSpec fs (.map j a calls r false :: us) b := by
  intro res evs fs' us' b' h
  rcases hn : nextUppers fs us b with ⟨res0, evs0, fs0, us0, b0⟩
  simp only [nextUppers, hn] at h
  obtain ⟨f1, f2, hi, hd, hr⟩ := ih _ _ _ _ _ hn
  simp only [remUs_cons, remU]
  rcases hF : remUs us (remB fs b) with ⟨xs, e⟩
  rw [hF] at hi hd hr
  cases xs with
  | nil =>
    simp only [mapFlow_nil]
    cases e with
    | none =>
      obtain ⟨rfl, hcommit⟩ := hd rfl rfl
      simp only [mapAfter] at h
      obtain ⟨rfl, rfl, rfl, rfl, rfl⟩ := h
      refine ⟨f1, by simpa [dumpIds] using f2, ?_, ?_, ?_⟩
      · intro v rest hv; simp at hv
      · intro _ _
        exact ⟨rfl, fun c T hc ht => hcommit c T (by simpa [dumpIds] using hc) (by simpa [Track] using ht)⟩
      · intro e _ he; simp at he
    | some e =>
      obtain ⟨rfl, hfin⟩ := hr e rfl rfl
      simp only [mapAfter] at h
      obtain ⟨rfl, rfl, rfl, rfl, rfl⟩ := h
      refine ⟨f1, by simpa [dumpIds] using f2, ?_, ?_, ?_⟩
      · intro v rest hv; simp at hv
      · intro _ he; simp at he
      · intro e' _ he
        simp at he
        subst he
        exact ⟨rfl, hfin⟩
  | cons v rest =>
    obtain ⟨rfl, ok', okb', hrem, hfin, htr⟩ := hi v rest rfl
    by_cases hrc : r = some calls
    · simp only [mapAfter, hrc, if_true] at h
      obtain ⟨rfl, rfl, rfl, rfl, rfl⟩ := h
      subst hrc
      rw [shiftRaise_self, mapFlow_raise_now]
      refine ⟨f1, by simpa [dumpIds] using f2, ?_, ?_, ?_⟩
      · intro v rest hv; simp at hv
      · intro _ he; simp at he
      · intro e' _ he
        simp at he
        subst he
        exact ⟨rfl, hfin⟩
    · simp only [mapAfter, hrc, if_false] at h
      obtain ⟨rfl, rfl, rfl, rfl, rfl⟩ := h
      rw [mapFlow_step a calls r hrc]
      refine ⟨f1, by simpa [dumpIds] using f2, ?_, ?_, ?_⟩
      · intro v' rest' hv
        simp only [List.cons.injEq] at hv
        obtain ⟨rfl, rfl⟩ := hv
        refine ⟨rfl, ⟨rfl, ok'⟩, okb', ?_, hfin, ?_⟩
        · simp only [remUs_cons, remU, hrem]
        · intro c T ht
          simpa [Track] using htr c T (by simpa [Track] using ht)
      · intro hv; simp at hv
      · intro e' hv; simp at hv

theorem step_dump (fs fs1 : FS) (c : Nat) (st : GenSt) (us : List Upper) (b : Bottom) (pre1 : List Val)
    (hc : c ∉ dumpIds us)
    (hfin1 : ∀ d, (fs1 d).final = (fs d).final) (hoth : ∀ d, d ≠ c → fs1 d = fs d)
    (htmp : (fs1 c).tmp = some pre1)
    (htr1 : ∀ T, Track c T fs (remB fs b) (.dump c st :: us) → pre1 ++ (remUs us (remB fs b)).vals = T)
    (hst : st ≠ .dead)
    (ih : StepSpec fs1 us b) :
    ∀ res evs fs' us' b', dumpAfter c (nextUppers fs1 us b) = (res, evs, fs', us', b') →
      (∀ d, d ∉ dumpIds (.dump c st :: us) → fs' d = fs d) ∧
      dumpIds us' = dumpIds (.dump c st :: us) ∧
      (∀ v rest, (remUs (.dump c st :: us) (remB fs b)).vals = v :: rest →
          res = .item v ∧ UsOk fs' us' ∧ BotOk b' ∧
          remUs us' (remB fs' b') = ⟨rest, (remUs (.dump c st :: us) (remB fs b)).exc⟩ ∧
          (∀ d, (fs' d).final = (fs d).final) ∧
          (∀ d T, Track d T fs (remB fs b) (.dump c st :: us) → Track d T fs' (remB fs' b') us')) ∧
      ((remUs (.dump c st :: us) (remB fs b)).vals = [] → (remUs (.dump c st :: us) (remB fs b)).exc = none →
          res = .done ∧ (∀ d T, d ∈ dumpIds (.dump c st :: us) → Track d T fs (remB fs b) (.dump c st :: us) →
            fs' d = ⟨some T, none⟩)) ∧
      (∀ e, (remUs (.dump c st :: us) (remB fs b)).vals = [] → (remUs (.dump c st :: us) (remB fs b)).exc = some e →
          res = .raised e ∧ (∀ d, (fs' d).final = (fs d).final)) := by
  intro res evs fs' us' b' h
  have hB : remB fs1 b = remB fs b := remB_congr hfin1 b
  have hrem : remUs (.dump c st :: us) (remB fs b) = remUs us (remB fs b) := by
    cases st with
    | dead => exact absurd rfl hst
    | fresh => rfl
    | active => rfl
  rw [hrem]
  rcases hn : nextUppers fs1 us b with ⟨res0, evs0, fs0, us0, b0⟩
  rw [hn] at h
  obtain ⟨f1, f2, hi, hd, hr⟩ := ih _ _ _ _ _ hn
  rw [hB] at hi hd hr
  have hfs0c : fs0 c = fs1 c := f1 c hc
  -- transfer of tracking from fs to fs1 for the other caches
  have trans1 : ∀ d T, d ≠ c → Track d T fs (remB fs b) us → Track d T fs1 (remB fs b) us := by
    intro d T hdc ht
    exact Track_congr us (fun _ => by rw [hoth d hdc]) ht
  have tail : ∀ d T, d ≠ c → Track d T fs (remB fs b) (.dump c st :: us) → Track d T fs (remB fs b) us := by
    intro d T hdc ht
    unfold Track at ht
    simpa [Ne.symm hdc] using ht
  rcases hF : remUs us (remB fs b) with ⟨xs, e⟩
  rw [hF] at hi hd hr htr1
  cases xs with
  | cons v rest =>
    obtain ⟨rfl, ok', okb', hrem', hfin, htr⟩ := hi v rest rfl
    simp only [dumpAfter] at h
    obtain ⟨rfl, rfl, rfl, rfl, rfl⟩ := h
    have hfinw : ∀ d, ((fs0.writeTmp c v) d).final = (fs0 d).final := by
      intro d; by_cases hdc : d = c <;> simp [hdc]
    have hBw : ∀ bb, remB (fs0.writeTmp c v) bb = remB fs0 bb := remB_congr hfinw
    refine ⟨?_, by simp [dumpIds, f2], ?_, ?_, ?_⟩
    · intro d hd'
      have hdc : d ≠ c := fun e => hd' (by simp [dumpIds, e])
      have hdu : d ∉ dumpIds us := fun e => hd' (by simp [dumpIds, e])
      simp [hdc, f1 d hdu, hoth d hdc]
    · intro v' rest' hv
      simp only [List.cons.injEq] at hv
      obtain ⟨rfl, rfl⟩ := hv
      refine ⟨rfl, ?_, okb', ?_, ?_, ?_⟩
      · refine ⟨by simp, by rw [f2]; exact hc, ?_, ?_⟩
        · intro _
          simp [hfs0c, htmp]
        · exact UsOk_congr us0 (fun d hd' => by
            have : d ≠ c := fun e => hc (by rw [← f2, ← e]; exact hd')
            simp [this]) ok'
      · simp only [remUs_cons, remU, hBw, hrem']
      · intro d; rw [hfinw, hfin, hfin1]
      · intro d T ht
        unfold Track
        by_cases hdc : c = d
        · subst hdc
          simp only [if_true]
          refine ⟨pre1 ++ [v], by simp [hfs0c, htmp], ?_⟩
          rw [hBw, hrem']
          simpa using htr1 T ht
        · simp only [hdc, if_false]
          have := htr d T (trans1 d T (Ne.symm hdc) (tail d T (Ne.symm hdc) ht))
          rw [hBw]
          exact Track_congr us0 (fun _ => by simp [Ne.symm hdc]) this
    · intro hv; simp at hv
    · intro e' hv; simp at hv
  | nil =>
    cases e with
    | none =>
      obtain ⟨rfl, hcommit⟩ := hd rfl rfl
      have hrep : fs0.replaceTmp c = some (fs0.set c ⟨some pre1, none⟩) :=
        FS.replaceTmp_some (by rw [hfs0c, htmp])
      simp only [dumpAfter, hrep] at h
      obtain ⟨rfl, rfl, rfl, rfl, rfl⟩ := h
      refine ⟨?_, by simp [dumpIds, f2], ?_, ?_, ?_⟩
      · intro d hd'
        have hdc : d ≠ c := fun e => hd' (by simp [dumpIds, e])
        have hdu : d ∉ dumpIds us := fun e => hd' (by simp [dumpIds, e])
        simp [hdc, f1 d hdu, hoth d hdc]
      · intro v rest hv; simp at hv
      · intro _ _
        refine ⟨rfl, ?_⟩
        intro d T hd' ht
        by_cases hdc : d = c
        · subst hdc
          have := htr1 T ht
          simp at this
          simp [this]
        · have hdu : d ∈ dumpIds us := by simpa [dumpIds, hdc] using hd'
          have := hcommit d T hdu (trans1 d T hdc (tail d T hdc ht))
          simp [hdc, this]
      · intro e' _ he; simp at he
    | some e =>
      obtain ⟨rfl, hfin⟩ := hr e rfl rfl
      simp only [dumpAfter] at h
      obtain ⟨rfl, rfl, rfl, rfl, rfl⟩ := h
      refine ⟨?_, by simp [dumpIds, f2], ?_, ?_, ?_⟩
      · intro d hd'
        have hdc : d ≠ c := fun e => hd' (by simp [dumpIds, e])
        have hdu : d ∉ dumpIds us := fun e => hd' (by simp [dumpIds, e])
        simp [hdc, f1 d hdu, hoth d hdc]
      · intro v rest hv; simp at hv
      · intro _ he; simp at he
      · intro e' _ he
        simp at he
        subst he
        refine ⟨rfl, ?_⟩
        intro d
        by_cases hdc : d = c
        · subst hdc; simp [hfin, hfin1]
        · simp [hdc, hfin, hfin1]

/-- **one-step simulation**: on a healthy chain `next` refines the remaining flow -/
theorem nextUppers_spec : ∀ (us : List Upper) (fs : FS) (b : Bottom), UsOk fs us → BotOk b → StepSpec fs us b
  | [], fs, b, _, okb => step_nil fs b okb
  | .map j a calls r dead :: us, fs, b, ok, okb => by
    obtain ⟨rfl, ok'⟩ := ok
    exact step_map fs j a calls r us b (nextUppers_spec us fs b ok' okb)
  | .dump c .dead :: us, fs, b, ok, _ => absurd rfl ok.1
  | .dump c .fresh :: us, fs, b, ok, okb => by
    obtain ⟨_, hc, _, ok'⟩ := ok
    have ok1 : UsOk (fs.openTmpW c) us := UsOk_congr us (fun d hd => by
      have : d ≠ c := fun e => hc (e ▸ hd)
      simp [this]) ok'
    intro res evs fs' us' b' h
    simp only [nextUppers] at h
    refine step_dump fs (fs.openTmpW c) c .fresh us b [] hc ?_ ?_ ?_ ?_ (by simp)
      (nextUppers_spec us _ b ok1 okb) res evs fs' us' b' h
    · intro d; by_cases hdc : d = c <;> simp [hdc]
    · intro d hdc; simp [hdc]
    · simp
    · intro T ht
      unfold Track at ht
      simpa using ht
  | .dump c .active :: us, fs, b, ok, okb => by
    obtain ⟨_, hc, htmp, ok'⟩ := ok
    obtain ⟨pre, hpre⟩ := Option.isSome_iff_exists.mp (htmp rfl)
    intro res evs fs' us' b' h
    simp only [nextUppers] at h
    refine step_dump fs fs c .active us b pre hc (fun _ => rfl) (fun _ _ => rfl) hpre ?_ (by simp)
      (nextUppers_spec us _ b ok' okb) res evs fs' us' b' h
    intro T ht
    unfold Track at ht
    simp only [if_true] at ht
    obtain ⟨pre', h1, h2⟩ := ht
    rw [hpre] at h1
    cases h1
    exact h2

/-- a chain on which `next` may be called: nothing dead, caches distinct, temporary files in place -/
def ChainOk (fs : FS) (ch : Chain) : Prop := UsOk fs ch.uppers ∧ BotOk ch.bottom

/-- the statement of `drive_spec` -/
def DriveSpec (k : Nat) (fs : FS) (ch : Chain) : Prop :=
  (drive k fs ch).outs.map (·.1) = (rem fs ch).vals.take k ∧
  (∀ o, o ∈ (drive k fs ch).outs → ∀ c, (o.2 c).final = (fs c).final) ∧
  (∀ c, c ∉ dumpIds ch.uppers → (drive k fs ch).fs c = fs c) ∧
  dumpIds (drive k fs ch).chain.uppers = dumpIds ch.uppers ∧
  (k ≤ (rem fs ch).vals.length →
      (drive k fs ch).end_ = .stopped ∧ ChainOk (drive k fs ch).fs (drive k fs ch).chain ∧
      (∀ c, ((drive k fs ch).fs c).final = (fs c).final) ∧
      rem (drive k fs ch).fs (drive k fs ch).chain = ⟨(rem fs ch).vals.drop k, (rem fs ch).exc⟩) ∧
  ((rem fs ch).vals.length < k → (rem fs ch).exc = none →
      (drive k fs ch).end_ = .exhausted ∧
      ∀ c T, c ∈ dumpIds ch.uppers → Track c T fs (remB fs ch.bottom) ch.uppers →
        (drive k fs ch).fs c = ⟨some T, none⟩) ∧
  (∀ e, (rem fs ch).vals.length < k → (rem fs ch).exc = some e →
      (drive k fs ch).end_ = .raised e ∧ ∀ c, ((drive k fs ch).fs c).final = (fs c).final)

/-- **the consumer loop refines the remaining flow** -/
theorem drive_spec : ∀ (k : Nat) (fs : FS) (ch : Chain), ChainOk fs ch → DriveSpec k fs ch
  | 0, fs, ch, ok => by
    refine ⟨by simp [drive], by simp [drive], fun _ _ => rfl, rfl, ?_, ?_, ?_⟩
    · intro _
      exact ⟨rfl, ok, fun _ => rfl, by simp [drive]⟩
    · intro h; omega
    · intro e h; omega
  | k + 1, fs, ch, ok => by
    obtain ⟨us, b⟩ := ch
    obtain ⟨oku, okb⟩ := ok
    rcases hn : nextUppers fs us b with ⟨res, evs, fs', us', b'⟩
    obtain ⟨f1, f2, hi, hd, hr⟩ := nextUppers_spec us fs b oku okb _ _ _ _ _ hn
    have hnext : next fs ⟨us, b⟩ = (res, evs, fs', ⟨us', b'⟩) := by simp [next, hn]
    unfold DriveSpec
    simp only [rem] at *
    rcases hF : remUs us (remB fs b) with ⟨xs, e⟩
    rw [hF] at hi hd hr
    cases xs with
    | cons v rest =>
      obtain ⟨rfl, ok', okb', hrem, hfin, htr⟩ := hi v rest rfl
      have ih := drive_spec k fs' ⟨us', b'⟩ ⟨ok', okb'⟩
      unfold DriveSpec at ih
      simp only [rem, hrem] at ih
      obtain ⟨i1, i2, i3, i4, i5, i6, i7⟩ := ih
      simp only [drive, hnext]
      refine ⟨by simp [i1], ?_, ?_, by rw [i4, f2], ?_, ?_, ?_⟩
      · intro o ho c
        simp only [List.mem_cons] at ho
        rcases ho with rfl | ho
        · exact hfin c
        · rw [i2 o ho c, hfin c]
      · intro c hc
        rw [i3 c (by rw [f2]; exact hc), f1 c hc]
      · intro hk
        simp only [List.length_cons, Nat.add_le_add_iff_right] at hk
        obtain ⟨j1, j2, j3, j4⟩ := i5 hk
        exact ⟨j1, j2, fun c => by rw [j3 c, hfin c], by simpa using j4⟩
      · intro hk he
        simp only [List.length_cons, Nat.add_lt_add_iff_right] at hk
        obtain ⟨j1, j2⟩ := i6 hk he
        refine ⟨j1, ?_⟩
        intro c T hc ht
        exact j2 c T (by rw [f2]; exact hc) (htr c T ht)
      · intro e' hk he
        simp only [List.length_cons, Nat.add_lt_add_iff_right] at hk
        obtain ⟨j1, j2⟩ := i7 e' hk he
        exact ⟨j1, fun c => by rw [j2 c, hfin c]⟩
    | nil =>
      cases e with
      | none =>
        obtain ⟨rfl, hcommit⟩ := hd rfl rfl
        simp only [drive, hnext]
        refine ⟨by simp, by simp, f1, f2, by simp, ?_, ?_⟩
        · intro _ _
          exact ⟨by trivial, hcommit⟩
        · intro e' _ he; simp at he
      | some e =>
        obtain ⟨rfl, hfin⟩ := hr e rfl rfl
        simp only [drive, hnext]
        refine ⟨by simp, by simp, f1, f2, by simp, ?_, ?_⟩
        · intro _ he; simp at he
        · intro e' _ he
          simp at he
          subst he
          exact ⟨by trivial, hfin⟩

/-! ## Finalisation -/

theorem closeUppers_spec : ∀ (us : List Upper) (fs : FS),
    (∀ c, ((closeUppers fs us).1 c).final = (fs c).final) ∧
    (∀ c, c ∉ dumpIds us → (closeUppers fs us).1 c = fs c)
  | [], fs => ⟨fun _ => rfl, fun _ _ => rfl⟩
  | .map j a calls r dead :: us, fs => by
    obtain ⟨h1, h2⟩ := closeUppers_spec us fs
    exact ⟨fun c => by simpa [closeUppers] using h1 c, fun c hc => by simpa [closeUppers] using h2 c (by simpa [dumpIds] using hc)⟩
  | .dump c st :: us, fs => by
    by_cases hst : st = .active
    · obtain ⟨h1, h2⟩ := closeUppers_spec us (fs.removeTmp c)
      simp only [closeUppers, hst, if_true]
      refine ⟨fun d => ?_, fun d hd => ?_⟩
      · rw [h1 d]; by_cases hdc : d = c <;> simp [hdc]
      · have hdc : d ≠ c := fun e => hd (by simp [dumpIds, e])
        rw [h2 d (fun e => hd (by simp [dumpIds, e]))]
        simp [hdc]
    · obtain ⟨h1, h2⟩ := closeUppers_spec us fs
      simp only [closeUppers, hst, if_false]
      exact ⟨h1, fun d hd => h2 d (fun e => hd (by simp [dumpIds, e]))⟩

/-- finalising a chain never touches a cache file -/
theorem close_final (fs : FS) (ch : Chain) (c : Nat) : ((close fs ch).1 c).final = (fs c).final :=
  (closeUppers_spec ch.uppers fs).1 c

theorem finalizeAll_final : ∀ (chs : List Chain) (fs : FS) (c : Nat), ((finalizeAll fs chs) c).final = (fs c).final
  | [], _, _ => rfl
  | ch :: chs, fs, c => by
    simp only [finalizeAll]
    rw [finalizeAll_final chs, close_final]

/-! ## Building chains -/

theorem cacheIds_append (xs ys : List ElSpec) : cacheIds (xs ++ ys) = cacheIds xs ++ cacheIds ys := by
  induction xs with
  | nil => rfl
  | cons x xs ih => cases x <;> simp [cacheIds, ih]

theorem buildEls_append (fs : FS) : ∀ (xs ys : List ElSpec) (j : Nat) (ch : Chain),
    buildEls fs j (xs ++ ys) ch = buildEls fs (j + xs.length) ys (buildEls fs j xs ch)
  | [], ys, j, ch => rfl
  | .map a r :: xs, ys, j, ch => by
    simp only [List.cons_append, buildEls, List.length_cons]
    rw [buildEls_append fs xs ys]; congr 1; omega
  | .cache c rc :: xs, ys, j, ch => by
    simp only [List.cons_append, buildEls, List.length_cons]
    split <;> (rw [buildEls_append fs xs ys]; congr 1; omega)

@[simp] theorem shiftRaise_zero (r : Option Nat) : shiftRaise 0 r = r := by
  cases r <;> simp [shiftRaise]

/-- the remaining flow of a freshly built chain is the reference semantics of the elements -/
theorem rem_buildEls (fs : FS) : ∀ (els : List ElSpec) (j : Nat) (ch : Chain),
    rem fs (buildEls fs j els ch) = elsFlow fs els (rem fs ch)
  | [], _, _ => rfl
  | .map a r :: els, j, ch => by
    rw [buildEls, rem_buildEls fs els, elsFlow]
    simp [rem, remU]
  | .cache c rc :: els, j, ch => by
    rw [buildEls, elsFlow]
    split
    · rw [rem_buildEls fs els]; simp [rem, remB]
    · rw [rem_buildEls fs els]; simp [rem, remU]

theorem rem_freshSrc (fs : FS) (s : SrcSpec) : rem fs ⟨[], freshSrc s⟩ = srcFlow s := by
  obtain ⟨vals, r⟩ := s
  cases r with
  | none => simp [rem, remB, freshSrc, srcFlow]
  | some q => simp [rem, remB, freshSrc, srcFlow]

/-- a freshly built chain is healthy when the caches of the pipeline are pairwise distinct -/
theorem chainOk_buildEls (fs : FS) : ∀ (els : List ElSpec) (j : Nat) (ch : Chain),
    (cacheIds els).Nodup → (∀ c, c ∈ cacheIds els → c ∉ dumpIds ch.uppers) → ChainOk fs ch →
    ChainOk fs (buildEls fs j els ch)
  | [], _, _, _, _, ok => ok
  | .map a r :: els, j, ch, nd, dj, ok => by
    rw [buildEls]
    exact chainOk_buildEls fs els _ _ (by simpa [cacheIds] using nd) (by simpa [cacheIds, dumpIds] using dj)
      ⟨⟨rfl, ok.1⟩, ok.2⟩
  | .cache c rc :: els, j, ch, nd, dj, ok => by
    rw [buildEls]
    simp only [cacheIds, List.nodup_cons] at nd
    split
    · exact chainOk_buildEls fs els _ _ nd.2 (by simp [dumpIds]) ⟨trivial, by simp [BotOk]⟩
    · refine chainOk_buildEls fs els _ _ nd.2 ?_ ⟨⟨by simp, dj c (by simp [cacheIds]), by simp, ok.1⟩, ok.2⟩
      intro d hd
      simp only [dumpIds, List.mem_cons, not_or]
      exact ⟨fun e => nd.1 (e ▸ hd), dj d (by simp [cacheIds, hd])⟩

/-- elements without a filled cache keep the bottom, keep the dump generators below them, and keep the
tracking of a cache that is not among them -/
theorem buildEls_noFilled (fs : FS) (c : Nat) (T : List Val) : ∀ (els : List ElSpec) (j : Nat) (ch : Chain),
    NoFilled fs els → c ∉ cacheIds els →
    (buildEls fs j els ch).bottom = ch.bottom ∧
    (c ∈ dumpIds ch.uppers → c ∈ dumpIds (buildEls fs j els ch).uppers) ∧
    (Track c T fs (remB fs ch.bottom) ch.uppers →
      Track c T fs (remB fs ch.bottom) (buildEls fs j els ch).uppers)
  | [], _, _, _, _ => ⟨rfl, id, id⟩
  | .map a r :: els, j, ch, nf, hc => by
    rw [buildEls]
    obtain ⟨h1, h2, h3⟩ := buildEls_noFilled fs c T els (j + 1) ⟨.map j a 0 r false :: ch.uppers, ch.bottom⟩
      (fun c' rc' h => nf c' rc' (by simp [h])) (by simpa [cacheIds] using hc)
    exact ⟨h1, fun h => h2 (by simpa [dumpIds] using h), fun h => h3 (by simpa [Track] using h)⟩
  | .cache c' rc :: els, j, ch, nf, hc => by
    rw [buildEls]
    have hne : cacheExists fs c' rc = false := nf c' rc (by simp)
    simp only [hne, Bool.false_eq_true, if_false]
    simp only [cacheIds, List.mem_cons, not_or] at hc
    obtain ⟨h1, h2, h3⟩ := buildEls_noFilled fs c T els (j + 1) ⟨.dump c' .fresh :: ch.uppers, ch.bottom⟩
      (fun c'' rc' h => nf c'' rc' (by simp [h])) hc.2
    refine ⟨h1, fun h => h2 (by simp [dumpIds, h]), fun h => h3 ?_⟩
    unfold Track
    simp only [Ne.symm hc.1, if_false]
    exact h

theorem elsFlow_append (fs : FS) : ∀ (xs ys : List ElSpec) (f : Flow),
    elsFlow fs (xs ++ ys) f = elsFlow fs ys (elsFlow fs xs f)
  | [], _, _ => rfl
  | .map a r :: xs, ys, f => by simp only [List.cons_append, elsFlow]; exact elsFlow_append fs xs ys _
  | .cache c rc :: xs, ys, f => by
    simp only [List.cons_append, elsFlow]
    split <;> exact elsFlow_append fs xs ys _

/-! ## Hoisting -/

/-- `Cache.alter_sequence` finds the cache at which `Sequence.run` would restart the flow anyway -/
theorem buildEls_lastFilled (fs : FS) : ∀ (els : List ElSpec) (j : Nat) (ch : Chain),
    match lastFilled fs j els with
    | some (p, c) => j ≤ p ∧ buildEls fs j els ch = buildEls fs (p + 1) (els.drop (p + 1 - j)) ⟨[], .load c .fresh []⟩
    | none => True
  | [], _, _ => by simp [lastFilled]
  | .map a r :: els, j, ch => by
    have ih := buildEls_lastFilled fs els (j + 1) ⟨.map j a 0 r false :: ch.uppers, ch.bottom⟩
    simp only [lastFilled]
    cases h : lastFilled fs (j + 1) els with
    | none => trivial
    | some pc =>
      obtain ⟨p, c⟩ := pc
      rw [h] at ih
      obtain ⟨hj, e⟩ := ih
      refine ⟨by omega, ?_⟩
      rw [buildEls, e]
      have : p + 1 - j = (p + 1 - (j + 1)) + 1 := by omega
      rw [this, List.drop_succ_cons]
  | .cache c' rc :: els, j, ch => by
    simp only [lastFilled]
    cases h : lastFilled fs (j + 1) els with
    | some pc =>
      obtain ⟨p, c⟩ := pc
      have hdrop : p + 1 - j = (p + 1 - (j + 1)) + 1 → (ElSpec.cache c' rc :: els).drop (p + 1 - j) = els.drop (p + 1 - (j + 1)) := by
        intro e; rw [e, List.drop_succ_cons]
      by_cases hx : cacheExists fs c' rc
      · have ih := buildEls_lastFilled fs els (j + 1) ⟨[], .load c' .fresh []⟩
        rw [h] at ih
        obtain ⟨hj, e⟩ := ih
        refine ⟨by omega, ?_⟩
        rw [buildEls, if_pos hx, e, hdrop (by omega)]
      · have ih := buildEls_lastFilled fs els (j + 1) ⟨.dump c' .fresh :: ch.uppers, ch.bottom⟩
        rw [h] at ih
        obtain ⟨hj, e⟩ := ih
        refine ⟨by omega, ?_⟩
        rw [buildEls, if_neg hx, e, hdrop (by omega)]
    | none =>
      by_cases hx : cacheExists fs c' rc
      · simp only [hx, if_true]
        refine ⟨Nat.le_refl _, ?_⟩
        rw [buildEls, if_pos hx]
        have : j + 1 - j = 1 := by omega
        rw [this]; rfl
      · simp [hx]

/-- **hoisting changes nothing**: the chain that `Cache.alter_sequence(seq)()` runs is the chain that
`seq.run(src())` runs -/
theorem buildHoisted_eq (fs : FS) (s : SrcSpec) (els : List ElSpec) :
    buildHoisted fs s els = buildEls fs 0 els ⟨[], freshSrc s⟩ := by
  have h := buildEls_lastFilled fs els 0 ⟨[], freshSrc s⟩
  unfold buildHoisted
  cases hl : lastFilled fs 0 els with
  | none => rfl
  | some pc =>
    obtain ⟨p, c⟩ := pc
    rw [hl] at h
    simpa using h.2.symm

theorem metaAlter_original (fs : FS) (els : List ElSpec) : metaAlter fs els = .original := by
  simp only [metaAlter]
  split <;> rfl

/-- the way a pipeline is put together and called does not matter -/
theorem build_eq (mode : Mode) (hm : mode ≠ .bare) (fs : FS) (s : SrcSpec) (els : List ElSpec) :
    build mode fs s els = buildEls fs 0 els ⟨[], freshSrc s⟩ := by
  cases mode with
  | source => rfl
  | sequence => rfl
  | hoist => exact buildHoisted_eq fs s els
  | viaMeta => simp [build, metaAlter_original]
  | bare => exact absurd rfl hm

theorem build_bare_eq (fs : FS) (s : SrcSpec) (c : Nat) (rc : Bool) :
    build .bare fs s [.cache c rc] = buildEls fs 0 [.cache c rc] ⟨[], freshSrc s⟩ := by
  simp only [build, buildEls]
  split <;> rfl

/-! ## Events -/

def mapIds : List Upper → List Nat
  | [] => []
  | .map j _ _ _ _ :: us => j :: mapIds us
  | .dump _ _ :: us => mapIds us

def Bottom.isLoad : Bottom → Bool
  | .load _ _ _ => true
  | .src _ _ _ _ => false

/-- an event of a map element among `js` (in particular: not an event of the source) -/
def EvFrom (js : List Nat) : Ev → Prop
  | .step j _ => j ∈ js
  | .stepRaise j _ => j ∈ js
  | _ => False

theorem nextBottom_load_evs (fs : FS) (b : Bottom) (hb : b.isLoad = true) :
    (nextBottom fs b).2.1 = [] ∧ (nextBottom fs b).2.2.isLoad = true := by
  cases b with
  | src _ _ _ _ => simp [Bottom.isLoad] at hb
  | load c st rest =>
    cases st with
    | dead => simp [nextBottom, Bottom.isLoad]
    | fresh =>
      simp only [nextBottom]
      split <;> simp [Bottom.isLoad]
    | active => cases rest <;> simp [nextBottom, Bottom.isLoad]

theorem mapAfter_evs (j : Nat) (a : Int) (calls : Nat) (r : Option Nat) (x : Res × List Ev × FS × List Upper × Bottom)
    (js : List Nat) (h : ∀ ev, ev ∈ x.2.1 → EvFrom js ev) :
    (∀ ev, ev ∈ (mapAfter j a calls r x).2.1 → EvFrom (j :: js) ev) ∧
    mapIds (mapAfter j a calls r x).2.2.2.1 = j :: mapIds x.2.2.2.1 ∧
    (mapAfter j a calls r x).2.2.2.2 = x.2.2.2.2 := by
  have mono : ∀ ev, EvFrom js ev → EvFrom (j :: js) ev := by
    intro ev; cases ev <;> simp [EvFrom] <;> intro h <;> exact Or.inr h
  obtain ⟨res, evs, fs', us', b'⟩ := x
  cases res with
  | item v =>
    simp only [mapAfter]
    split
    · refine ⟨?_, by simp [mapIds], rfl⟩
      intro ev hev
      simp only [List.mem_append, List.mem_singleton] at hev
      rcases hev with hev | rfl
      · exact mono ev (h ev hev)
      · simp [EvFrom]
    · refine ⟨?_, by simp [mapIds], rfl⟩
      intro ev hev
      simp only [List.mem_append, List.mem_singleton] at hev
      rcases hev with hev | rfl
      · exact mono ev (h ev hev)
      · simp [EvFrom]
  | done => exact ⟨fun ev hev => mono ev (h ev hev), by simp [mapAfter, mapIds], rfl⟩
  | raised e => exact ⟨fun ev hev => mono ev (h ev hev), by simp [mapAfter, mapIds], rfl⟩

theorem dumpAfter_evs (c : Nat) (x : Res × List Ev × FS × List Upper × Bottom) :
    (dumpAfter c x).2.1 = x.2.1 ∧ mapIds (dumpAfter c x).2.2.2.1 = mapIds x.2.2.2.1 ∧
    (dumpAfter c x).2.2.2.2 = x.2.2.2.2 := by
  obtain ⟨res, evs, fs', us', b'⟩ := x
  cases res with
  | item v => simp [dumpAfter, mapIds]
  | done =>
    simp only [dumpAfter]
    split <;> simp [mapIds]
  | raised e => simp [dumpAfter, mapIds]

/-- on top of `_load_flow` a pull produces only events of the map elements of the chain -/
theorem nextUppers_load_evs : ∀ (us : List Upper) (fs : FS) (b : Bottom), b.isLoad = true →
    (∀ ev, ev ∈ (nextUppers fs us b).2.1 → EvFrom (mapIds us) ev) ∧
    mapIds (nextUppers fs us b).2.2.2.1 = mapIds us ∧
    (nextUppers fs us b).2.2.2.2.isLoad = true
  | [], fs, b, hb => by
    obtain ⟨h1, h2⟩ := nextBottom_load_evs fs b hb
    simp only [nextUppers]
    exact ⟨by simp [h1], by trivial, h2⟩
  | .map j a calls r true :: us, fs, b, hb => by simp [nextUppers, hb]
  | .map j a calls r false :: us, fs, b, hb => by
    obtain ⟨h1, h2, h3⟩ := nextUppers_load_evs us fs b hb
    obtain ⟨g1, g2, g3⟩ := mapAfter_evs j a calls r (nextUppers fs us b) (mapIds us) h1
    simp only [nextUppers, mapIds]
    exact ⟨g1, by rw [g2, h2], by rw [g3]; exact h3⟩
  | .dump c .dead :: us, fs, b, hb => by simp [nextUppers, hb]
  | .dump c .fresh :: us, fs, b, hb => by
    obtain ⟨h1, h2, h3⟩ := nextUppers_load_evs us (fs.openTmpW c) b hb
    obtain ⟨g1, g2, g3⟩ := dumpAfter_evs c (nextUppers (fs.openTmpW c) us b)
    simp only [nextUppers, mapIds]
    exact ⟨by rw [g1]; exact h1, by rw [g2, h2], by rw [g3]; exact h3⟩
  | .dump c .active :: us, fs, b, hb => by
    obtain ⟨h1, h2, h3⟩ := nextUppers_load_evs us fs b hb
    obtain ⟨g1, g2, g3⟩ := dumpAfter_evs c (nextUppers fs us b)
    simp only [nextUppers, mapIds]
    exact ⟨by rw [g1]; exact h1, by rw [g2, h2], by rw [g3]; exact h3⟩

theorem drive_load_evs : ∀ (k : Nat) (fs : FS) (ch : Chain), ch.bottom.isLoad = true →
    ∀ ev, ev ∈ (drive k fs ch).evs → EvFrom (mapIds ch.uppers) ev
  | 0, _, _, _ => by simp [drive]
  | k + 1, fs, ch, hb => by
    obtain ⟨h1, h2, h3⟩ := nextUppers_load_evs ch.uppers fs ch.bottom hb
    rcases hn : nextUppers fs ch.uppers ch.bottom with ⟨res, evs, fs', us', b'⟩
    rw [hn] at h1 h2 h3
    have hnext : next fs ch = (res, evs, fs', ⟨us', b'⟩) := by simp [next, hn]
    cases res with
    | item v =>
      have ih := drive_load_evs k fs' ⟨us', b'⟩ h3
      simp only [drive, hnext]
      intro ev hev
      simp only [List.mem_append] at hev
      rcases hev with hev | hev
      · exact h1 ev hev
      · have := ih ev hev
        simpa [h2] using this
    | done => simp only [drive, hnext]; exact h1
    | raised e => simp only [drive, hnext]; exact h1

/-- the map generators of a built chain are those it started with and elements numbered from `j` on; a
chain that starts on `_load_flow` stays on a `_load_flow` -/
theorem buildEls_mapIds (fs : FS) : ∀ (els : List ElSpec) (j : Nat) (ch : Chain),
    (∀ i, i ∈ mapIds (buildEls fs j els ch).uppers → i ∈ mapIds ch.uppers ∨ j ≤ i) ∧
    (ch.bottom.isLoad = true → (buildEls fs j els ch).bottom.isLoad = true)
  | [], _, _ => ⟨fun _ h => Or.inl h, id⟩
  | .map a r :: els, j, ch => by
    obtain ⟨h1, h2⟩ := buildEls_mapIds fs els (j + 1) ⟨.map j a 0 r false :: ch.uppers, ch.bottom⟩
    rw [buildEls]
    refine ⟨fun i hi => ?_, h2⟩
    rcases h1 i hi with h | h
    · simp only [mapIds, List.mem_cons] at h
      rcases h with rfl | h
      · exact Or.inr (Nat.le_refl _)
      · exact Or.inl h
    · exact Or.inr (by omega)
  | .cache c rc :: els, j, ch => by
    rw [buildEls]
    split
    · obtain ⟨h1, h2⟩ := buildEls_mapIds fs els (j + 1) ⟨[], .load c .fresh []⟩
      refine ⟨fun i hi => ?_, fun _ => h2 rfl⟩
      rcases h1 i hi with h | h
      · simp [mapIds] at h
      · exact Or.inr (by omega)
    · obtain ⟨h1, h2⟩ := buildEls_mapIds fs els (j + 1) ⟨.dump c .fresh :: ch.uppers, ch.bottom⟩
      refine ⟨fun i hi => ?_, h2⟩
      rcases h1 i hi with h | h
      · exact Or.inl (by simpa [mapIds] using h)
      · exact Or.inr (by omega)

theorem build_eq' (mode : Mode) (fs : FS) (s : SrcSpec) (els : List ElSpec) (hm : ModeOk mode els) :
    build mode fs s els = buildEls fs 0 els ⟨[], freshSrc s⟩ := by
  by_cases hb : mode = .bare
  · subst hb
    rcases hm with h | ⟨c, rc, rfl⟩
    · exact absurd rfl h
    · exact build_bare_eq fs s c rc
  · exact build_eq mode hb fs s els

theorem NoFilled.nil (fs : FS) : NoFilled fs [] := fun _ _ h => by simp at h

theorem NoFilled.map {fs : FS} {els : List ElSpec} (a : Int) (r : Option Nat) (h : NoFilled fs els) :
    NoFilled fs (.map a r :: els) := fun c rc hc => h c rc (by simpa using hc)

theorem NoFilled.cache {fs : FS} {els : List ElSpec} {c : Nat} {rc : Bool} (hx : cacheExists fs c rc = false)
    (h : NoFilled fs els) : NoFilled fs (.cache c rc :: els) := fun c' rc' hc => by
  simp only [List.mem_cons, ElSpec.cache.injEq] at hc
  rcases hc with ⟨rfl, rfl⟩ | hc
  · exact hx
  · exact h c' rc' hc

/-- where a dump generator of a built chain comes from: it was there before and no cache of `els` is
replayed, or it is the generator of an unfilled cache of `els` after which no cache is replayed -/
theorem dumpIds_buildEls (fs : FS) (c : Nat) : ∀ (els : List ElSpec) (j : Nat) (ch : Chain),
    c ∈ dumpIds (buildEls fs j els ch).uppers →
    (c ∈ dumpIds ch.uppers ∧ NoFilled fs els) ∨
      ∃ pre rc post, els = pre ++ .cache c rc :: post ∧ cacheExists fs c rc = false ∧ NoFilled fs post
  | [], _, _, h => Or.inl ⟨h, NoFilled.nil fs⟩
  | .map a r :: els, j, ch, h => by
    rw [buildEls] at h
    rcases dumpIds_buildEls fs c els _ _ h with ⟨h, nf⟩ | ⟨pre, rc, post, e, h1, h2⟩
    · exact Or.inl ⟨by simpa [dumpIds] using h, nf.map a r⟩
    · exact Or.inr ⟨.map a r :: pre, rc, post, by simp [e], h1, h2⟩
  | .cache c' rc' :: els, j, ch, h => by
    rw [buildEls] at h
    by_cases hx : cacheExists fs c' rc' = true
    · rw [if_pos hx] at h
      rcases dumpIds_buildEls fs c els _ _ h with ⟨h, _⟩ | ⟨pre, rc, post, e, h1, h2⟩
      · simp [dumpIds] at h
      · exact Or.inr ⟨.cache c' rc' :: pre, rc, post, by simp [e], h1, h2⟩
    · rw [if_neg hx] at h
      have hx' : cacheExists fs c' rc' = false := by simpa using hx
      rcases dumpIds_buildEls fs c els _ _ h with ⟨h, nf⟩ | ⟨pre, rc, post, e, h1, h2⟩
      · simp only [dumpIds, List.mem_cons] at h
        rcases h with rfl | h
        · exact Or.inr ⟨[], rc', els, rfl, hx', nf⟩
        · exact Or.inl ⟨h, nf.cache hx'⟩
      · exact Or.inr ⟨.cache c' rc' :: pre, rc, post, by simp [e], h1, h2⟩

/-- elements without a replayed cache cannot turn a flow that ends with an exception into one that ends
normally -/
theorem elsFlow_exc_none (fs : FS) : ∀ (els : List ElSpec) (f : Flow), NoFilled fs els →
    (elsFlow fs els f).exc = none → f.exc = none
  | [], _, _, h => h
  | .map a r :: els, f, nf, h => by
    have := elsFlow_exc_none fs els (mapFlow a r f) (fun c rc hc => nf c rc (by simp [hc])) (by simpa [elsFlow] using h)
    cases r with
    | none => simpa [mapFlow] using this
    | some q =>
      simp only [mapFlow] at this
      split at this
      · simp at this
      · exact this
  | .cache c rc :: els, f, nf, h => by
    have hx : cacheExists fs c rc = false := nf c rc (by simp)
    simp only [elsFlow, hx, Bool.false_eq_true, if_false] at h
    exact elsFlow_exc_none fs els f (fun c' rc' hc => nf c' rc' (by simp [hc])) h

/-! ## Temporary files -/

/-- every dump generator is suspended, or dead with its temporary file gone -/
def Settled (fs : FS) : List Upper → Prop
  | [] => True
  | .map _ _ _ _ _ :: us => Settled fs us
  | .dump c st :: us => (st = .active ∨ (st = .dead ∧ (fs c).tmp = none)) ∧ Settled fs us

theorem Settled_congr {fs1 fs2 : FS} : ∀ (us : List Upper), (∀ c, c ∈ dumpIds us → (fs1 c).tmp = (fs2 c).tmp) →
    Settled fs1 us → Settled fs2 us
  | [], _, _ => trivial
  | .map _ _ _ _ _ :: us, h, s => Settled_congr (fs1 := fs1) us (fun c hc => h c (by simpa [dumpIds] using hc)) (by simpa [Settled] using s)
  | .dump c st :: us, h, s => by
    obtain ⟨s1, s2⟩ := s
    refine ⟨?_, Settled_congr us (fun d hd => h d (by simp [dumpIds, hd])) s2⟩
    rw [← h c (by simp [dumpIds])]
    exact s1

theorem UsOk.nodup {fs : FS} : ∀ (us : List Upper), UsOk fs us → (dumpIds us).Nodup
  | [], _ => List.nodup_nil
  | .map _ _ _ _ _ :: us, ok => UsOk.nodup us ok.2
  | .dump _ _ :: us, ok => List.nodup_cons.mpr ⟨ok.2.1, UsOk.nodup us ok.2.2.2⟩

/-- after a pull no dump generator is fresh any more, and those that died have removed or renamed their
temporary file -/
theorem nextUppers_settled : ∀ (us : List Upper) (fs : FS) (b : Bottom), UsOk fs us → BotOk b →
    Settled (nextUppers fs us b).2.2.1 (nextUppers fs us b).2.2.2.1
  | [], fs, b, _, _ => by simp [nextUppers, Settled]
  | .map j a calls r dead :: us, fs, b, ok, okb => by
    obtain ⟨rfl, ok'⟩ := ok
    have ih := nextUppers_settled us fs b ok' okb
    rcases hn : nextUppers fs us b with ⟨res0, evs0, fs0, us0, b0⟩
    rw [hn] at ih
    simp only [nextUppers, hn]
    cases res0 with
    | item v =>
      simp only [mapAfter]
      split <;> exact ih
    | done => exact ih
    | raised e => exact ih
  | .dump c .dead :: us, fs, b, ok, _ => absurd rfl ok.1
  | .dump c st :: us, fs, b, ok, okb => by
    obtain ⟨hst, hc, _, ok'⟩ := ok
    -- the file system on which the upstream is pulled
    have key : ∀ fs1 : FS, UsOk fs1 us →
        Settled (dumpAfter c (nextUppers fs1 us b)).2.2.1 (dumpAfter c (nextUppers fs1 us b)).2.2.2.1 := by
      intro fs1 ok1
      have ih := nextUppers_settled us fs1 b ok1 okb
      rcases hn : nextUppers fs1 us b with ⟨res0, evs0, fs0, us0, b0⟩
      rw [hn] at ih
      have hids : dumpIds us0 = dumpIds us := (nextUppers_spec us fs1 b ok1 okb _ _ _ _ _ hn).2.1
      have hc0 : c ∉ dumpIds us0 := by rw [hids]; exact hc
      have other : ∀ (fs' : FS), (∀ d, d ≠ c → fs' d = fs0 d) → Settled fs' us0 := by
        intro fs' h
        exact Settled_congr us0 (fun d hd => by rw [h d (fun e => hc0 (e ▸ hd))]) ih
      cases res0 with
      | item v =>
        simp only [dumpAfter]
        exact ⟨Or.inl rfl, other _ (fun d hd => by simp [hd])⟩
      | done =>
        simp only [dumpAfter]
        cases ht : (fs0 c).tmp with
        | none =>
          rw [FS.replaceTmp_none ht]
          exact ⟨Or.inr ⟨rfl, ht⟩, ih⟩
        | some xs =>
          rw [FS.replaceTmp_some ht]
          exact ⟨Or.inr ⟨rfl, by simp⟩, other _ (fun d hd => by simp [hd])⟩
      | raised e =>
        simp only [dumpAfter]
        exact ⟨Or.inr ⟨rfl, by simp⟩, other _ (fun d hd => by simp [hd])⟩
    cases st with
    | dead => exact absurd rfl hst
    | fresh =>
      simp only [nextUppers]
      exact key _ (UsOk_congr us (fun d hd => by
        have : d ≠ c := fun e => hc (e ▸ hd)
        simp [this]) ok')
    | active =>
      simp only [nextUppers]
      exact key _ ok'

/-- after at least one pull the dump generators of the chain are settled -/
theorem drive_settled : ∀ (k : Nat) (fs : FS) (ch : Chain), ChainOk fs ch →
    Settled (drive (k + 1) fs ch).fs (drive (k + 1) fs ch).chain.uppers
  | k, fs, ch, ok => by
    obtain ⟨us, b⟩ := ch
    obtain ⟨oku, okb⟩ := ok
    have st := nextUppers_settled us fs b oku okb
    rcases hn : nextUppers fs us b with ⟨res, evs, fs', us', b'⟩
    rw [hn] at st
    have hnext : next fs ⟨us, b⟩ = (res, evs, fs', ⟨us', b'⟩) := by simp [next, hn]
    obtain ⟨_, _, hi, hd, hr⟩ := nextUppers_spec us fs b oku okb _ _ _ _ _ hn
    cases res with
    | item v =>
      cases k with
      | zero => simp only [drive, hnext]; exact st
      | succ k =>
        -- the chain is still healthy after an item
        rcases hF : remUs us (remB fs b) with ⟨xs, e⟩
        rw [hF] at hi hd hr
        cases xs with
        | nil =>
          cases e with
          | none => exact absurd (hd rfl rfl).1 (by simp)
          | some e => exact absurd (hr e rfl rfl).1 (by simp)
        | cons v' rest =>
          obtain ⟨_, ok', okb', _⟩ := hi v' rest rfl
          have ih := drive_settled k fs' ⟨us', b'⟩ ⟨ok', okb'⟩
          rw [drive, hnext]
          exact ih
    | done => simp only [drive, hnext]; exact st
    | raised e => simp only [drive, hnext]; exact st

/-- finalising a settled chain removes the temporary file of every dump generator -/
theorem closeUppers_settled : ∀ (us : List Upper) (fs : FS), Settled fs us → (dumpIds us).Nodup →
    ∀ c, c ∈ dumpIds us → ((closeUppers fs us).1 c).tmp = none
  | [], _, _, _, c, hc => by simp [dumpIds] at hc
  | .map _ _ _ _ _ :: us, fs, s, nd, c, hc => by
    simp only [closeUppers]
    exact closeUppers_settled us fs (by simpa [Settled] using s) (by simpa [dumpIds] using nd) c (by simpa [dumpIds] using hc)
  | .dump c' st :: us, fs, s, nd, c, hc => by
    obtain ⟨s1, s2⟩ := s
    simp only [dumpIds, List.nodup_cons] at nd
    simp only [closeUppers]
    have s2' : Settled (if st = .active then fs.removeTmp c' else fs) us := by
      split
      · exact Settled_congr us (fun d hd => by
          have : d ≠ c' := fun e => nd.1 (e ▸ hd)
          simp [this]) s2
      · exact s2
    simp only [dumpIds, List.mem_cons] at hc
    rcases hc with rfl | hc
    · rw [(closeUppers_spec us _).2 c nd.1]
      rcases s1 with rfl | ⟨rfl, h⟩
      · simp
      · simpa using h
    · exact closeUppers_settled us _ s2' nd.2 c hc

/-- no dump generator of the chain is suspended -/
def NoActive : List Upper → Prop
  | [] => True
  | .map _ _ _ _ _ :: us => NoActive us
  | .dump _ st :: us => st ≠ .active ∧ NoActive us

theorem closeUppers_noActive : ∀ (us : List Upper) (fs : FS), NoActive us → (closeUppers fs us).1 = fs
  | [], _, _ => rfl
  | .map _ _ _ _ _ :: us, fs, h => by
    simp only [closeUppers]
    exact closeUppers_noActive us fs (by simpa [NoActive] using h)
  | .dump c st :: us, fs, h => by
    simp only [closeUppers, h.1, if_false]
    exact closeUppers_noActive us fs h.2

theorem buildEls_noActive (fs : FS) : ∀ (els : List ElSpec) (j : Nat) (ch : Chain), NoActive ch.uppers →
    NoActive (buildEls fs j els ch).uppers
  | [], _, _, h => h
  | .map a r :: els, j, ch, h => by
    rw [buildEls]; exact buildEls_noActive fs els _ _ (by simpa [NoActive] using h)
  | .cache c rc :: els, j, ch, h => by
    rw [buildEls]
    split
    · exact buildEls_noActive fs els _ _ trivial
    · exact buildEls_noActive fs els _ _ ⟨by simp, h⟩

end Lena.C18
