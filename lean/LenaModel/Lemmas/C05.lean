import LenaModel.Model.C05
import LenaModel.Lemmas.C17
/-! # C05 — helper lemmas: streams, sinks, the per-element consistency lemmas, the chain induction -/

namespace Lena.C05
open Lena.Flow

variable {α β κ σ : Type}

/-! ## streams -/

@[simp] theorem Strm.andThen_nil (s : Strm α) : s.andThen .nil = s := by
  obtain ⟨v, t⟩ := s
  cases t <;> simp [Strm.andThen, Strm.nil]

@[simp] theorem Strm.nil_andThen (s : Strm α) : Strm.andThen .nil s = s := by
  obtain ⟨v, t⟩ := s
  simp [Strm.andThen, Strm.nil]

@[simp] theorem Strm.fail_andThen (e : Exc) (s : Strm α) : (Strm.fail e).andThen s = .fail e := by
  simp [Strm.andThen, Strm.fail]

theorem Strm.ofList_eq (s : Strm α) (h : s.term = none) : s = .ofList s.vals := by
  obtain ⟨v, t⟩ := s
  simp only at h
  subst h
  rfl

@[simp] theorem composeS_append (ts us : List (Stage α)) (s : Strm α) :
    composeS (ts ++ us) s = (match composeS ts s with
      | .error e => .error e
      | .ok s' => composeS us s') := by
  induction ts generalizing s with
  | nil => simp [composeS]
  | cons t ts ih =>
    simp only [List.cons_append, composeS]
    cases t s with
    | error e => rfl
    | ok s' => exact ih s'

/-! ## sinks -/

/-- what the drivers use of a fill result: the state reached (filling ended, or was stopped by
`LenaStopFill`), or the exception -/
def FillRes.forget : FillRes κ → Except Exc κ
  | .ok s => .ok s
  | .stop s => .ok s
  | .err e => .error e

@[simp] theorem FillRes.map_map (f : κ → β) (g : β → σ) (r : FillRes κ) :
    (r.map f).map g = r.map (g ∘ f) := by
  cases r <;> rfl

@[simp] theorem FillRes.map_id' (r : FillRes κ) : r.map (fun s => s) = r := by
  cases r <;> rfl

theorem FillRes.raise_map (f : κ → β) (e : Exc) (s : κ) :
    (FillRes.raise e s).map f = FillRes.raise e (f s) := by
  unfold FillRes.raise
  split <;> rfl

theorem feedList_append (K : Sink κ α) (s : κ) (a b : List α) :
    feedList K s (a ++ b) = (match feedList K s a with
      | .ok s' => feedList K s' b
      | .stop s' => .stop s'
      | .err e => .err e) := by
  induction a generalizing s with
  | nil => simp [feedList]
  | cons x a ih =>
    simp only [List.cons_append, feedList]
    cases K.fill s x with
    | ok s' => exact ih s'
    | stop s' => rfl
    | err e => rfl

theorem feedS_ofList (K : Sink κ α) (s : κ) (xs : List α) :
    feedS K s (.ofList xs) = feedList K s xs := by
  simp only [feedS, Strm.ofList]
  cases feedList K s xs <;> rfl

theorem feedS_fail (K : Sink κ α) (s : κ) (e : Exc) : feedS K s (.fail e) = FillRes.raise e s := by
  simp [feedS, Strm.fail, feedList]

theorem feedS_cons (K : Sink κ α) (s : κ) (x : α) (t : Strm α) :
    feedS K s (t.cons x) = (match K.fill s x with
      | .ok s' => feedS K s' t
      | .stop s' => .stop s'
      | .err e => .err e) := by
  simp only [feedS, Strm.cons, feedList]
  cases K.fill s x <;> rfl

theorem feedS_andThen (K : Sink κ α) (s : κ) (a b : Strm α) :
    feedS K s (a.andThen b) = (match feedS K s a with
      | .ok s' => feedS K s' b
      | .stop s' => .stop s'
      | .err e => .err e) := by
  obtain ⟨av, at_⟩ := a
  cases at_ with
  | some e =>
    simp only [Strm.andThen, feedS]
    cases feedList K s av with
    | ok s' =>
      simp only [FillRes.raise]
      split <;> rfl
    | stop s' => rfl
    | err e' => rfl
  | none =>
    simp only [Strm.andThen, feedS, feedList_append]
    cases feedList K s av <;> rfl

/-- feeding a sink through a total state isomorphism-like projection: used to strip stage states -/
theorem feedList_map_state (K : Sink κ α) (K' : Sink β α) (f : κ → β)
    (h : ∀ s x, (K.fill s x).map f = K'.fill (f s) x) (s : κ) (xs : List α) :
    (feedList K s xs).map f = feedList K' (f s) xs := by
  induction xs generalizing s with
  | nil => rfl
  | cons x xs ih =>
    simp only [feedList]
    have hx := h s x
    cases hk : K.fill s x with
    | ok s' =>
      rw [hk] at hx
      simp only [FillRes.map] at hx
      rw [← hx]
      exact ih s'
    | stop s' =>
      rw [hk] at hx
      simp only [FillRes.map] at hx
      rw [← hx]
      rfl
    | err e =>
      rw [hk] at hx
      simp only [FillRes.map] at hx
      rw [← hx]
      rfl

theorem feedS_map_state (K : Sink κ α) (K' : Sink β α) (f : κ → β)
    (h : ∀ s x, (K.fill s x).map f = K'.fill (f s) x) (s : κ) (flow : Strm α) :
    (feedS K s flow).map f = feedS K' (f s) flow := by
  simp only [feedS]
  rw [← feedList_map_state K K' f h s flow.vals]
  cases feedList K s flow.vals with
  | ok s' =>
    simp only [FillRes.map]
    cases flow.term with
    | none => rfl
    | some e => exact FillRes.raise_map f e s'
  | stop s' => rfl
  | err e => rfl

theorem feedS_mk_cons (K : Sink κ α) (s : κ) (x : α) (xs : List α) (t : Option Exc) :
    feedS K s ⟨x :: xs, t⟩ = (match K.fill s x with
      | .ok s' => feedS K s' ⟨xs, t⟩
      | .stop s' => .stop s'
      | .err e => .err e) :=
  feedS_cons K s x ⟨xs, t⟩

theorem feedS_mk_nil (K : Sink κ α) (s : κ) (t : Option Exc) :
    feedS K s ⟨[], t⟩ = (match t with
      | some e => FillRes.raise e s
      | none => .ok s) := by
  simp only [feedS, feedList]
  cases t <;> rfl

/-! ## per-element consistency: `fill_into` value by value against `run` on the whole flow

`K` is an arbitrary element being filled, `fs` the element's own `fill_into` state. -/

/-- a callable: `FillInto.fill_into` value by value = filling `Run._call_run`'s output -/
theorem call_stage (f : α → Except Exc α) (K : Sink κ α) (fs : Lena.C17.FillState) (t : Option Exc) :
    ∀ (xs : List α) (s : κ),
      (feedS (stageSink (.call f) K) (fs, s) ⟨xs, t⟩).map Prod.snd = feedS K s (mapGo f t xs)
  | [], s => by
    simp only [feedS_mk_nil, mapGo]
    cases t with
    | none => rfl
    | some e => exact FillRes.raise_map _ e _
  | x :: xs, s => by
    rw [feedS_mk_cons]
    simp only [stageSink, stageFill, mapGo]
    cases hf : f x with
    | error e =>
      simp only [feedS_fail]
      by_cases he : e = Exc.lenaStopFill <;> simp [FillRes.raise, he, FillRes.map]
    | ok w =>
      simp only [feedS_cons]
      cases hk : K.fill s w with
      | ok s' => exact call_stage f K fs t xs s'
      | stop s' => rfl
      | err e => rfl

/-- `Filter`: `Filter.fill_into` value by value = filling `Filter.run`'s output -/
theorem filter_stage (p : α → Except Exc Bool) (K : Sink κ α) (fs : Lena.C17.FillState) (t : Option Exc) :
    ∀ (xs : List α) (s : κ),
      (feedS (stageSink (.filter p) K) (fs, s) ⟨xs, t⟩).map Prod.snd = feedS K s (filterGo p t xs)
  | [], s => by
    simp only [feedS_mk_nil, filterGo]
    cases t with
    | none => rfl
    | some e => exact FillRes.raise_map _ e _
  | x :: xs, s => by
    rw [feedS_mk_cons]
    simp only [stageSink, stageFill, filterGo]
    cases hp : p x with
    | error e =>
      simp only [feedS_fail]
      by_cases he : e = Exc.lenaStopFill <;> simp [FillRes.raise, he, FillRes.map]
    | ok b =>
      cases b with
      | false => exact filter_stage p K fs t xs s
      | true =>
        simp only [feedS_cons]
        cases hk : K.fill s x with
        | ok s' => exact filter_stage p K fs t xs s'
        | stop s' => rfl
        | err e => rfl

/-- a Run element that can break the flow: `FillInto._run_fill_into` value by value = filling the
concatenation of its runs on the single values -/
theorem runEl_stage (r : Stage α) (K : Sink κ α) (fs : Lena.C17.FillState) (t : Option Exc) :
    ∀ (xs : List α) (s : κ),
      (feedS (stageSink (.runEl r) K) (fs, s) ⟨xs, t⟩).map Prod.snd
        = feedS K s (bindGo (fun v => observe (r (.ofList [v]))) t xs)
  | [], s => by
    simp only [feedS_mk_nil, bindGo]
    cases t with
    | none => rfl
    | some e => exact FillRes.raise_map _ e _
  | x :: xs, s => by
    rw [feedS_mk_cons]
    simp only [stageSink, stageFill, bindGo, feedS_andThen]
    cases hk : feedS K s (observe (r (.ofList [x]))) with
    | ok s' => exact runEl_stage r K fs t xs s'
    | stop s' => rfl
    | err e => rfl

/-- `Slice` (non-negative arguments, `step ≥ 1`): `Slice.fill_into` value by value until it raises
`LenaStopFill` fills exactly what `islice` yields — up to the difference between "stopped" and "ended" -/
theorem slice_stage (a : Nat) (stop : Option Nat) (step : Nat) (hs : 1 ≤ step) (K : Sink κ α) :
    ∀ (xs : List α) (next cnt : Nat) (fs : Lena.C17.FillState) (s : κ),
      Lena.C17.FillGood stop step next cnt fs →
      (feedList (stageSink (.slice a stop step) K) (fs, s) xs).forget.map Prod.snd
        = (feedList K s (Lena.C17.isliceGo stop step next cnt xs)).forget
  | [], _, _, _, _, _ => by simp [feedList, Lena.C17.isliceGo, FillRes.forget, Except.map]
  | x :: rest, next, cnt, fs, s, hg => by
    have hstep := Lena.C17.fillInto_step stop step hs next cnt fs hg
    generalize hfi : Lena.C17.fillInto stop step fs = r at hstep
    obtain ⟨fs', o⟩ := r
    simp only at hstep
    rcases hstep with ⟨⟨st, rfl, hle⟩, _, rfl⟩ | ⟨hlt, ⟨rfl, rfl, hg'⟩ | ⟨hne, rfl, hg'⟩⟩
    · simp only [feedList, stageSink, stageFill, hfi]
      rw [Lena.C17.isliceGo_stop _ _ _ _ hle]
      rfl
    · simp only [feedList, stageSink, stageFill, hfi]
      rw [Lena.C17.isliceGo_emit stop step cnt hlt]
      simp only [feedList]
      cases hk : K.fill s x with
      | ok s' => exact slice_stage a stop step hs K rest _ _ fs' s' hg'
      | stop s' => rfl
      | err e => rfl
    · simp only [feedList, stageSink, stageFill, hfi]
      rw [Lena.C17.isliceGo_skip stop step next cnt hlt hne]
      exact slice_stage a stop step hs K rest _ _ fs' s hg'

/-! ## one stage, uniformly -/

theorem FillRes.forget_map (f : κ → β) (r : FillRes κ) : (r.map f).forget = r.forget.map f := by
  cases r <;> rfl

theorem mapGo_term_none (f : α → Except Exc β) (xs : List α) (h : (mapGo f none xs).term = none) :
    mapGo f none xs = .ofList (mapGo f none xs).vals := Strm.ofList_eq _ h

/-- **one element, two drivers** (safe form): if running the element on the whole flow `xs` raises nothing,
then filling the flow value by value through its `fill_into` into any element `K` leaves `K` in the state
that filling the output of its `run` leaves it in — whether or not a `LenaStopFill` ended the filling -/
theorem stage_consistent (e : Pre α) (hwf : e.WF) (K : Sink κ α) (sK : κ) (xs : List α) (s1 : Strm α)
    (hrun : e.run (.ofList xs) = .ok s1) (hterm : s1.term = none) :
    (feedList (stageSink e K) (e.initState, sK) xs).forget.map Prod.snd = (feedList K sK s1.vals).forget := by
  cases e with
  | call f =>
    simp only [Pre.run, Except.ok.injEq] at hrun
    subst hrun
    have h := call_stage f K (Pre.initState (.call f)) none xs sK
    rw [← FillRes.forget_map]
    have h2 : feedS (stageSink (Pre.call f) K) (Pre.initState (.call f), sK) ⟨xs, none⟩
        = feedList (stageSink (Pre.call f) K) (Pre.initState (.call f), sK) xs := feedS_ofList _ _ _
    rw [h2] at h
    rw [h]
    have h3 : mapGo f none xs = .ofList (mapS f (.ofList xs)).vals := Strm.ofList_eq _ hterm
    rw [h3, feedS_ofList]
  | filter p =>
    simp only [Pre.run, Except.ok.injEq] at hrun
    subst hrun
    have h := filter_stage p K (Pre.initState (.filter p)) none xs sK
    rw [← FillRes.forget_map]
    have h2 : feedS (stageSink (Pre.filter p) K) (Pre.initState (.filter p), sK) ⟨xs, none⟩
        = feedList (stageSink (Pre.filter p) K) (Pre.initState (.filter p), sK) xs := feedS_ofList _ _ _
    rw [h2] at h
    rw [h]
    have h3 : filterGo p none xs = .ofList (filterS p (.ofList xs)).vals := Strm.ofList_eq _ hterm
    rw [h3, feedS_ofList]
  | slice a stop step =>
    simp only [Pre.run, Except.ok.injEq] at hrun
    subst hrun
    exact slice_stage a stop step hwf K xs a 0 _ sK (Lena.C17.fillGood_init stop step a)
  | runEl r =>
    have hb : r (.ofList xs) = .ok (bindS (fun v => observe (r (.ofList [v]))) (.ofList xs)) := hwf _
    simp only [Pre.run] at hrun
    rw [hb] at hrun
    simp only [Except.ok.injEq] at hrun
    subst hrun
    have h := runEl_stage r K (Pre.initState (.runEl r)) none xs sK
    rw [← FillRes.forget_map]
    have h2 : feedS (stageSink (Pre.runEl r) K) (Pre.initState (.runEl r), sK) ⟨xs, none⟩
        = feedList (stageSink (Pre.runEl r) K) (Pre.initState (.runEl r), sK) xs := feedS_ofList _ _ _
    rw [h2] at h
    rw [h]
    have h3 : bindGo (fun v => observe (r (.ofList [v]))) none xs
        = .ofList (bindS (fun v => observe (r (.ofList [v]))) (.ofList xs)).vals := Strm.ofList_eq _ hterm
    rw [h3, feedS_ofList]

/-- **one element, two drivers** (strong form, no `Slice`): for any input flow — also one that ends in an
exception — the two ways of filling `K` give the same result, including which exception is raised and
whether it was a `LenaStopFill` -/
theorem stage_consistent_strong (e : Pre α) (hns : e.isSlice = false) (hwf : e.WF) (K : Sink κ α)
    (fs : Lena.C17.FillState) (sK : κ) (inp : Strm α) (s1 : Strm α) (hrun : e.run inp = .ok s1) :
    (feedS (stageSink e K) (fs, sK) inp).map Prod.snd = feedS K sK s1 := by
  obtain ⟨xs, t⟩ := inp
  cases e with
  | call f =>
    simp only [Pre.run, Except.ok.injEq] at hrun
    subst hrun
    exact call_stage f K fs t xs sK
  | filter p =>
    simp only [Pre.run, Except.ok.injEq] at hrun
    subst hrun
    exact filter_stage p K fs t xs sK
  | slice a stop step => simp [Pre.isSlice] at hns
  | runEl r =>
    have hb : r ⟨xs, t⟩ = .ok (bindS (fun v => observe (r (.ofList [v]))) ⟨xs, t⟩) := hwf _
    simp only [Pre.run] at hrun
    rw [hb] at hrun
    simp only [Except.ok.injEq] at hrun
    subst hrun
    exact runEl_stage r K fs t xs sK

/-! ## the whole pre-processing chain -/

theorem except_map_chainAcc_nil (x : Except Exc σ) :
    Except.map (chainAcc (α := α) (σ := σ) []) x = x := by
  cases x <;> rfl

theorem except_map_chainAcc_cons (e : Pre α) (rest : List (Pre α))
    (x : Except Exc (Lena.C17.FillState × ChainState σ rest)) :
    Except.map (chainAcc (σ := σ) (e :: rest)) x = Except.map (chainAcc rest) (Except.map Prod.snd x) := by
  cases x with
  | error err => rfl
  | ok p => obtain ⟨fs, s⟩ := p; rfl

theorem fillRes_map_chainAcc_nil (x : FillRes σ) :
    FillRes.map (chainAcc (α := α) (σ := σ) []) x = x := by
  cases x <;> rfl

theorem fillRes_map_chainAcc_cons (e : Pre α) (rest : List (Pre α))
    (x : FillRes (Lena.C17.FillState × ChainState σ rest)) :
    FillRes.map (chainAcc (σ := σ) (e :: rest)) x = FillRes.map (chainAcc rest) (FillRes.map Prod.snd x) := by
  cases x with
  | err err => rfl
  | ok p => obtain ⟨fs, s⟩ := p; rfl
  | stop p => obtain ⟨fs, s⟩ := p; rfl

theorem preWF_cons {e : Pre α} {rest : List (Pre α)} (h : PreWF (e :: rest)) : e.WF ∧ PreWF rest :=
  ⟨h e (List.mem_cons_self ..), fun e' he' => h e' (List.mem_cons_of_mem _ he')⟩

theorem noSlice_cons {e : Pre α} {rest : List (Pre α)} (h : NoSlice (e :: rest)) :
    e.isSlice = false ∧ NoSlice rest :=
  ⟨h e (List.mem_cons_self ..), fun e' he' => h e' (List.mem_cons_of_mem _ he')⟩

/-- under `PreSafe`, the `Sequence` stages before the accumulator turn the flow into a list `ys` without
raising, and the `_Fill` chain fed value by value leaves the accumulator as filling `ys` does -/
theorem chain_safe (a : Acc σ α) : ∀ (pre : List (Pre α)) (xs : List α), PreWF pre → PreSafe pre xs →
    ∃ ys, composeS (pre.map Pre.run) (.ofList xs) = .ok (.ofList ys) ∧
      (feedList (chainSink a pre) (chainInit a.init pre) xs).forget.map (chainAcc pre)
        = (feedList (accSink a) a.init ys).forget
  | [], xs, _, _ => by
    exact ⟨xs, rfl, except_map_chainAcc_nil _⟩
  | e :: rest, xs, hwf, hsafe => by
    obtain ⟨hwe, hwr⟩ := preWF_cons hwf
    simp only [PreSafe, preSafeB] at hsafe
    cases hrun : e.run (.ofList xs) with
    | error err => simp [hrun] at hsafe
    | ok s1 =>
      simp only [hrun, Bool.and_eq_true, Option.isNone_iff_eq_none] at hsafe
      obtain ⟨hterm, hrest⟩ := hsafe
      obtain ⟨ys, hys, hfeed⟩ := chain_safe a rest s1.vals hwr hrest
      refine ⟨ys, ?_, ?_⟩
      · simp only [List.map_cons, composeS, hrun]
        rw [Strm.ofList_eq s1 hterm]
        exact hys
      · have hst := stage_consistent e hwe (chainSink a rest) (chainInit a.init rest) xs s1 hrun hterm
        rw [← hfeed, ← hst]
        exact except_map_chainAcc_cons e rest _

/-- without a `Slice`, for any input flow: the `Sequence` stages give a flow `out`, and filling the `_Fill`
chain value by value is exactly filling the accumulator with `out` -/
theorem chain_noslice (a : Acc σ α) : ∀ (pre : List (Pre α)) (inp : Strm α), PreWF pre → NoSlice pre →
    ∃ out, composeS (pre.map Pre.run) inp = .ok out ∧
      (feedS (chainSink a pre) (chainInit a.init pre) inp).map (chainAcc pre) = feedS (accSink a) a.init out
  | [], inp, _, _ => by
    exact ⟨inp, rfl, fillRes_map_chainAcc_nil _⟩
  | e :: rest, inp, hwf, hns => by
    obtain ⟨hwe, hwr⟩ := preWF_cons hwf
    obtain ⟨hne, hnr⟩ := noSlice_cons hns
    have hrun : ∃ s1, e.run inp = .ok s1 := by
      cases e with
      | call f => exact ⟨_, rfl⟩
      | filter p => exact ⟨_, rfl⟩
      | slice a stop step => exact ⟨_, rfl⟩
      | runEl r => exact ⟨_, hwe inp⟩
    obtain ⟨s1, hrun⟩ := hrun
    obtain ⟨out, hout, hfeed⟩ := chain_noslice a rest s1 hwr hnr
    refine ⟨out, ?_, ?_⟩
    · simp only [List.map_cons, composeS, hrun]
      exact hout
    · have hst := stage_consistent_strong e hne hwe (chainSink a rest) e.initState (chainInit a.init rest) inp s1 hrun
      rw [← hfeed, ← hst]
      exact fillRes_map_chainAcc_cons e rest _

/-! ## the accumulator at the end -/

theorem feedList_accSink (a : Acc σ α) (hns : AccNoStop a) : ∀ (xs : List α) (s : σ),
    feedList (accSink a) s xs = (match a.fillAll s xs with
      | .ok s' => .ok s'
      | .error e => .err e)
  | [], s => rfl
  | x :: xs, s => by
    simp only [feedList, accSink, Acc.fillAll]
    cases hf : a.fill s x with
    | error e =>
      have : e ≠ Exc.lenaStopFill := fun h => hns s x (h ▸ hf)
      simp [FillRes.raise, this]
    | ok s' => exact feedList_accSink a hns xs s'

/-! ## `Split.run` with one branch -/

/-- what a driver makes of the result of the filling: the exception, or `compute` -/
def finish (c : Chain σ α) : FillRes (ChainState σ c.pre) → Strm α
  | .err e => .fail e
  | .ok st => computeAfter c (chainAcc c.pre st)
  | .stop st => computeAfter c (chainAcc c.pre st)

theorem fillRun_eq_finish (c : Chain σ α) (xs : List α) : fillRun c xs = finish c (fillAllChain c xs) := by
  unfold fillRun finish
  cases fillAllChain c xs <;> rfl

/-- what is still to come from an active branch when the buffers `bufs` are still to be read -/
def Active.rest (B : Active σ α) (bufs : List (List α)) : Strm α :=
  finish B.chain (feedList (chainSink B.chain.acc B.chain.pre) B.st bufs.flatten)

theorem splitLoop_no_active : ∀ (bufs : List (List α)), splitLoop bufs ([] : List (Active σ α)) = .nil
  | [] => rfl
  | buf :: bufs => by
    simp only [splitLoop, processBuf, Strm.nil_andThen]
    exact splitLoop_no_active bufs

@[simp] theorem tag_fail (i : Nat) (e : Exc) : tag i (Strm.fail e : Strm α) = .fail e := rfl

theorem splitLoop_single : ∀ (bufs : List (List α)) (B : Active σ α),
    splitLoop bufs [B] = tag B.idx (B.rest bufs)
  | [], B => by
    simp only [splitLoop, finalCompute, Strm.andThen_nil, Active.rest, List.flatten_nil, feedList, finish]
  | buf :: bufs, B => by
    simp only [splitLoop, processBuf, Active.rest, List.flatten_cons, feedList_append]
    cases hf : feedList (chainSink B.chain.acc B.chain.pre) B.st buf with
    | err e => simp [finish]
    | ok st' =>
      simp only [Strm.nil_andThen]
      exact splitLoop_single bufs { B with st := st' }
    | stop st' =>
      simp only [Strm.andThen_nil, splitLoop_no_active, finish]

theorem chunksFuel_flatten (b : Nat) (hb : 1 ≤ b) : ∀ (n : Nat) (xs : List α), xs.length ≤ n →
    (chunksFuel b n xs).flatten = xs
  | 0, xs, h => by
    have : xs = [] := List.eq_nil_of_length_eq_zero (by omega)
    subst this
    rfl
  | n + 1, [], _ => rfl
  | n + 1, x :: xs, h => by
    simp only [chunksFuel, List.flatten_cons]
    rw [chunksFuel_flatten b hb n ((x :: xs).drop b)]
    · exact List.take_append_drop b (x :: xs)
    · simp only [List.length_drop, List.length_cons] at h ⊢
      omega

theorem chunks_flatten (b : Option Nat) (hb : b ≠ some 0) (xs : List α) : (chunks b xs).flatten = xs := by
  cases b with
  | none =>
    simp only [chunks]
    cases xs <;> simp
  | some n =>
    simp only [chunks]
    exact chunksFuel_flatten n (by cases n with | zero => exact absurd rfl hb | succ k => omega) _ _ (Nat.le_refl _)

/-! ## constructors on objects -/

theorem dataSeq_of_all_data : ∀ (l : List Obj), (∀ o ∈ l, o.hasNoData = false) → dataSeq l = l
  | [], _ => rfl
  | o :: l, h => by
    have ho := h o (List.mem_cons_self ..)
    have hl := dataSeq_of_all_data l (fun o' ho' => h o' (List.mem_cons_of_mem _ ho'))
    simp only [dataSeq] at hl ⊢
    simp [List.filter, ho, hl]

theorem toStages_append : ∀ (a b : List Obj) (sa sb : List (Stage Value)),
    toStages a = .ok sa → toStages b = .ok sb → toStages (a ++ b) = .ok (sa ++ sb)
  | [], b, sa, sb, ha, hb => by
    simp only [toStages, Except.ok.injEq] at ha
    subst ha
    simpa using hb
  | o :: a, b, sa, sb, ha, hb => by
    simp only [toStages] at ha
    cases ho : o.toStage with
    | error e => simp [ho] at ha
    | ok st =>
      cases hr : toStages a with
      | error e => simp [ho, hr] at ha
      | ok sts =>
        simp only [ho, hr, Except.ok.injEq] at ha
        subst ha
        simp only [List.cons_append, toStages, ho, toStages_append a b sts sb hr hb]

theorem toStages_error : ∀ (l : List Obj) (e : Exc), toStages l = .error e → e = .lenaTypeError
  | [], e, h => by simp [toStages] at h
  | o :: l, e, h => by
    simp only [toStages] at h
    cases ho : o.toStage with
    | error e' =>
      simp only [ho, Except.error.injEq] at h
      subst h
      simp only [Obj.toStage] at ho
      split at ho
      · simp at ho
      · split at ho <;> simp_all
    | ok st =>
      cases hr : toStages l with
      | error e' =>
        simp only [ho, hr, Except.error.injEq] at h
        subst h
        exact toStages_error l e' hr
      | ok sts => simp [ho, hr] at h

theorem toPres_error : ∀ (l : List Obj) (e : Exc), toPres l = .error e → e = .lenaTypeError
  | [], e, h => by simp [toPres] at h
  | o :: l, e, h => by
    simp only [toPres] at h
    cases ho : o.toPre with
    | error e' =>
      simp only [ho, Except.error.injEq] at h
      subst h
      simp only [Obj.toPre] at ho
      split at ho
      · simp at ho
      · split at ho <;> simp_all
    | ok st =>
      cases hr : toPres l with
      | error e' =>
        simp only [ho, hr, Except.error.injEq] at h
        subst h
        exact toPres_error l e' hr
      | ok sts => simp [ho, hr] at h

theorem splitAtFc_append : ∀ (pre : List Obj) (acc : Obj) (post : List Obj),
    (∀ o ∈ pre, o.caps.isFillComputeEl = false) → acc.caps.isFillComputeEl = true →
    splitAtFc (pre ++ acc :: post) = some (pre, acc, post)
  | [], acc, post, _, hacc => by simp [splitAtFc, hacc]
  | o :: pre, acc, post, hpre, hacc => by
    have ho := hpre o (List.mem_cons_self ..)
    have ih := splitAtFc_append pre acc post (fun o' ho' => hpre o' (List.mem_cons_of_mem _ ho')) hacc
    simp [splitAtFc, ho, ih]

/-! ## `Split.run` with several branches: every branch yields what it yields alone -/

theorem project_andThen (i : Nat) (a b : Strm (Nat × α)) (h : a.term = none) :
    project i (a.andThen b) = project i a ++ project i b := by
  obtain ⟨av, at_⟩ := a
  simp only at h
  subst h
  simp [project, Strm.andThen]

theorem andThen_term (a b : Strm α) (h : a.term = none) : (a.andThen b).term = b.term := by
  obtain ⟨av, at_⟩ := a
  simp only at h
  subst h
  rfl

@[simp] theorem tag_term (j : Nat) (s : Strm α) : (tag j s).term = s.term := rfl

theorem project_tag_same (i : Nat) (s : Strm α) : project i (tag i s) = s.vals := by
  simp only [project, tag, Strm.map, List.filter_map, List.map_map]
  have h1 : (fun (p : Nat × α) => p.1 == i) ∘ (fun v => (i, v)) = fun _ => true := by
    funext v; simp
  have h2 : (Prod.snd ∘ fun (v : α) => (i, v)) = id := rfl
  rw [h1, h2]
  simp

theorem project_tag_ne (i j : Nat) (h : (j == i) = false) (s : Strm α) : project i (tag j s) = [] := by
  simp only [project, tag, Strm.map, List.filter_map, List.map_map]
  have h1 : (fun (p : Nat × α) => p.1 == i) ∘ (fun v => (j, v)) = fun _ => false := by
    funext v; simp [h]
  rw [h1]
  simp

@[simp] theorem project_nil (i : Nat) : project i (Strm.nil : Strm (Nat × α)) = [] := rfl

theorem rest_cons_ok (B : Active σ α) (buf : List α) (bufs : List (List α)) (st' : ChainState σ B.chain.pre)
    (h : feedList (chainSink B.chain.acc B.chain.pre) B.st buf = .ok st') :
    B.rest (buf :: bufs) = Active.rest { B with st := st' } bufs := by
  simp only [Active.rest, List.flatten_cons, feedList_append, h]

theorem rest_cons_stop (B : Active σ α) (buf : List α) (bufs : List (List α)) (st' : ChainState σ B.chain.pre)
    (h : feedList (chainSink B.chain.acc B.chain.pre) B.st buf = .stop st') :
    B.rest (buf :: bufs) = computeAfter B.chain (chainAcc B.chain.pre st') := by
  simp only [Active.rest, List.flatten_cons, feedList_append, h, finish]

theorem rest_cons_err (B : Active σ α) (buf : List α) (bufs : List (List α)) (e : Exc)
    (h : feedList (chainSink B.chain.acc B.chain.pre) B.st buf = .err e) :
    B.rest (buf :: bufs) = .fail e := by
  simp only [Active.rest, List.flatten_cons, feedList_append, h, finish]

/-- one buffer: if no active branch is going to raise, nothing raises here, the branches that stay active are
not going to raise, and the output restricted to branch `i` does not depend on the other branches -/
theorem processBuf_filter (i : Nat) (buf : List α) (bufs : List (List α)) :
    ∀ (act : List (Active σ α)), (∀ B ∈ act, (B.rest (buf :: bufs)).term = none) →
      (processBuf buf act).2.term = none ∧
      (∀ B' ∈ (processBuf buf act).1, (B'.rest bufs).term = none) ∧
      (processBuf buf (act.filter (fun B => B.idx == i))).1 = (processBuf buf act).1.filter (fun B => B.idx == i) ∧
      project i (processBuf buf (act.filter (fun B => B.idx == i))).2 = project i (processBuf buf act).2
  | [], _ => by simp [processBuf, Strm.nil]
  | B :: rest, h => by
    have hB := h B (List.mem_cons_self ..)
    obtain ⟨ih1, ih2, ih3, ih4⟩ := processBuf_filter i buf bufs rest
      (fun B' hB' => h B' (List.mem_cons_of_mem _ hB'))
    cases hf : feedList (chainSink B.chain.acc B.chain.pre) B.st buf with
    | err e =>
      rw [rest_cons_err B buf bufs e hf] at hB
      simp [Strm.fail] at hB
    | ok st' =>
      rw [rest_cons_ok B buf bufs st' hf] at hB
      by_cases hp : (B.idx == i) = true
      · simp only [List.filter_cons, hp, if_true, processBuf, hf]
        refine ⟨ih1, ?_, ?_, ih4⟩
        · intro B' hB'
          rcases List.mem_cons.mp hB' with rfl | hB'
          · exact hB
          · exact ih2 B' hB'
        · rw [ih3]
      · have hp' : (B.idx == i) = false := by simpa using hp
        simp only [List.filter_cons, hp', Bool.false_eq_true, if_false, processBuf, hf]
        refine ⟨ih1, ?_, ih3, ih4⟩
        intro B' hB'
        rcases List.mem_cons.mp hB' with rfl | hB'
        · exact hB
        · exact ih2 B' hB'
    | stop st' =>
      rw [rest_cons_stop B buf bufs st' hf] at hB
      have htag : (tag B.idx (computeAfter B.chain (chainAcc B.chain.pre st'))).term = none := hB
      by_cases hp : (B.idx == i) = true
      · simp only [List.filter_cons, hp, if_true, processBuf, hf]
        refine ⟨?_, ih2, ih3, ?_⟩
        · rw [andThen_term _ _ htag]; exact ih1
        · rw [project_andThen _ _ _ htag, project_andThen _ _ _ htag, ih4]
      · have hp' : (B.idx == i) = false := by simpa using hp
        simp only [List.filter_cons, hp', Bool.false_eq_true, if_false, processBuf, hf]
        refine ⟨?_, ih2, ih3, ?_⟩
        · rw [andThen_term _ _ htag]; exact ih1
        · rw [project_andThen _ _ _ htag, project_tag_ne i B.idx hp', List.nil_append]
          exact ih4

theorem finalCompute_filter (i : Nat) : ∀ (act : List (Active σ α)),
    (∀ B ∈ act, (B.rest []).term = none) →
      (finalCompute act).term = none ∧
      project i (finalCompute (act.filter (fun B => B.idx == i))) = project i (finalCompute act)
  | [], _ => by simp [finalCompute, Strm.nil]
  | B :: rest, h => by
    have hB := h B (List.mem_cons_self ..)
    obtain ⟨ih1, ih2⟩ := finalCompute_filter i rest (fun B' hB' => h B' (List.mem_cons_of_mem _ hB'))
    simp only [Active.rest, List.flatten_nil, feedList, finish] at hB
    have htag : (tag B.idx (computeAfter B.chain (chainAcc B.chain.pre B.st))).term = none := hB
    by_cases hp : (B.idx == i) = true
    · simp only [List.filter_cons, hp, if_true, finalCompute]
      refine ⟨?_, ?_⟩
      · rw [andThen_term _ _ htag]; exact ih1
      · rw [project_andThen _ _ _ htag, project_andThen _ _ _ htag, ih2]
    · have hp' : (B.idx == i) = false := by simpa using hp
      simp only [List.filter_cons, hp', Bool.false_eq_true, if_false, finalCompute]
      refine ⟨?_, ?_⟩
      · rw [andThen_term _ _ htag]; exact ih1
      · rw [project_andThen _ _ _ htag, project_tag_ne i B.idx hp', List.nil_append]
        exact ih2

/-- the whole loop: the output restricted to branch `i` is what the loop yields with the branches tagged `i`
alone -/
theorem splitLoop_filter (i : Nat) : ∀ (bufs : List (List α)) (act : List (Active σ α)),
    (∀ B ∈ act, (B.rest bufs).term = none) →
      (splitLoop bufs act).term = none ∧
      project i (splitLoop bufs (act.filter (fun B => B.idx == i))) = project i (splitLoop bufs act)
  | [], act, h => by
    simp only [splitLoop]
    exact finalCompute_filter i act h
  | buf :: bufs, act, h => by
    obtain ⟨h1, h2, h3, h4⟩ := processBuf_filter i buf bufs act h
    obtain ⟨ih1, ih2⟩ := splitLoop_filter i bufs (processBuf buf act).1 h2
    have hsub : ∀ B ∈ act.filter (fun B => B.idx == i), (B.rest (buf :: bufs)).term = none :=
      fun B hB => h B (List.mem_filter.mp hB).1
    obtain ⟨g1, _, _, _⟩ := processBuf_filter i buf bufs (act.filter (fun B => B.idx == i)) hsub
    simp only [splitLoop]
    refine ⟨?_, ?_⟩
    · rw [andThen_term _ _ h1]; exact ih1
    · rw [project_andThen _ _ _ h1, project_andThen _ _ _ g1, h3, h4, ih2]

theorem initActive_idx_ge : ∀ (cs : List (Chain σ α)) (k : Nat), ∀ B ∈ initActive k cs, k ≤ B.idx
  | [], _, B, h => by simp [initActive] at h
  | c :: cs, k, B, h => by
    simp only [initActive, List.mem_cons] at h
    rcases h with rfl | h
    · exact Nat.le_refl _
    · exact Nat.le_of_succ_le (initActive_idx_ge cs (k + 1) B h)

theorem initActive_filter : ∀ (cs : List (Chain σ α)) (k i : Nat) (hi : i < cs.length),
    (initActive k cs).filter (fun B => B.idx == k + i)
      = [{ chain := cs[i], st := chainInit cs[i].acc.init cs[i].pre, idx := k + i }]
  | [], _, _, hi => by simp at hi
  | c :: cs, k, 0, _ => by
    have hnone : (initActive (k + 1) cs).filter (fun B => B.idx == k + 0) = [] := by
      apply List.filter_eq_nil_iff.mpr
      intro B hB
      have := initActive_idx_ge cs (k + 1) B hB
      simp only [Nat.add_zero, beq_iff_eq]
      omega
    simp only [initActive, List.filter_cons, Nat.add_zero, beq_self_eq_true, if_true, List.getElem_cons_zero]
    simp only [Nat.add_zero] at hnone
    rw [hnone]
  | c :: cs, k, i + 1, hi => by
    have hi' : i < cs.length := by simpa using hi
    have ih := initActive_filter cs (k + 1) i hi'
    have hk : k + 1 + i = k + (i + 1) := by omega
    rw [hk] at ih
    have hne : (k == k + (i + 1)) = false := by simp
    simp only [initActive, List.filter_cons, hne, Bool.false_eq_true, if_false, List.getElem_cons_succ]
    exact ih

theorem initActive_rest (bufs : List (List α)) : ∀ (cs : List (Chain σ α)) (k : Nat), ∀ B ∈ initActive k cs,
    ∃ c ∈ cs, B.rest bufs
      = finish c (feedList (chainSink c.acc c.pre) (chainInit c.acc.init c.pre) bufs.flatten)
  | [], _, B, h => by simp [initActive] at h
  | c :: cs, k, B, h => by
    simp only [initActive, List.mem_cons] at h
    rcases h with rfl | h
    · exact ⟨c, List.mem_cons_self .., rfl⟩
    · obtain ⟨c', hc', h1⟩ := initActive_rest bufs cs (k + 1) B h
      exact ⟨c', List.mem_cons_of_mem _ hc', h1⟩

/-! ## `PreSafe` characterised: lemmas per stage -/

theorem Strm.cons_eq_ofList (y : β) (s : Strm β) (ys : List β) :
    s.cons y = .ofList ys ↔ ∃ ys', ys = y :: ys' ∧ s = .ofList ys' := by
  obtain ⟨v, t⟩ := s
  simp only [Strm.cons, Strm.ofList, Strm.mk.injEq]
  constructor
  · rintro ⟨h1, h2⟩
    exact ⟨v, h1.symm, rfl, h2⟩
  · rintro ⟨ys', rfl, h1, h2⟩
    exact ⟨by rw [h1], h2⟩

theorem Strm.fail_ne_ofList (e : Exc) (ys : List β) : (Strm.fail e : Strm β) ≠ .ofList ys := by
  simp [Strm.fail, Strm.ofList]

/-- `f` returns (does not raise) on every value of `xs`, and `ys` are its results -/
inductive MapsTo (f : α → Except Exc β) : List α → List β → Prop where
  | nil : MapsTo f [] []
  | cons {x : α} {y : β} {xs : List α} {ys : List β} : f x = .ok y → MapsTo f xs ys → MapsTo f (x :: xs) (y :: ys)

theorem mapGo_eq_ofList (f : α → Except Exc β) : ∀ (xs : List α) (ys : List β),
    mapGo f none xs = .ofList ys ↔ MapsTo f xs ys
  | [], ys => by
    simp only [mapGo, Strm.ofList, Strm.mk.injEq, and_true]
    constructor
    · intro h; subst h; exact .nil
    · intro h; cases h; rfl
  | x :: xs, ys => by
    simp only [mapGo]
    cases hf : f x with
    | error e =>
      constructor
      · intro h; exact absurd h (Strm.fail_ne_ofList e ys)
      · intro h
        cases h with
        | cons h1 _ => rw [hf] at h1; cases h1
    | ok y =>
      simp only [Strm.cons_eq_ofList]
      constructor
      · rintro ⟨ys', rfl, h⟩
        exact .cons hf ((mapGo_eq_ofList f xs ys').mp h)
      · intro h
        cases h with
        | cons h1 h2 =>
          rw [hf] at h1
          cases h1
          exact ⟨_, rfl, (mapGo_eq_ofList f xs _).mpr h2⟩

/-- `selector(value)` returned `True` -/
def selTrue (r : Except Exc Bool) : Bool :=
  match r with
  | .ok true => true
  | _ => false

theorem selTrue_true : selTrue (.ok true) = true := rfl
theorem selTrue_false : selTrue (.ok false) = false := rfl

theorem filterGo_eq_ofList (p : α → Except Exc Bool) : ∀ (xs ys : List α),
    filterGo p none xs = .ofList ys ↔
      (∀ x ∈ xs, ∃ b, p x = .ok b) ∧ ys = xs.filter (fun x => selTrue (p x))
  | [], ys => by
    simp only [filterGo, Strm.ofList, Strm.mk.injEq, and_true, List.not_mem_nil, false_imp_iff, implies_true,
      List.filter_nil, true_and]
    exact eq_comm
  | x :: xs, ys => by
    simp only [filterGo]
    cases hp : p x with
    | error e =>
      constructor
      · intro h; exact absurd h (Strm.fail_ne_ofList e ys)
      · rintro ⟨h, _⟩
        obtain ⟨b, hb⟩ := h x (List.mem_cons_self ..)
        rw [hp] at hb; cases hb
    | ok b =>
      cases b with
      | true =>
        simp only [Strm.cons_eq_ofList, List.filter_cons, hp, selTrue_true, if_true]
        constructor
        · rintro ⟨ys', rfl, h⟩
          obtain ⟨h1, h2⟩ := (filterGo_eq_ofList p xs ys').mp h
          refine ⟨?_, by rw [h2]⟩
          intro x' hx'
          rcases List.mem_cons.mp hx' with rfl | hx'
          · exact ⟨true, hp⟩
          · exact h1 x' hx'
        · rintro ⟨h1, rfl⟩
          exact ⟨_, rfl, (filterGo_eq_ofList p xs _).mpr
            ⟨fun x' hx' => h1 x' (List.mem_cons_of_mem _ hx'), rfl⟩⟩
      | false =>
        simp only [List.filter_cons, hp, selTrue_false, Bool.false_eq_true, if_false]
        rw [filterGo_eq_ofList p xs ys]
        constructor
        · rintro ⟨h1, h2⟩
          refine ⟨?_, h2⟩
          intro x' hx'
          rcases List.mem_cons.mp hx' with rfl | hx'
          · exact ⟨false, hp⟩
          · exact h1 x' hx'
        · rintro ⟨h1, h2⟩
          exact ⟨fun x' hx' => h1 x' (List.mem_cons_of_mem _ hx'), h2⟩

theorem Strm.andThen_eq_ofList (a b : Strm β) (ys : List β) :
    a.andThen b = .ofList ys ↔ a.term = none ∧ ∃ ys', b = .ofList ys' ∧ ys = a.vals ++ ys' := by
  obtain ⟨av, at_⟩ := a
  obtain ⟨bv, bt⟩ := b
  cases at_ with
  | some e => simp [Strm.andThen, Strm.ofList]
  | none =>
    simp only [Strm.andThen, Strm.ofList, Strm.mk.injEq, true_and]
    constructor
    · rintro ⟨h1, h2⟩
      exact ⟨bv, ⟨rfl, h2⟩, h1.symm⟩
    · rintro ⟨ys', ⟨h1, h2⟩, h3⟩
      subst h1
      exact ⟨h3.symm, h2⟩

theorem bindGo_eq_ofList (g : α → Strm β) : ∀ (xs : List α) (ys : List β),
    bindGo g none xs = .ofList ys ↔
      (∀ x ∈ xs, (g x).term = none) ∧ ys = xs.flatMap (fun x => (g x).vals)
  | [], ys => by
    simp only [bindGo, Strm.ofList, Strm.mk.injEq, and_true, List.not_mem_nil, false_imp_iff, implies_true,
      List.flatMap_nil, true_and]
    exact eq_comm
  | x :: xs, ys => by
    simp only [bindGo, Strm.andThen_eq_ofList, List.flatMap_cons]
    constructor
    · rintro ⟨h1, ys', h2, rfl⟩
      obtain ⟨h3, h4⟩ := (bindGo_eq_ofList g xs ys').mp h2
      refine ⟨?_, by rw [h4]⟩
      intro x' hx'
      rcases List.mem_cons.mp hx' with rfl | hx'
      · exact h1
      · exact h3 x' hx'
    · rintro ⟨h1, rfl⟩
      exact ⟨h1 x (List.mem_cons_self ..), _,
        (bindGo_eq_ofList g xs _).mpr ⟨fun x' hx' => h1 x' (List.mem_cons_of_mem _ hx'), rfl⟩, rfl⟩

theorem term_none_iff_ofList (s : Strm β) : s.term = none ↔ ∃ ys, s = .ofList ys :=
  ⟨fun h => ⟨s.vals, Strm.ofList_eq s h⟩, fun ⟨_, h⟩ => by rw [h]; rfl⟩

/-! ## `Split` filled as a FillCompute element, when no branch stops -/

/-- the branch after it was filled with `xs` (left as it is if the filling does not return normally) -/
def Active.advance (B : Active σ α) (xs : List α) : Active σ α :=
  match feedList (chainSink B.chain.acc B.chain.pre) B.st xs with
  | .ok st' => { B with st := st' }
  | _ => B

/-- filling the branch with `xs` returns normally (no `LenaStopFill`, no exception) -/
def Active.FillsOk (B : Active σ α) (xs : List α) : Prop :=
  ∃ st', feedList (chainSink B.chain.acc B.chain.pre) B.st xs = .ok st'

theorem Active.advance_nil (B : Active σ α) : B.advance [] = B := rfl

theorem Active.advance_of_ok (B : Active σ α) (xs : List α) (st' : ChainState σ B.chain.pre)
    (h : feedList (chainSink B.chain.acc B.chain.pre) B.st xs = .ok st') :
    B.advance xs = { chain := B.chain, st := st', idx := B.idx } := by
  unfold Active.advance
  split
  · rename_i st'' heq
    rw [h] at heq
    cases heq
    rfl
  · rename_i hne
    exact absurd h (hne st')

theorem Active.fillsOk_append {B : Active σ α} {a b : List α} (h : B.FillsOk (a ++ b)) :
    B.FillsOk a ∧ (B.advance a).FillsOk b ∧ (B.advance a).advance b = B.advance (a ++ b) := by
  obtain ⟨st', h⟩ := h
  have hab := h
  rw [feedList_append] at h
  cases ha : feedList (chainSink B.chain.acc B.chain.pre) B.st a with
  | ok s1 =>
    rw [ha] at h
    simp only at h
    have hadv := Active.advance_of_ok B a s1 ha
    refine ⟨⟨s1, ha⟩, ?_, ?_⟩
    · rw [hadv]
      exact ⟨st', h⟩
    · rw [hadv, Active.advance_of_ok B (a ++ b) st' hab]
      exact Active.advance_of_ok { chain := B.chain, st := s1, idx := B.idx } b st' h
  | stop s1 => rw [ha] at h; cases h
  | err e => rw [ha] at h; cases h

theorem splitFill_ok (x : α) : ∀ (act : List (Active σ α)), (∀ B ∈ act, B.FillsOk [x]) →
    splitFill act x = .ok (act.map (fun B => B.advance [x]))
  | [], _ => rfl
  | B :: rest, h => by
    obtain ⟨st', hB⟩ := h B (List.mem_cons_self ..)
    have hB' : (chainSink B.chain.acc B.chain.pre).fill B.st x = .ok st' := by
      simp only [feedList] at hB
      cases hk : (chainSink B.chain.acc B.chain.pre).fill B.st x with
      | ok s1 => rw [hk] at hB; simp only [FillRes.ok.injEq] at hB; rw [hB]
      | stop s1 => rw [hk] at hB; cases hB
      | err e => rw [hk] at hB; cases hB
    have hadv : B.advance [x] = { B with st := st' } := Active.advance_of_ok B [x] st' hB
    simp only [splitFill, hB', splitFill_ok x rest (fun B' hB' => h B' (List.mem_cons_of_mem _ hB')),
      FillRes.map, List.map_cons, hadv]

theorem feedList_splitSink_ok : ∀ (xs : List α) (act : List (Active σ α)), (∀ B ∈ act, B.FillsOk xs) →
    feedList splitSink act xs = .ok (act.map (fun B => B.advance xs))
  | [], act, _ => by simp [feedList, Active.advance_nil]
  | x :: xs, act, h => by
    have h1 : ∀ B ∈ act, B.FillsOk [x] := fun B hB => (Active.fillsOk_append (a := [x]) (b := xs) (h B hB)).1
    have h2 : ∀ B' ∈ act.map (fun B => B.advance [x]), B'.FillsOk xs := by
      intro B' hB'
      obtain ⟨B, hB, rfl⟩ := List.mem_map.mp hB'
      exact (Active.fillsOk_append (a := [x]) (b := xs) (h B hB)).2.1
    simp only [feedList, splitSink, splitFill_ok x act h1]
    have ih := feedList_splitSink_ok xs _ h2
    simp only [splitSink] at ih
    rw [ih, List.map_map]
    congr 1
    apply List.map_congr_left
    intro B hB
    exact (Active.fillsOk_append (a := [x]) (b := xs) (h B hB)).2.2

theorem processBuf_ok (buf : List α) : ∀ (act : List (Active σ α)), (∀ B ∈ act, B.FillsOk buf) →
    processBuf buf act = (act.map (fun B => B.advance buf), .nil)
  | [], _ => rfl
  | B :: rest, h => by
    obtain ⟨st', hB⟩ := h B (List.mem_cons_self ..)
    have hadv : B.advance buf = { B with st := st' } := Active.advance_of_ok B buf st' hB
    simp only [processBuf, hB, processBuf_ok buf rest (fun B' hB' => h B' (List.mem_cons_of_mem _ hB')),
      List.map_cons, hadv]

theorem splitLoop_ok : ∀ (bufs : List (List α)) (act : List (Active σ α)),
    (∀ B ∈ act, B.FillsOk bufs.flatten) →
    splitLoop bufs act = finalCompute (act.map (fun B => B.advance bufs.flatten))
  | [], act, _ => by simp [splitLoop, Active.advance_nil]
  | buf :: bufs, act, h => by
    simp only [List.flatten_cons] at h
    have h1 : ∀ B ∈ act, B.FillsOk buf := fun B hB => (Active.fillsOk_append (h B hB)).1
    have h2 : ∀ B' ∈ act.map (fun B => B.advance buf), B'.FillsOk bufs.flatten := by
      intro B' hB'
      obtain ⟨B, hB, rfl⟩ := List.mem_map.mp hB'
      exact (Active.fillsOk_append (h B hB)).2.1
    simp only [splitLoop, processBuf_ok buf act h1, Strm.nil_andThen, splitLoop_ok bufs _ h2, List.map_map,
      List.flatten_cons]
    congr 1
    apply List.map_congr_left
    intro B hB
    exact (Active.fillsOk_append (h B hB)).2.2

theorem initActive_fillsOk (xs : List α) : ∀ (cs : List (Chain σ α)) (k : Nat),
    (∀ c ∈ cs, ∃ st, fillAllChain c xs = .ok st) → ∀ B ∈ initActive k cs, B.FillsOk xs
  | [], _, _, B, hB => by simp [initActive] at hB
  | c :: cs, k, h, B, hB => by
    simp only [initActive, List.mem_cons] at hB
    rcases hB with rfl | hB
    · exact h c (List.mem_cons_self ..)
    · exact initActive_fillsOk xs cs (k + 1) (fun c' hc' => h c' (List.mem_cons_of_mem _ hc')) B hB

/-! ## `Split.run` with branches of all four types: a fill_compute branch yields what it yields alone -/

section mixed
variable {σ α : Type}
set_option linter.unusedSimpArgs false

theorem andThen_term_none {β : Type} (a b : Strm β) (h : (a.andThen b).term = none) :
    a.term = none ∧ b.term = none := by
  obtain ⟨av, at_⟩ := a
  cases at_ with
  | some e => simp [Strm.andThen] at h
  | none => exact ⟨rfl, by simpa [Strm.andThen] using h⟩

theorem idx_src (j : Nat) (out : Strm α) : (MActive.src j out : MActive σ α).idx = j := rfl
theorem idx_seq (j : Nat) (run : Stage α) : (MActive.seq j run : MActive σ α).idx = j := rfl
theorem idx_fc (B : Active σ α) : (MActive.fc B).idx = B.idx := rfl
theorem idx_fr (B : Active σ α) : (MActive.fr B).idx = B.idx := rfl

theorem fail_term_ne_none {β : Type} (e : Exc) : (Strm.fail e : Strm β).term ≠ none := by
  simp [Strm.fail]

/-- one buffer: if nothing raises, the branches with index `i` are processed as they are processed alone -/
theorem processBufM_filter (i : Nat) (buf : List α) :
    ∀ (act : List (MActive σ α)), (processBufM buf act).2.term = none →
      (processBufM buf (act.filter (fun B => B.idx == i))).1 = (processBufM buf act).1.filter (fun B => B.idx == i) ∧
      project i (processBufM buf (act.filter (fun B => B.idx == i))).2 = project i (processBufM buf act).2 ∧
      (processBufM buf (act.filter (fun B => B.idx == i))).2.term = none
  | [], _ => by simp [processBufM, Strm.nil]
  | .src j out :: rest, h => by
    simp only [processBufM] at h
    obtain ⟨h1, h2⟩ := andThen_term_none _ _ h
    obtain ⟨ih1, ih2, ih3⟩ := processBufM_filter i buf rest h2
    by_cases hp : (j == i) = true
    · simp only [List.filter_cons, idx_src, idx_seq, idx_fc, idx_fr, hp, if_true, processBufM]
      refine ⟨ih1, ?_, ?_⟩
      · rw [project_andThen _ _ _ h1, project_andThen _ _ _ h1, ih2]
      · rw [andThen_term _ _ h1]; exact ih3
    · have hp' : (j == i) = false := by simpa using hp
      simp only [List.filter_cons, idx_src, idx_seq, idx_fc, idx_fr, hp', Bool.false_eq_true, if_false, processBufM]
      refine ⟨ih1, ?_, ih3⟩
      rw [project_andThen _ _ _ h1, project_tag_ne i j hp', List.nil_append]
      exact ih2
  | .seq j run :: rest, h => by
    simp only [processBufM] at h
    obtain ⟨h1, h2⟩ := andThen_term_none _ _ h
    obtain ⟨ih1, ih2, ih3⟩ := processBufM_filter i buf rest h2
    by_cases hp : (j == i) = true
    · simp only [List.filter_cons, idx_src, idx_seq, idx_fc, idx_fr, hp, if_true, processBufM]
      refine ⟨by rw [ih1], ?_, ?_⟩
      · rw [project_andThen _ _ _ h1, project_andThen _ _ _ h1, ih2]
      · rw [andThen_term _ _ h1]; exact ih3
    · have hp' : (j == i) = false := by simpa using hp
      simp only [List.filter_cons, idx_src, idx_seq, idx_fc, idx_fr, hp', Bool.false_eq_true, if_false, processBufM]
      refine ⟨ih1, ?_, ih3⟩
      rw [project_andThen _ _ _ h1, project_tag_ne i j hp', List.nil_append]
      exact ih2
  | .fc B :: rest, h => by
    simp only [processBufM] at h
    cases hf : feedList (chainSink B.chain.acc B.chain.pre) B.st buf with
    | err e =>
      rw [hf] at h
      exact absurd h (fail_term_ne_none e)
    | ok st' =>
      rw [hf] at h
      simp only at h
      obtain ⟨ih1, ih2, ih3⟩ := processBufM_filter i buf rest h
      by_cases hp : (B.idx == i) = true
      · simp only [List.filter_cons, idx_src, idx_seq, idx_fc, idx_fr, hp, if_true, processBufM, hf]
        exact ⟨by rw [ih1], ih2, ih3⟩
      · have hp' : (B.idx == i) = false := by simpa using hp
        simp only [List.filter_cons, idx_src, idx_seq, idx_fc, idx_fr, hp', Bool.false_eq_true, if_false, processBufM, hf]
        exact ⟨ih1, ih2, ih3⟩
    | stop st' =>
      rw [hf] at h
      simp only at h
      obtain ⟨h1, h2⟩ := andThen_term_none _ _ h
      obtain ⟨ih1, ih2, ih3⟩ := processBufM_filter i buf rest h2
      by_cases hp : (B.idx == i) = true
      · simp only [List.filter_cons, idx_src, idx_seq, idx_fc, idx_fr, hp, if_true, processBufM, hf]
        refine ⟨ih1, ?_, ?_⟩
        · rw [project_andThen _ _ _ h1, project_andThen _ _ _ h1, ih2]
        · rw [andThen_term _ _ h1]; exact ih3
      · have hp' : (B.idx == i) = false := by simpa using hp
        simp only [List.filter_cons, idx_src, idx_seq, idx_fc, idx_fr, hp', Bool.false_eq_true, if_false, processBufM, hf]
        refine ⟨ih1, ?_, ih3⟩
        rw [project_andThen _ _ _ h1, project_tag_ne i B.idx hp', List.nil_append]
        exact ih2
  | .fr B :: rest, h => by
    simp only [processBufM] at h
    cases hf : feedList (chainSink B.chain.acc B.chain.pre) B.st buf with
    | err e =>
      rw [hf] at h
      exact absurd h (fail_term_ne_none e)
    | ok st' =>
      rw [hf] at h
      simp only at h
      obtain ⟨h1, h2⟩ := andThen_term_none _ _ h
      obtain ⟨ih1, ih2, ih3⟩ := processBufM_filter i buf rest h2
      by_cases hp : (B.idx == i) = true
      · simp only [List.filter_cons, idx_src, idx_seq, idx_fc, idx_fr, hp, if_true, processBufM, hf]
        refine ⟨by rw [ih1], ?_, ?_⟩
        · rw [project_andThen _ _ _ h1, project_andThen _ _ _ h1, ih2]
        · rw [andThen_term _ _ h1]; exact ih3
      · have hp' : (B.idx == i) = false := by simpa using hp
        simp only [List.filter_cons, idx_src, idx_seq, idx_fc, idx_fr, hp', Bool.false_eq_true, if_false, processBufM, hf]
        refine ⟨ih1, ?_, ih3⟩
        rw [project_andThen _ _ _ h1, project_tag_ne i B.idx hp', List.nil_append]
        exact ih2
    | stop st' =>
      rw [hf] at h
      simp only at h
      obtain ⟨h1, h2⟩ := andThen_term_none _ _ h
      obtain ⟨ih1, ih2, ih3⟩ := processBufM_filter i buf rest h2
      by_cases hp : (B.idx == i) = true
      · simp only [List.filter_cons, idx_src, idx_seq, idx_fc, idx_fr, hp, if_true, processBufM, hf]
        refine ⟨ih1, ?_, ?_⟩
        · rw [project_andThen _ _ _ h1, project_andThen _ _ _ h1, ih2]
        · rw [andThen_term _ _ h1]; exact ih3
      · have hp' : (B.idx == i) = false := by simpa using hp
        simp only [List.filter_cons, idx_src, idx_seq, idx_fc, idx_fr, hp', Bool.false_eq_true, if_false, processBufM, hf]
        refine ⟨ih1, ?_, ih3⟩
        rw [project_andThen _ _ _ h1, project_tag_ne i B.idx hp', List.nil_append]
        exact ih2

theorem finalM_filter (i : Nat) (e : Bool) :
    ∀ (act : List (MActive σ α)), (finalM e act).term = none →
      project i (finalM e (act.filter (fun B => B.idx == i))) = project i (finalM e act) ∧
      (finalM e (act.filter (fun B => B.idx == i))).term = none
  | [], _ => by simp [finalM, Strm.nil]
  | .src j out :: rest, h => by
    simp only [finalM] at h
    obtain ⟨h1, h2⟩ := andThen_term_none _ _ h
    obtain ⟨ih1, ih2⟩ := finalM_filter i e rest h2
    by_cases hp : (j == i) = true
    · simp only [List.filter_cons, idx_src, idx_seq, idx_fc, idx_fr, hp, if_true, finalM]
      exact ⟨by rw [project_andThen _ _ _ h1, project_andThen _ _ _ h1, ih1], by rw [andThen_term _ _ h1]; exact ih2⟩
    · have hp' : (j == i) = false := by simpa using hp
      simp only [List.filter_cons, idx_src, idx_seq, idx_fc, idx_fr, hp', Bool.false_eq_true, if_false, finalM]
      exact ⟨by rw [project_andThen _ _ _ h1, project_tag_ne i j hp', List.nil_append]; exact ih1, ih2⟩
  | .fc B :: rest, h => by
    simp only [finalM] at h
    obtain ⟨h1, h2⟩ := andThen_term_none _ _ h
    obtain ⟨ih1, ih2⟩ := finalM_filter i e rest h2
    by_cases hp : (B.idx == i) = true
    · simp only [List.filter_cons, idx_src, idx_seq, idx_fc, idx_fr, hp, if_true, finalM]
      exact ⟨by rw [project_andThen _ _ _ h1, project_andThen _ _ _ h1, ih1], by rw [andThen_term _ _ h1]; exact ih2⟩
    · have hp' : (B.idx == i) = false := by simpa using hp
      simp only [List.filter_cons, idx_src, idx_seq, idx_fc, idx_fr, hp', Bool.false_eq_true, if_false, finalM]
      exact ⟨by rw [project_andThen _ _ _ h1, project_tag_ne i B.idx hp', List.nil_append]; exact ih1, ih2⟩
  | .fr B :: rest, h => by
    cases e with
    | false =>
      simp only [finalM, Bool.false_eq_true, if_false] at h
      obtain ⟨ih1, ih2⟩ := finalM_filter i false rest h
      by_cases hp : (B.idx == i) = true
      · simp only [List.filter_cons, idx_src, idx_seq, idx_fc, idx_fr, hp, if_true, finalM, Bool.false_eq_true, if_false]
        exact ⟨ih1, ih2⟩
      · have hp' : (B.idx == i) = false := by simpa using hp
        simp only [List.filter_cons, idx_src, idx_seq, idx_fc, idx_fr, hp', Bool.false_eq_true, if_false, finalM]
        exact ⟨ih1, ih2⟩
    | true =>
      simp only [finalM, if_true] at h
      obtain ⟨h1, h2⟩ := andThen_term_none _ _ h
      obtain ⟨ih1, ih2⟩ := finalM_filter i true rest h2
      by_cases hp : (B.idx == i) = true
      · simp only [List.filter_cons, idx_src, idx_seq, idx_fc, idx_fr, hp, if_true, finalM]
        exact ⟨by rw [project_andThen _ _ _ h1, project_andThen _ _ _ h1, ih1], by rw [andThen_term _ _ h1]; exact ih2⟩
      · have hp' : (B.idx == i) = false := by simpa using hp
        simp only [List.filter_cons, idx_src, idx_seq, idx_fc, idx_fr, hp', Bool.false_eq_true, if_false, finalM, if_true]
        exact ⟨by rw [project_andThen _ _ _ h1, project_tag_ne i B.idx hp', List.nil_append]; exact ih1, ih2⟩
  | .seq j run :: rest, h => by
    cases e with
    | false =>
      simp only [finalM, Bool.false_eq_true, if_false] at h
      obtain ⟨ih1, ih2⟩ := finalM_filter i false rest h
      by_cases hp : (j == i) = true
      · simp only [List.filter_cons, idx_src, idx_seq, idx_fc, idx_fr, hp, if_true, finalM, Bool.false_eq_true, if_false]
        exact ⟨ih1, ih2⟩
      · have hp' : (j == i) = false := by simpa using hp
        simp only [List.filter_cons, idx_src, idx_seq, idx_fc, idx_fr, hp', Bool.false_eq_true, if_false, finalM]
        exact ⟨ih1, ih2⟩
    | true =>
      simp only [finalM, if_true] at h
      obtain ⟨h1, h2⟩ := andThen_term_none _ _ h
      obtain ⟨ih1, ih2⟩ := finalM_filter i true rest h2
      by_cases hp : (j == i) = true
      · simp only [List.filter_cons, idx_src, idx_seq, idx_fc, idx_fr, hp, if_true, finalM]
        exact ⟨by rw [project_andThen _ _ _ h1, project_andThen _ _ _ h1, ih1], by rw [andThen_term _ _ h1]; exact ih2⟩
      · have hp' : (j == i) = false := by simpa using hp
        simp only [List.filter_cons, idx_src, idx_seq, idx_fc, idx_fr, hp', Bool.false_eq_true, if_false, finalM, if_true]
        exact ⟨by rw [project_andThen _ _ _ h1, project_tag_ne i j hp', List.nil_append]; exact ih1, ih2⟩

/-- the whole loop: if `Split.run` completes, its output restricted to branch `i` is what the loop yields with the
branches of index `i` alone -/
theorem splitLoopM_filter (i : Nat) : ∀ (bufs : List (List α)) (e : Bool) (act : List (MActive σ α)),
    (splitLoopM e bufs act).term = none →
      project i (splitLoopM e bufs (act.filter (fun B => B.idx == i))) = project i (splitLoopM e bufs act)
  | [], e, act, h => by
    simp only [splitLoopM] at h ⊢
    exact (finalM_filter i e act h).1
  | buf :: bufs, e, act, h => by
    simp only [splitLoopM] at h ⊢
    obtain ⟨h1, h2⟩ := andThen_term_none _ _ h
    obtain ⟨g1, g2, g3⟩ := processBufM_filter i buf act h1
    rw [project_andThen _ _ _ h1, project_andThen _ _ _ g3, g1, g2, splitLoopM_filter i bufs false _ h2]

theorem splitLoopM_no_active : ∀ (bufs : List (List α)) (e : Bool),
    splitLoopM e bufs ([] : List (MActive σ α)) = .nil
  | [], e => rfl
  | buf :: bufs, e => by
    simp only [splitLoopM, processBufM, Strm.nil_andThen]
    exact splitLoopM_no_active bufs false

/-- a single fill_compute branch: the loop yields what the `FillComputeSeq` yields alone -/
theorem splitLoopM_single_fc : ∀ (bufs : List (List α)) (e : Bool) (B : Active σ α),
    splitLoopM e bufs [.fc B] = tag B.idx (B.rest bufs)
  | [], e, B => by
    simp only [splitLoopM, finalM, Strm.andThen_nil, Active.rest, List.flatten_nil, feedList, finish]
  | buf :: bufs, e, B => by
    simp only [splitLoopM, processBufM, Active.rest, List.flatten_cons, feedList_append]
    cases hf : feedList (chainSink B.chain.acc B.chain.pre) B.st buf with
    | err e' => simp [finish]
    | ok st' =>
      simp only [Strm.nil_andThen]
      exact splitLoopM_single_fc bufs false { B with st := st' }
    | stop st' =>
      simp only [Strm.andThen_nil, splitLoopM_no_active, finish]

/-- a single source: its flow (with the first buffer, or at the end when the flow was empty) -/
theorem splitLoopM_single_src (j : Nat) (out : Strm α) : ∀ (bufs : List (List α)) (e : Bool),
    splitLoopM e bufs [(.src j out : MActive σ α)] = tag j out
  | [], e => by simp only [splitLoopM, finalM, Strm.andThen_nil]
  | buf :: bufs, e => by
    simp only [splitLoopM, processBufM, Strm.andThen_nil, splitLoopM_no_active]

theorem activate_idx (b : Branch σ α) (i : Nat) : (b.activate i).idx = i := by
  cases b <;> rfl

theorem initActiveM_idx_ge : ∀ (bs : List (Branch σ α)) (k : Nat), ∀ B ∈ initActiveM k bs, k ≤ B.idx
  | [], _, B, h => by simp [initActiveM] at h
  | b :: bs, k, B, h => by
    simp only [initActiveM, List.mem_cons] at h
    rcases h with rfl | h
    · rw [activate_idx]; exact Nat.le_refl _
    · exact Nat.le_of_succ_le (initActiveM_idx_ge bs (k + 1) B h)

theorem initActiveM_filter : ∀ (bs : List (Branch σ α)) (k i : Nat) (hi : i < bs.length),
    (initActiveM k bs).filter (fun B => B.idx == k + i) = [bs[i].activate (k + i)]
  | [], _, _, hi => by simp at hi
  | b :: bs, k, 0, _ => by
    have hnone : (initActiveM (k + 1) bs).filter (fun B => B.idx == k) = [] := by
      apply List.filter_eq_nil_iff.mpr
      intro B hB
      have := initActiveM_idx_ge bs (k + 1) B hB
      simp only [beq_iff_eq]
      omega
    simp only [initActiveM, List.filter_cons, Nat.add_zero, activate_idx, beq_self_eq_true, if_true,
      List.getElem_cons_zero, hnone]
  | b :: bs, k, i + 1, hi => by
    have hi' : i < bs.length := by simpa using hi
    have ih := initActiveM_filter bs (k + 1) i hi'
    have hk : k + 1 + i = k + (i + 1) := by omega
    rw [hk] at ih
    have hne : (k == k + (i + 1)) = false := by simp
    simp only [initActiveM, List.filter_cons, activate_idx, hne, Bool.false_eq_true, if_false,
      List.getElem_cons_succ]
    exact ih

/-! ### the mixed model restricted to fill_compute branches is the model `splitRunTagged` -/

theorem processBufM_fc (buf : List α) : ∀ (act : List (Active σ α)),
    processBufM buf (act.map MActive.fc) = ((processBuf buf act).1.map MActive.fc, (processBuf buf act).2)
  | [] => rfl
  | B :: rest => by
    simp only [List.map_cons, processBufM, processBuf, processBufM_fc buf rest]
    cases feedList (chainSink B.chain.acc B.chain.pre) B.st buf <;> rfl

theorem finalM_fc (e : Bool) : ∀ (act : List (Active σ α)), finalM e (act.map MActive.fc) = finalCompute act
  | [] => rfl
  | B :: rest => by simp only [List.map_cons, finalM, finalCompute, finalM_fc e rest]

theorem splitLoopM_fc : ∀ (bufs : List (List α)) (e : Bool) (act : List (Active σ α)),
    splitLoopM e bufs (act.map MActive.fc) = splitLoop bufs act
  | [], e, act => by simp only [splitLoopM, splitLoop, finalM_fc]
  | buf :: bufs, e, act => by
    simp only [splitLoopM, splitLoop, processBufM_fc, splitLoopM_fc bufs false]

theorem initActiveM_fc : ∀ (cs : List (Chain σ α)) (k : Nat),
    initActiveM k (cs.map Branch.fillCompute) = (initActive k cs).map MActive.fc
  | [], _ => rfl
  | c :: cs, k => by simp only [List.map_cons, initActiveM, initActive, Branch.activate, initActiveM_fc cs (k + 1)]

end mixed

end Lena.C05
