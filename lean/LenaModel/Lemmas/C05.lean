import LenaModel.Model.C05
import LenaModel.Lemmas.C17
/-! # C05 — helper lemmas: streams, sinks, the per-element consistency lemmas, the chain induction -/

namespace Lena.C05
open Lena.Flow

variable {α β κ σ : Type}

/-! ## streams -/

@[simp] theorem Strm.andThen_nil (s : Strm α) : s.andThen .nil = s := by
  obtain ⟨v, t⟩ := s
  cases t <;> simp [Strm.andThen, Strm.nil]

@[simp] theorem Strm.nil_andThen (s : Strm α) : Strm.andThen .nil s = s := by
  obtain ⟨v, t⟩ := s
  simp [Strm.andThen, Strm.nil]

@[simp] theorem Strm.fail_andThen (e : Exc) (s : Strm α) : (Strm.fail e).andThen s = .fail e := by
  simp [Strm.andThen, Strm.fail]

theorem Strm.ofList_eq (s : Strm α) (h : s.term = none) : s = .ofList s.vals := by
  obtain ⟨v, t⟩ := s
  simp only at h
  subst h
  rfl

@[simp] theorem composeS_append (ts us : List (Stage α)) (s : Strm α) :
    composeS (ts ++ us) s = (match composeS ts s with
      | .error e => .error e
      | .ok s' => composeS us s') := by
  induction ts generalizing s with
  | nil => simp [composeS]
  | cons t ts ih =>
    simp only [List.cons_append, composeS]
    cases t s with
    | error e => rfl
    | ok s' => exact ih s'

/-! ## sinks -/

/-- what the drivers use of a fill result: the state reached (filling ended, or was stopped by
`LenaStopFill`), or the exception -/
def FillRes.forget : FillRes κ → Except Exc κ
  | .ok s => .ok s
  | .stop s => .ok s
  | .err e => .error e

@[simp] theorem FillRes.map_map (f : κ → β) (g : β → σ) (r : FillRes κ) :
    (r.map f).map g = r.map (g ∘ f) := by
  cases r <;> rfl

@[simp] theorem FillRes.map_id' (r : FillRes κ) : r.map (fun s => s) = r := by
  cases r <;> rfl

theorem FillRes.raise_map (f : κ → β) (e : Exc) (s : κ) :
    (FillRes.raise e s).map f = FillRes.raise e (f s) := by
  unfold FillRes.raise
  split <;> rfl

theorem feedList_append (K : Sink κ α) (s : κ) (a b : List α) :
    feedList K s (a ++ b) = (match feedList K s a with
      | .ok s' => feedList K s' b
      | .stop s' => .stop s'
      | .err e => .err e) := by
  induction a generalizing s with
  | nil => simp [feedList]
  | cons x a ih =>
    simp only [List.cons_append, feedList]
    cases K.fill s x with
    | ok s' => exact ih s'
    | stop s' => rfl
    | err e => rfl

theorem feedS_ofList (K : Sink κ α) (s : κ) (xs : List α) :
    feedS K s (.ofList xs) = feedList K s xs := by
  simp only [feedS, Strm.ofList]
  cases feedList K s xs <;> rfl

theorem feedS_fail (K : Sink κ α) (s : κ) (e : Exc) : feedS K s (.fail e) = FillRes.raise e s := by
  simp [feedS, Strm.fail, feedList]

theorem feedS_cons (K : Sink κ α) (s : κ) (x : α) (t : Strm α) :
    feedS K s (t.cons x) = (match K.fill s x with
      | .ok s' => feedS K s' t
      | .stop s' => .stop s'
      | .err e => .err e) := by
  simp only [feedS, Strm.cons, feedList]
  cases K.fill s x <;> rfl

theorem feedS_andThen (K : Sink κ α) (s : κ) (a b : Strm α) :
    feedS K s (a.andThen b) = (match feedS K s a with
      | .ok s' => feedS K s' b
      | .stop s' => .stop s'
      | .err e => .err e) := by
  obtain ⟨av, at_⟩ := a
  cases at_ with
  | some e =>
    simp only [Strm.andThen, feedS]
    cases feedList K s av with
    | ok s' =>
      simp only [FillRes.raise]
      split <;> rfl
    | stop s' => rfl
    | err e' => rfl
  | none =>
    simp only [Strm.andThen, feedS, feedList_append]
    cases feedList K s av <;> rfl

/-- feeding a sink through a total state isomorphism-like projection: used to strip stage states -/
theorem feedList_map_state (K : Sink κ α) (K' : Sink β α) (f : κ → β)
    (h : ∀ s x, (K.fill s x).map f = K'.fill (f s) x) (s : κ) (xs : List α) :
    (feedList K s xs).map f = feedList K' (f s) xs := by
  induction xs generalizing s with
  | nil => rfl
  | cons x xs ih =>
    simp only [feedList]
    have hx := h s x
    cases hk : K.fill s x with
    | ok s' =>
      rw [hk] at hx
      simp only [FillRes.map] at hx
      rw [← hx]
      exact ih s'
    | stop s' =>
      rw [hk] at hx
      simp only [FillRes.map] at hx
      rw [← hx]
      rfl
    | err e =>
      rw [hk] at hx
      simp only [FillRes.map] at hx
      rw [← hx]
      rfl

theorem feedS_map_state (K : Sink κ α) (K' : Sink β α) (f : κ → β)
    (h : ∀ s x, (K.fill s x).map f = K'.fill (f s) x) (s : κ) (flow : Strm α) :
    (feedS K s flow).map f = feedS K' (f s) flow := by
  simp only [feedS]
  rw [← feedList_map_state K K' f h s flow.vals]
  cases feedList K s flow.vals with
  | ok s' =>
    simp only [FillRes.map]
    cases flow.term with
    | none => rfl
    | some e => exact FillRes.raise_map f e s'
  | stop s' => rfl
  | err e => rfl

theorem feedS_mk_cons (K : Sink κ α) (s : κ) (x : α) (xs : List α) (t : Option Exc) :
    feedS K s ⟨x :: xs, t⟩ = (match K.fill s x with
      | .ok s' => feedS K s' ⟨xs, t⟩
      | .stop s' => .stop s'
      | .err e => .err e) :=
  feedS_cons K s x ⟨xs, t⟩

theorem feedS_mk_nil (K : Sink κ α) (s : κ) (t : Option Exc) :
    feedS K s ⟨[], t⟩ = (match t with
      | some e => FillRes.raise e s
      | none => .ok s) := by
  simp only [feedS, feedList]
  cases t <;> rfl

/-! ## per-element consistency: `fill_into` value by value against `run` on the whole flow

`K` is an arbitrary element being filled, `fs` the element's own `fill_into` state. -/

/-- a callable: `FillInto.fill_into` value by value = filling `Run._call_run`'s output -/
theorem call_stage (f : α → Except Exc α) (K : Sink κ α) (fs : Lena.C17.FillState) (t : Option Exc) :
    ∀ (xs : List α) (s : κ),
      (feedS (stageSink (.call f) K) (fs, s) ⟨xs, t⟩).map Prod.snd = feedS K s (mapGo f t xs)
  | [], s => by
    simp only [feedS_mk_nil, mapGo]
    cases t with
    | none => rfl
    | some e => exact FillRes.raise_map _ e _
  | x :: xs, s => by
    rw [feedS_mk_cons]
    simp only [stageSink, stageFill, mapGo]
    cases hf : f x with
    | error e =>
      simp only [feedS_fail]
      by_cases he : e = Exc.lenaStopFill <;> simp [FillRes.raise, he, FillRes.map]
    | ok w =>
      simp only [feedS_cons]
      cases hk : K.fill s w with
      | ok s' => exact call_stage f K fs t xs s'
      | stop s' => rfl
      | err e => rfl

/-- `Filter`: `Filter.fill_into` value by value = filling `Filter.run`'s output -/
theorem filter_stage (p : α → Except Exc Bool) (K : Sink κ α) (fs : Lena.C17.FillState) (t : Option Exc) :
    ∀ (xs : List α) (s : κ),
      (feedS (stageSink (.filter p) K) (fs, s) ⟨xs, t⟩).map Prod.snd = feedS K s (filterGo p t xs)
  | [], s => by
    simp only [feedS_mk_nil, filterGo]
    cases t with
    | none => rfl
    | some e => exact FillRes.raise_map _ e _
  | x :: xs, s => by
    rw [feedS_mk_cons]
    simp only [stageSink, stageFill, filterGo]
    cases hp : p x with
    | error e =>
      simp only [feedS_fail]
      by_cases he : e = Exc.lenaStopFill <;> simp [FillRes.raise, he, FillRes.map]
    | ok b =>
      cases b with
      | false => exact filter_stage p K fs t xs s
      | true =>
        simp only [feedS_cons]
        cases hk : K.fill s x with
        | ok s' => exact filter_stage p K fs t xs s'
        | stop s' => rfl
        | err e => rfl

/-- a Run element that can break the flow: `FillInto._run_fill_into` value by value = filling the
concatenation of its runs on the single values -/
theorem runEl_stage (r : Stage α) (K : Sink κ α) (fs : Lena.C17.FillState) (t : Option Exc) :
    ∀ (xs : List α) (s : κ),
      (feedS (stageSink (.runEl r) K) (fs, s) ⟨xs, t⟩).map Prod.snd
        = feedS K s (bindGo (fun v => observe (r (.ofList [v]))) t xs)
  | [], s => by
    simp only [feedS_mk_nil, bindGo]
    cases t with
    | none => rfl
    | some e => exact FillRes.raise_map _ e _
  | x :: xs, s => by
    rw [feedS_mk_cons]
    simp only [stageSink, stageFill, bindGo, feedS_andThen]
    cases hk : feedS K s (observe (r (.ofList [x]))) with
    | ok s' => exact runEl_stage r K fs t xs s'
    | stop s' => rfl
    | err e => rfl

/-- `Slice` (non-negative arguments, `step ≥ 1`): `Slice.fill_into` value by value until it raises
`LenaStopFill` fills exactly what `islice` yields — up to the difference between "stopped" and "ended" -/
theorem slice_stage (a : Nat) (stop : Option Nat) (step : Nat) (hs : 1 ≤ step) (K : Sink κ α) :
    ∀ (xs : List α) (next cnt : Nat) (fs : Lena.C17.FillState) (s : κ),
      Lena.C17.FillGood stop step next cnt fs →
      (feedList (stageSink (.slice a stop step) K) (fs, s) xs).forget.map Prod.snd
        = (feedList K s (Lena.C17.isliceGo stop step next cnt xs)).forget
  | [], _, _, _, _, _ => by simp [feedList, Lena.C17.isliceGo, FillRes.forget, Except.map]
  | x :: rest, next, cnt, fs, s, hg => by
    have hstep := Lena.C17.fillInto_step stop step hs next cnt fs hg
    generalize hfi : Lena.C17.fillInto stop step fs = r at hstep
    obtain ⟨fs', o⟩ := r
    simp only at hstep
    rcases hstep with ⟨⟨st, rfl, hle⟩, _, rfl⟩ | ⟨hlt, ⟨rfl, rfl, hg'⟩ | ⟨hne, rfl, hg'⟩⟩
    · simp only [feedList, stageSink, stageFill, hfi]
      rw [Lena.C17.isliceGo_stop _ _ _ _ hle]
      rfl
    · simp only [feedList, stageSink, stageFill, hfi]
      rw [Lena.C17.isliceGo_emit stop step cnt hlt]
      simp only [feedList]
      cases hk : K.fill s x with
      | ok s' => exact slice_stage a stop step hs K rest _ _ fs' s' hg'
      | stop s' => rfl
      | err e => rfl
    · simp only [feedList, stageSink, stageFill, hfi]
      rw [Lena.C17.isliceGo_skip stop step next cnt hlt hne]
      exact slice_stage a stop step hs K rest _ _ fs' s hg'

/-! ## one stage, uniformly -/

theorem FillRes.forget_map (f : κ → β) (r : FillRes κ) : (r.map f).forget = r.forget.map f := by
  cases r <;> rfl

theorem mapGo_term_none (f : α → Except Exc β) (xs : List α) (h : (mapGo f none xs).term = none) :
    mapGo f none xs = .ofList (mapGo f none xs).vals := Strm.ofList_eq _ h

/-- **one element, two drivers** (safe form): if running the element on the whole flow `xs` raises nothing,
then filling the flow value by value through its `fill_into` into any element `K` leaves `K` in the state
that filling the output of its `run` leaves it in — whether or not a `LenaStopFill` ended the filling -/
theorem stage_consistent (e : Pre α) (hwf : e.WF) (K : Sink κ α) (sK : κ) (xs : List α) (s1 : Strm α)
    (hrun : e.run (.ofList xs) = .ok s1) (hterm : s1.term = none) :
    (feedList (stageSink e K) (e.initState, sK) xs).forget.map Prod.snd = (feedList K sK s1.vals).forget := by
  cases e with
  | call f =>
    simp only [Pre.run, Except.ok.injEq] at hrun
    subst hrun
    have h := call_stage f K (Pre.initState (.call f)) none xs sK
    rw [← FillRes.forget_map]
    have h2 : feedS (stageSink (Pre.call f) K) (Pre.initState (.call f), sK) ⟨xs, none⟩
        = feedList (stageSink (Pre.call f) K) (Pre.initState (.call f), sK) xs := feedS_ofList _ _ _
    rw [h2] at h
    rw [h]
    have h3 : mapGo f none xs = .ofList (mapS f (.ofList xs)).vals := Strm.ofList_eq _ hterm
    rw [h3, feedS_ofList]
  | filter p =>
    simp only [Pre.run, Except.ok.injEq] at hrun
    subst hrun
    have h := filter_stage p K (Pre.initState (.filter p)) none xs sK
    rw [← FillRes.forget_map]
    have h2 : feedS (stageSink (Pre.filter p) K) (Pre.initState (.filter p), sK) ⟨xs, none⟩
        = feedList (stageSink (Pre.filter p) K) (Pre.initState (.filter p), sK) xs := feedS_ofList _ _ _
    rw [h2] at h
    rw [h]
    have h3 : filterGo p none xs = .ofList (filterS p (.ofList xs)).vals := Strm.ofList_eq _ hterm
    rw [h3, feedS_ofList]
  | slice a stop step =>
    simp only [Pre.run, Except.ok.injEq] at hrun
    subst hrun
    exact slice_stage a stop step hwf K xs a 0 _ sK (Lena.C17.fillGood_init stop step a)
  | runEl r =>
    have hb : r (.ofList xs) = .ok (bindS (fun v => observe (r (.ofList [v]))) (.ofList xs)) := hwf _
    simp only [Pre.run] at hrun
    rw [hb] at hrun
    simp only [Except.ok.injEq] at hrun
    subst hrun
    have h := runEl_stage r K (Pre.initState (.runEl r)) none xs sK
    rw [← FillRes.forget_map]
    have h2 : feedS (stageSink (Pre.runEl r) K) (Pre.initState (.runEl r), sK) ⟨xs, none⟩
        = feedList (stageSink (Pre.runEl r) K) (Pre.initState (.runEl r), sK) xs := feedS_ofList _ _ _
    rw [h2] at h
    rw [h]
    have h3 : bindGo (fun v => observe (r (.ofList [v]))) none xs
        = .ofList (bindS (fun v => observe (r (.ofList [v]))) (.ofList xs)).vals := Strm.ofList_eq _ hterm
    rw [h3, feedS_ofList]

/-- **one element, two drivers** (strong form, no `Slice`): for any input flow — also one that ends in an
exception — the two ways of filling `K` give the same result, including which exception is raised and
whether it was a `LenaStopFill` -/
theorem stage_consistent_strong (e : Pre α) (hns : e.isSlice = false) (hwf : e.WF) (K : Sink κ α)
    (fs : Lena.C17.FillState) (sK : κ) (inp : Strm α) (s1 : Strm α) (hrun : e.run inp = .ok s1) :
    (feedS (stageSink e K) (fs, sK) inp).map Prod.snd = feedS K sK s1 := by
  obtain ⟨xs, t⟩ := inp
  cases e with
  | call f =>
    simp only [Pre.run, Except.ok.injEq] at hrun
    subst hrun
    exact call_stage f K fs t xs sK
  | filter p =>
    simp only [Pre.run, Except.ok.injEq] at hrun
    subst hrun
    exact filter_stage p K fs t xs sK
  | slice a stop step => simp [Pre.isSlice] at hns
  | runEl r =>
    have hb : r ⟨xs, t⟩ = .ok (bindS (fun v => observe (r (.ofList [v]))) ⟨xs, t⟩) := hwf _
    simp only [Pre.run] at hrun
    rw [hb] at hrun
    simp only [Except.ok.injEq] at hrun
    subst hrun
    exact runEl_stage r K fs t xs sK

/-! ## the whole pre-processing chain -/

theorem except_map_chainAcc_nil (x : Except Exc σ) :
    Except.map (chainAcc (α := α) (σ := σ) []) x = x := by
  cases x <;> rfl

theorem except_map_chainAcc_cons (e : Pre α) (rest : List (Pre α))
    (x : Except Exc (Lena.C17.FillState × ChainState σ rest)) :
    Except.map (chainAcc (σ := σ) (e :: rest)) x = Except.map (chainAcc rest) (Except.map Prod.snd x) := by
  cases x with
  | error err => rfl
  | ok p => obtain ⟨fs, s⟩ := p; rfl

theorem fillRes_map_chainAcc_nil (x : FillRes σ) :
    FillRes.map (chainAcc (α := α) (σ := σ) []) x = x := by
  cases x <;> rfl

theorem fillRes_map_chainAcc_cons (e : Pre α) (rest : List (Pre α))
    (x : FillRes (Lena.C17.FillState × ChainState σ rest)) :
    FillRes.map (chainAcc (σ := σ) (e :: rest)) x = FillRes.map (chainAcc rest) (FillRes.map Prod.snd x) := by
  cases x with
  | err err => rfl
  | ok p => obtain ⟨fs, s⟩ := p; rfl
  | stop p => obtain ⟨fs, s⟩ := p; rfl

theorem preWF_cons {e : Pre α} {rest : List (Pre α)} (h : PreWF (e :: rest)) : e.WF ∧ PreWF rest :=
  ⟨h e (List.mem_cons_self ..), fun e' he' => h e' (List.mem_cons_of_mem _ he')⟩

theorem noSlice_cons {e : Pre α} {rest : List (Pre α)} (h : NoSlice (e :: rest)) :
    e.isSlice = false ∧ NoSlice rest :=
  ⟨h e (List.mem_cons_self ..), fun e' he' => h e' (List.mem_cons_of_mem _ he')⟩

/-- under `PreSafe`, the `Sequence` stages before the accumulator turn the flow into a list `ys` without
raising, and the `_Fill` chain fed value by value leaves the accumulator as filling `ys` does -/
theorem chain_safe (a : Acc σ α) : ∀ (pre : List (Pre α)) (xs : List α), PreWF pre → PreSafe pre xs →
    ∃ ys, composeS (pre.map Pre.run) (.ofList xs) = .ok (.ofList ys) ∧
      (feedList (chainSink a pre) (chainInit a.init pre) xs).forget.map (chainAcc pre)
        = (feedList (accSink a) a.init ys).forget
  | [], xs, _, _ => by
    exact ⟨xs, rfl, except_map_chainAcc_nil _⟩
  | e :: rest, xs, hwf, hsafe => by
    obtain ⟨hwe, hwr⟩ := preWF_cons hwf
    simp only [PreSafe, preSafeB] at hsafe
    cases hrun : e.run (.ofList xs) with
    | error err => simp [hrun] at hsafe
    | ok s1 =>
      simp only [hrun, Bool.and_eq_true, Option.isNone_iff_eq_none] at hsafe
      obtain ⟨hterm, hrest⟩ := hsafe
      obtain ⟨ys, hys, hfeed⟩ := chain_safe a rest s1.vals hwr hrest
      refine ⟨ys, ?_, ?_⟩
      · simp only [List.map_cons, composeS, hrun]
        rw [Strm.ofList_eq s1 hterm]
        exact hys
      · have hst := stage_consistent e hwe (chainSink a rest) (chainInit a.init rest) xs s1 hrun hterm
        rw [← hfeed, ← hst]
        exact except_map_chainAcc_cons e rest _

/-- without a `Slice`, for any input flow: the `Sequence` stages give a flow `out`, and filling the `_Fill`
chain value by value is exactly filling the accumulator with `out` -/
theorem chain_noslice (a : Acc σ α) : ∀ (pre : List (Pre α)) (inp : Strm α), PreWF pre → NoSlice pre →
    ∃ out, composeS (pre.map Pre.run) inp = .ok out ∧
      (feedS (chainSink a pre) (chainInit a.init pre) inp).map (chainAcc pre) = feedS (accSink a) a.init out
  | [], inp, _, _ => by
    exact ⟨inp, rfl, fillRes_map_chainAcc_nil _⟩
  | e :: rest, inp, hwf, hns => by
    obtain ⟨hwe, hwr⟩ := preWF_cons hwf
    obtain ⟨hne, hnr⟩ := noSlice_cons hns
    have hrun : ∃ s1, e.run inp = .ok s1 := by
      cases e with
      | call f => exact ⟨_, rfl⟩
      | filter p => exact ⟨_, rfl⟩
      | slice a stop step => exact ⟨_, rfl⟩
      | runEl r => exact ⟨_, hwe inp⟩
    obtain ⟨s1, hrun⟩ := hrun
    obtain ⟨out, hout, hfeed⟩ := chain_noslice a rest s1 hwr hnr
    refine ⟨out, ?_, ?_⟩
    · simp only [List.map_cons, composeS, hrun]
      exact hout
    · have hst := stage_consistent_strong e hne hwe (chainSink a rest) e.initState (chainInit a.init rest) inp s1 hrun
      rw [← hfeed, ← hst]
      exact fillRes_map_chainAcc_cons e rest _

/-! ## the accumulator at the end -/

theorem feedList_accSink (a : Acc σ α) (hns : AccNoStop a) : ∀ (xs : List α) (s : σ),
    feedList (accSink a) s xs = (match a.fillAll s xs with
      | .ok s' => .ok s'
      | .error e => .err e)
  | [], s => rfl
  | x :: xs, s => by
    simp only [feedList, accSink, Acc.fillAll]
    cases hf : a.fill s x with
    | error e =>
      have : e ≠ Exc.lenaStopFill := fun h => hns s x (h ▸ hf)
      simp [FillRes.raise, this]
    | ok s' => exact feedList_accSink a hns xs s'

/-! ## `Split.run` with one branch -/

/-- what a driver makes of the result of the filling: the exception, or `compute` -/
def finish (c : Chain σ α) : FillRes (ChainState σ c.pre) → Strm α
  | .err e => .fail e
  | .ok st => computeAfter c (chainAcc c.pre st)
  | .stop st => computeAfter c (chainAcc c.pre st)

theorem fillRun_eq_finish (c : Chain σ α) (xs : List α) : fillRun c xs = finish c (fillAllChain c xs) := by
  unfold fillRun finish
  cases fillAllChain c xs <;> rfl

/-- what is still to come from an active branch when the buffers `bufs` are still to be read -/
def Active.rest (B : Active σ α) (bufs : List (List α)) : Strm α :=
  finish B.chain (feedList (chainSink B.chain.acc B.chain.pre) B.st bufs.flatten)

theorem splitLoop_no_active : ∀ (bufs : List (List α)), splitLoop bufs ([] : List (Active σ α)) = .nil
  | [] => rfl
  | buf :: bufs => by
    simp only [splitLoop, processBuf, Strm.nil_andThen]
    exact splitLoop_no_active bufs

@[simp] theorem tag_fail (i : Nat) (e : Exc) : tag i (Strm.fail e : Strm α) = .fail e := rfl

theorem splitLoop_single : ∀ (bufs : List (List α)) (B : Active σ α),
    splitLoop bufs [B] = tag B.idx (B.rest bufs)
  | [], B => by
    simp only [splitLoop, finalCompute, Strm.andThen_nil, Active.rest, List.flatten_nil, feedList, finish]
  | buf :: bufs, B => by
    simp only [splitLoop, processBuf, Active.rest, List.flatten_cons, feedList_append]
    cases hf : feedList (chainSink B.chain.acc B.chain.pre) B.st buf with
    | err e => simp [finish]
    | ok st' =>
      simp only [Strm.nil_andThen]
      exact splitLoop_single bufs { B with st := st' }
    | stop st' =>
      simp only [Strm.andThen_nil, splitLoop_no_active, finish]

theorem chunksFuel_flatten (b : Nat) (hb : 1 ≤ b) : ∀ (n : Nat) (xs : List α), xs.length ≤ n →
    (chunksFuel b n xs).flatten = xs
  | 0, xs, h => by
    have : xs = [] := List.eq_nil_of_length_eq_zero (by omega)
    subst this
    rfl
  | n + 1, [], _ => rfl
  | n + 1, x :: xs, h => by
    simp only [chunksFuel, List.flatten_cons]
    rw [chunksFuel_flatten b hb n ((x :: xs).drop b)]
    · exact List.take_append_drop b (x :: xs)
    · simp only [List.length_drop, List.length_cons] at h ⊢
      omega

theorem chunks_flatten (b : Option Nat) (hb : b ≠ some 0) (xs : List α) : (chunks b xs).flatten = xs := by
  cases b with
  | none =>
    simp only [chunks]
    cases xs <;> simp
  | some n =>
    simp only [chunks]
    exact chunksFuel_flatten n (by cases n with | zero => exact absurd rfl hb | succ k => omega) _ _ (Nat.le_refl _)

end Lena.C05
