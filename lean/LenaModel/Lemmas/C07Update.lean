import LenaModel.Model.C07
import LenaModel.Lemmas.C07
/-! # C07 — helper lemmas: reconstruction, update_recursively, key-wise reading of the slot functions -/
namespace Lena.C07
open Lena Lena.Val
variable {α : Type} [DecidableEq α]

/-! ### updating with / into an empty dictionary -/

omit [DecidableEq α] in
theorem updL_of_empty_right : ∀ (i d : Slots α), i.length = d.length → nonEmpty d = false → updL i d = i
  | [], [], _, _ => by simp [updL]
  | [], _ :: _, h, _ => by simp at h
  | _ :: _, [], h, _ => by simp at h
  | x :: r, none :: r', h, hn => by
      rw [nonEmpty_cons] at hn
      have : updL r r' = r := updL_of_empty_right r r' (by simpa using h) (by simpa using hn)
      simp [updL, updO, this]
  | x :: r, some _ :: r', h, hn => by simp [nonEmpty_cons] at hn

omit [DecidableEq α] in
theorem updL_nil_left : ∀ (y : Slots α), updL [] y = y
  | [] => by simp [updL]
  | none :: r => by simp [updL, updO, updL_nil_left r]
  | some (.leaf a) :: r => by simp [updL, updO, updL_nil_left r]
  | some (.dict z) :: r => by simp [updL, updO, updL_nil_left r]

omit [DecidableEq α] in
/-- `{}` updated with `y` is `y` -/
theorem updL_emptyLike_left : ∀ (y : Slots α), updL (emptyLike y) y = y
  | [] => by simp [updL, emptyLike]
  | none :: r => by rw [emptyLike_cons]; simp [updL, updO, updL_emptyLike_left r]
  | some (.leaf a) :: r => by rw [emptyLike_cons]; simp [updL, updO, updL_emptyLike_left r]
  | some (.dict z) :: r => by rw [emptyLike_cons]; simp [updL, updO, updL_emptyLike_left r]

omit [DecidableEq α] in
theorem updL_empty_left (e y : Slots α) (hl : e.length = y.length) (he : nonEmpty e = false) :
    updL e y = y := by
  rw [eq_emptyLike_of_empty e he]
  have : emptyLike e = emptyLike y := by simp [emptyLike, hl]
  rw [this, updL_emptyLike_left]

/-! ### reconstruction: `update_recursively(intersection(a, b), difference(a, b))` is `a` -/
section rec
variable (truthy : α → Bool)

mutual
theorem recO (lv : Int) : ∀ (x y : Option (Val α)),
    updO (interO lv x y) (diffO truthy lv x y) = x
  | none, y => by cases y <;> simp [interO, diffO, updO]
  | some v, none => by cases v <;> simp [interO, diffO, updO]
  | some (.leaf a), some (.leaf b) => by
      by_cases e : a = b
      · subst e; simp [interO, diffO, updO]
      · have e' : ¬ b = a := fun h => e h.symm
        simp [interO, diffO, updO, e, e', isDict]
  | some (.leaf a), some (.dict y) => by simp [interO, diffO, updO, isDict]
  | some (.dict x), some (.leaf b) => by simp [interO, diffO, updO, isDict]
  | some (.dict x), some (.dict y) => by
      by_cases e : x = y
      · subst e; simp [interO, diffO, updO]
      · have e' : ¬ y = x := fun h => e h.symm
        by_cases h1 : lv = 1
        · simp [interO, diffO, updO, e, e', h1]
        · have h0 : ¬ (lv - 1 = 0) := by omega
          have ih := recL (lv - 1) x y
          simp only [interO, diffO, Val.dict.injEq, e, e', if_false, h1, h0, isDict, diffV, truthyV,
            ne_eq, not_false_eq_true, and_self, if_true]
          by_cases hne : nonEmpty (diffL truthy (lv - 1) x y) = true
          · simp [hne, updO, ih]
          · have hne' : nonEmpty (diffL truthy (lv - 1) x y) = false := by simpa using hne
            have h2 := updL_of_empty_right (interL (lv - 1) x y) (diffL truthy (lv - 1) x y)
              (by rw [interL_length, diffL_length]) hne'
            rw [h2] at ih
            simp [hne', updO, ih]
theorem recL (lv : Int) : ∀ (a b : Slots α),
    updL (interL lv a b) (diffL truthy lv a b) = a
  | [], _ => by simp [interL, diffL, updL]
  | x :: r, [] => by
      simp [interL, diffL, updL, recO lv x none, recL lv r []]
  | x :: r, y :: r' => by
      simp [interL, diffL, updL, recO lv x y, recL lv r r']
end

end rec

theorem interL_self (lv : Int) : ∀ a : Slots α, interL lv a a = a
  | [] => by simp [interL]
  | none :: r => by simp [interL, interO, interL_self lv r]
  | some v :: r => by cases v <;> simp [interL, interO, interL_self lv r]


/-! ### key-wise reading: slot `k` of a result is the per-key body applied to the slots `k` -/

omit [DecidableEq α] in
@[simp] theorem getSlot_nil (k : Nat) : getSlot ([] : Slots α) k = none := by simp [getSlot]

omit [DecidableEq α] in
@[simp] theorem getSlot_cons_zero (x : Option (Val α)) (r : Slots α) : getSlot (x :: r) 0 = x := by
  cases x <;> simp [getSlot]

omit [DecidableEq α] in
@[simp] theorem getSlot_cons_succ (x : Option (Val α)) (r : Slots α) (k : Nat) :
    getSlot (x :: r) (k + 1) = getSlot r k := by
  simp [getSlot]

theorem getSlot_interL (lv : Int) : ∀ (a b : Slots α) (k : Nat),
    getSlot (interL lv a b) k = interO lv (getSlot a k) (getSlot b k)
  | [], _, _ => by simp [interL, interO]
  | x :: r, [], 0 => by simp [interL]
  | x :: r, [], k + 1 => by simpa [interL] using getSlot_interL lv r [] k
  | x :: r, y :: r', 0 => by simp [interL]
  | x :: r, y :: r', k + 1 => by simpa [interL] using getSlot_interL lv r r' k

theorem getSlot_diffL (truthy : α → Bool) (lv : Int) : ∀ (a b : Slots α) (k : Nat),
    getSlot (diffL truthy lv a b) k = diffO truthy lv (getSlot a k) (getSlot b k)
  | [], _, _ => by simp [diffL, diffO]
  | x :: r, [], 0 => by simp [diffL]
  | x :: r, [], k + 1 => by simpa [diffL] using getSlot_diffL truthy lv r [] k
  | x :: r, y :: r', 0 => by simp [diffL]
  | x :: r, y :: r', k + 1 => by simpa [diffL] using getSlot_diffL truthy lv r r' k

omit [DecidableEq α] in
theorem updO_none_right (x : Option (Val α)) : updO x none = x := by
  cases x <;> simp [updO]

omit [DecidableEq α] in
theorem getSlot_updL : ∀ (d o : Slots α) (k : Nat),
    getSlot (updL d o) k = updO (getSlot d k) (getSlot o k)
  | d, [], k => by simp [updL, updO_none_right]
  | [], y :: r', 0 => by simp [updL]
  | [], y :: r', k + 1 => by simpa [updL] using getSlot_updL [] r' k
  | x :: r, y :: r', 0 => by simp [updL]
  | x :: r, y :: r', k + 1 => by simpa [updL] using getSlot_updL r r' k

theorem contL_iff_getSlot (lv : Int) : ∀ (a b : Slots α),
    contL lv a b = true ↔ ∀ k, contO lv (getSlot a k) (getSlot b k) = true
  | [], _ => by simp [contL, contO]
  | x :: r, [] => by
      rw [contL, Bool.and_eq_true, contL_iff_getSlot lv r []]
      constructor
      · rintro ⟨h1, h2⟩ k
        cases k with
        | zero => simpa using h1
        | succ k => simpa using h2 k
      · intro h
        exact ⟨by simpa using h 0, fun k => by simpa using h (k + 1)⟩
  | x :: r, y :: r' => by
      rw [contL, Bool.and_eq_true, contL_iff_getSlot lv r r']
      constructor
      · rintro ⟨h1, h2⟩ k
        cases k with
        | zero => simpa using h1
        | succ k => simpa using h2 k
      · intro h
        exact ⟨by simpa using h 0, fun k => by simpa using h (k + 1)⟩

/-! ### update_recursively -/

mutual
theorem updO_contains (lv : Int) (hl : lv < 0) : ∀ (x y : Option (Val α)), contO lv y (updO x y) = true
  | _, none => by rw [contO]
  | x, some (.leaf a) => by cases x <;> simp [updO, contO]
  | none, some (.dict y) => by simp [updO, contO]
  | some (.leaf _), some (.dict y) => by
      have h1 : lv ≠ 1 := by omega
      simp [updO, contO, h1, updL_emptyLike_left, contL_refl]
  | some (.dict x), some (.dict y) => by
      have h1 : lv ≠ 1 := by omega
      simp [updO, contO, h1, updL_contains (lv - 1) (by omega) x y]
theorem updL_contains (lv : Int) (hl : lv < 0) : ∀ (d o : Slots α), contL lv o (updL d o) = true
  | _, [] => by simp [contL]
  | [], y :: r' => by simp [updL, contL, updO_contains lv hl none y, updL_contains lv hl [] r']
  | x :: r, y :: r' => by simp [updL, contL, updO_contains lv hl x y, updL_contains lv hl r r']
end

omit [DecidableEq α] in
/-- a path that `o` leaves alone does not exist in `o` -/
theorem getPath_of_untouched : ∀ (p : List Nat) (o : Slots α), untouchedL o p = true →
    getPath (.dict o) p = none
  | [], _, h => by simp [untouchedL] at h
  | k :: q, o, h => by
      rw [untouchedL] at h
      rw [getPath]
      cases hk : getSlot o k with
      | none => rfl
      | some w =>
        rw [hk] at h
        cases w with
        | leaf a => simp at h
        | dict y => exact getPath_of_untouched q y h

omit [DecidableEq α] in
theorem getPath_emptyLike (y : Slots α) (k : Nat) (q : List Nat) :
    getPath (.dict (emptyLike y)) (k :: q) = none := by
  have : getSlot (emptyLike y) k = none := by
    unfold getSlot emptyLike
    cases h : (List.replicate y.length (none : Option (Val α)))[k]? with
    | none => rfl
    | some x =>
      have := List.getElem?_replicate (a := (none : Option (Val α))) (n := y.length) (i := k)
      rw [this] at h
      split at h <;> simp_all
  rw [getPath, this]

omit [DecidableEq α] in
/-- every item of `d` that `o` does not overwrite keeps its value -/
theorem updL_keeps : ∀ (p : List Nat) (d o : Slots α), untouchedL o p = true →
    getPath (.dict (updL d o)) p = getPath (.dict d) p
  | [], _, _, h => by simp [untouchedL] at h
  | k :: q, d, o, h => by
      rw [untouchedL] at h
      rw [getPath, getPath, getSlot_updL]
      cases hk : getSlot o k with
      | none => rw [updO_none_right]
      | some w =>
        rw [hk] at h
        cases w with
        | leaf a => simp at h
        | dict y =>
          cases hd : getSlot d k with
          | none => simp [updO, getPath_of_untouched q y h]
          | some v =>
            cases v with
            | dict x => simp only [updO]; exact updL_keeps q x y h
            | leaf a =>
              simp only [updO]
              rw [updL_keeps q (emptyLike y) y h]
              cases q with
              | nil => simp [untouchedL] at h
              | cons j q' => rw [getPath_emptyLike]; simp [getPath]

end Lena.C07
