import LenaModel.Model.C20
/-! # C20 — lemmas about the state encoding and about what the interpreter preserves

1. The two numbers of `State` really are an array of namespaces and `sys.modules`
   (`get_set_same`, `get_set_other`, `statusOf_setStatus_same`, …): bit-level facts, proved once.
2. `sys.modules` only grows (`importMod_stable`, `importMod_loaded`): every property of states that
   survives a binding and the promotion of a module status survives any import and any call.
3. Names bound to lena modules are bound to *imported* modules (`AttrInv`), in every state the
   interpreter can reach: this is the rule "`lena.flow` is an attribute of `lena` only after
   `lena.flow` has been imported by someone". -/

namespace Lena.C20

/-! ## 1. slots -/

@[simp] theorem forceNat_eq {α : Sort _} (n : Nat) (k : Nat → α) : forceNat n k = k n := by
  cases n <;> rfl

theorem slot_same (s e a B : Nat) (he : e < 2 ^ B) :
    ((s ^^^ ((((s >>> a) &&& (2 ^ B - 1)) ^^^ e) <<< a)) >>> a) &&& (2 ^ B - 1) = e := by
  apply Nat.eq_of_testBit_eq
  intro k
  simp only [Nat.testBit_and, Nat.testBit_shiftRight, Nat.testBit_xor, Nat.testBit_shiftLeft,
    Nat.testBit_two_pow_sub_one]
  by_cases hk : k < B
  · have h1 : a + k ≥ a := by omega
    have h2 : a + k - a = k := by omega
    simp [hk, h1, h2]
  · have : e.testBit k = false :=
      Nat.testBit_lt_two_pow (Nat.lt_of_lt_of_le he (Nat.pow_le_pow_right (by omega) (by omega)))
    simp [hk, this]

theorem slot_other (s e a b B : Nat) (he : e < 2 ^ B) (hd : a + B ≤ b ∨ b + B ≤ a) :
    ((s ^^^ ((((s >>> a) &&& (2 ^ B - 1)) ^^^ e) <<< a)) >>> b) &&& (2 ^ B - 1)
      = (s >>> b) &&& (2 ^ B - 1) := by
  apply Nat.eq_of_testBit_eq
  intro k
  simp only [Nat.testBit_and, Nat.testBit_shiftRight, Nat.testBit_xor, Nat.testBit_shiftLeft,
    Nat.testBit_two_pow_sub_one]
  by_cases hk : k < B
  · rcases hd with hd | hd
    · have h1 : b + k ≥ a := by omega
      have h3 : ¬ (b + k - a < B) := by omega
      have : e.testBit (b + k - a) = false :=
        Nat.testBit_lt_two_pow (Nat.lt_of_lt_of_le he (Nat.pow_le_pow_right (by omega) (by omega)))
      simp [hk, h1, h3, this]
    · have h1 : ¬ (b + k ≥ a) := by omega
      simp [hk, h1]
  · simp [hk]

/-- clearing the bits `[a, a+L)`: a slot inside the range becomes `0` -/
theorem range_clear_in (s a L b B : Nat) (h : a ≤ b ∧ b + B ≤ a + L) :
    ((s ^^^ (((s >>> a) &&& (2 ^ L - 1)) <<< a)) >>> b) &&& (2 ^ B - 1) = 0 := by
  apply Nat.eq_of_testBit_eq
  intro k
  simp only [Nat.testBit_and, Nat.testBit_shiftRight, Nat.testBit_xor, Nat.testBit_shiftLeft,
    Nat.testBit_two_pow_sub_one, Nat.zero_testBit]
  by_cases hk : k < B
  · have h1 : b + k ≥ a := by omega
    have h2 : b + k - a < L := by omega
    have h3 : a + (b + k - a) = b + k := by omega
    simp [hk, h1, h2, h3]
  · simp [hk]

/-- … and a slot outside the range is left alone -/
theorem range_clear_out (s a L b B : Nat) (h : b + B ≤ a ∨ a + L ≤ b) :
    ((s ^^^ (((s >>> a) &&& (2 ^ L - 1)) <<< a)) >>> b) &&& (2 ^ B - 1) = (s >>> b) &&& (2 ^ B - 1) := by
  apply Nat.eq_of_testBit_eq
  intro k
  simp only [Nat.testBit_and, Nat.testBit_shiftRight, Nat.testBit_xor, Nat.testBit_shiftLeft,
    Nat.testBit_two_pow_sub_one]
  by_cases hk : k < B
  · rcases h with h | h
    · have h1 : ¬ (b + k ≥ a) := by omega
      simp [hk, h1]
    · have h1 : b + k ≥ a := by omega
      have h2 : ¬ (b + k - a < L) := by omega
      simp [hk, h1, h2]
  · simp [hk]

@[simp] theorem decode_encodeVal (v : Option Val) : decodeVal (encodeVal v) = v := by
  cases v with
  | none => rfl
  | some v => cases v <;> rfl

@[simp] theorem decode_encodeStatus (s : Status) : decodeStatus (encodeStatus s) = s := by
  cases s <;> rfl

theorem encodeStatus_lt (s : Status) : encodeStatus s < 2 ^ 2 := by cases s <;> decide

namespace State

theorem slotIx_disjoint (F : Facts) (m n m' n' : Nat) (hn : n < F.nNames) (hn' : n' < F.nNames)
    (hne : ¬ (m = m' ∧ n = n')) :
    slotIx F m n + F.slotBits ≤ slotIx F m' n' ∨ slotIx F m' n' + F.slotBits ≤ slotIx F m n := by
  unfold slotIx
  have key : m * F.nNames + n + 1 ≤ m' * F.nNames + n' ∨ m' * F.nNames + n' + 1 ≤ m * F.nNames + n := by
    rcases Nat.lt_trichotomy m m' with h | h | h
    · left
      have : (m + 1) * F.nNames ≤ m' * F.nNames := Nat.mul_le_mul_right _ h
      rw [Nat.add_mul, Nat.one_mul] at this
      omega
    · subst h
      have : n ≠ n' := fun hh => hne ⟨rfl, hh⟩
      omega
    · right
      have : (m' + 1) * F.nNames ≤ m * F.nNames := Nat.mul_le_mul_right _ h
      rw [Nat.add_mul, Nat.one_mul] at this
      omega
  rcases key with h | h
  · left
    have := Nat.mul_le_mul_left F.slotBits h
    rw [Nat.mul_add, Nat.mul_one] at this
    exact this
  · right
    have := Nat.mul_le_mul_left F.slotBits h
    rw [Nat.mul_add, Nat.mul_one] at this
    exact this

/-- writing one slot leaves every other slot alone -/
theorem get_set_other (F : Facts) (σ : State) (m n : Nat) (v : Option Val) (m' n' : Nat)
    (hne : ¬ (m = m' ∧ n = n')) : (σ.set F m n v).get F m' n' = σ.get F m' n' := by
  unfold set
  split
  · rename_i hg
    simp only [Bool.and_eq_true, Nat.blt_eq] at hg
    unfold get
    by_cases hn' : n' < F.nNames
    · have hb : Nat.blt n' F.nNames = true := by simpa using hn'
      simp only [hb, ite_true]
      congr 1
      unfold rawGet
      exact slot_other _ _ _ _ _ hg.2 (slotIx_disjoint F m n m' n' hg.1 hn' hne)
    · have hb : Nat.blt n' F.nNames = false :=
        Bool.eq_false_iff.2 (fun hb' => hn' (by simpa using hb'))
      simp [hb]
  · rfl

/-- a slot holds what was written to it (when name and value fit the layout) -/
theorem get_set_same (F : Facts) (σ : State) (m n : Nat) (v : Option Val)
    (hn : n < F.nNames) (hv : encodeVal v < 2 ^ F.slotBits) : (σ.set F m n v).get F m n = v := by
  have hb : Nat.blt n F.nNames = true := by simpa using hn
  have hb2 : Nat.blt (encodeVal v) (2 ^ F.slotBits) = true := by simpa using hv
  unfold set get
  simp only [hb, hb2, Bool.and_self, ite_true]
  unfold rawGet
  rw [slot_same _ _ _ _ hv]
  exact decode_encodeVal v

/-- without the side conditions: the slot holds the new value, or nothing was stored -/
theorem get_set_self (F : Facts) (σ : State) (m n : Nat) (v : Option Val) :
    (σ.set F m n v).get F m n = v ∨ σ.set F m n v = σ := by
  by_cases hg : (Nat.blt n F.nNames && Nat.blt (encodeVal v) (2 ^ F.slotBits)) = true
  · left
    simp only [Bool.and_eq_true, Nat.blt_eq] at hg
    exact get_set_same F σ m n v hg.1 hg.2
  · right
    unfold set
    simp [hg]

@[simp] theorem statusOf_set (F : Facts) (σ : State) (m n : Nat) (v : Option Val) (c : Nat) :
    (σ.set F m n v).statusOf c = σ.statusOf c := by
  unfold set
  split <;> rfl

@[simp] theorem get_setStatus (F : Facts) (σ : State) (c : Nat) (s : Status) (m n : Nat) :
    (σ.setStatus c s).get F m n = σ.get F m n := rfl

@[simp] theorem statusOf_setStatus_same (σ : State) (c : Nat) (s : Status) :
    (σ.setStatus c s).statusOf c = s := by
  unfold setStatus statusOf
  show decodeStatus (((σ.status ^^^ ((((σ.status >>> (2 * c)) &&& (2 ^ 2 - 1)) ^^^ encodeStatus s) <<< (2 * c)))
      >>> (2 * c)) &&& (2 ^ 2 - 1)) = s
  rw [slot_same _ _ _ _ (encodeStatus_lt s)]
  exact decode_encodeStatus s

theorem statusOf_setStatus_other (σ : State) (c c' : Nat) (s : Status) (h : c ≠ c') :
    (σ.setStatus c s).statusOf c' = σ.statusOf c' := by
  unfold setStatus statusOf
  show decodeStatus (((σ.status ^^^ ((((σ.status >>> (2 * c)) &&& (2 ^ 2 - 1)) ^^^ encodeStatus s) <<< (2 * c)))
      >>> (2 * c')) &&& (2 ^ 2 - 1)) = decodeStatus ((σ.status >>> (2 * c')) &&& (2 ^ 2 - 1))
  rw [slot_other _ _ _ _ _ (encodeStatus_lt s) (by omega)]

@[simp] theorem get_init (F : Facts) (m n : Nat) : State.init.get F m n = none := by
  unfold get rawGet init
  split <;> simp [decodeVal]

@[simp] theorem statusOf_init (c : Nat) : State.init.statusOf c = .absent := by
  unfold statusOf init
  simp [decodeStatus]

@[simp] theorem statusOf_clearRow (F : Facts) (σ : State) (m c : Nat) :
    (σ.clearRow F m).statusOf c = σ.statusOf c := rfl

/-- clearing the row of `m`: a slot is emptied or left alone -/
theorem get_clearRow (F : Facts) (σ : State) (m p n : Nat) :
    (σ.clearRow F m).get F p n = σ.get F p n ∨ (σ.clearRow F m).get F p n = none := by
  unfold get
  by_cases hn : n < F.nNames
  · have hb : Nat.blt n F.nNames = true := by simpa using hn
    simp only [hb, ite_true]
    unfold rawGet clearRow slotIx
    by_cases hpm : p = m
    · right
      subst hpm
      have h1 : F.slotBits * (p * F.nNames + 0) ≤ F.slotBits * (p * F.nNames + n) :=
        Nat.mul_le_mul_left _ (by omega)
      have h2 : F.slotBits * (p * F.nNames + n) + F.slotBits
          ≤ F.slotBits * (p * F.nNames + 0) + F.slotBits * F.nNames := by
        have := Nat.mul_le_mul_left F.slotBits (show p * F.nNames + n + 1 ≤ p * F.nNames + 0 + F.nNames by omega)
        rw [Nat.mul_add, Nat.mul_add _ _ F.nNames] at this
        simpa [Nat.mul_one] using this
      rw [range_clear_in _ _ _ _ _ ⟨h1, h2⟩]
      rfl
    · left
      congr 1
      apply range_clear_out
      rcases Nat.lt_or_gt_of_ne hpm with h | h
      · left
        have h3 : (p + 1) * F.nNames ≤ m * F.nNames := Nat.mul_le_mul_right _ h
        rw [Nat.add_mul, Nat.one_mul] at h3
        have := Nat.mul_le_mul_left F.slotBits (show p * F.nNames + n + 1 ≤ m * F.nNames + 0 by omega)
        rw [Nat.mul_add, Nat.mul_one] at this
        exact this
      · right
        have h3 : (m + 1) * F.nNames ≤ p * F.nNames := Nat.mul_le_mul_right _ h
        rw [Nat.add_mul, Nat.one_mul] at h3
        have := Nat.mul_le_mul_left F.slotBits (show m * F.nNames + 0 + F.nNames ≤ p * F.nNames + n by omega)
        rw [Nat.mul_add] at this
        exact this
  · have hb : Nat.blt n F.nNames = false :=
      Bool.eq_false_iff.2 (fun hb' => hn (by simpa using hb'))
    simp [hb]

@[simp] theorem force_eq {α : Sort _} (σ : State) (k : State → α) : σ.force k = k σ := by
  cases σ
  simp only [force, forceNat]
  split <;> split <;> rfl

end State

/-! ## 2. what every step preserves: one induction over the interpreter, used four times -/

theorem mem_zipIdx {α} (l : List α) (k i : Nat) (a : α) :
    (i, a) ∈ zipIdx l k ↔ ∃ j, i = k + j ∧ l[j]? = some a := by
  induction l generalizing k with
  | nil => simp [zipIdx]
  | cons b r ih =>
    simp only [zipIdx, List.mem_cons, Prod.mk.injEq, ih]
    constructor
    · rintro (⟨rfl, rfl⟩ | ⟨j, rfl, hj⟩)
      · exact ⟨0, rfl, rfl⟩
      · exact ⟨j + 1, by omega, by simpa using hj⟩
    · rintro ⟨j, rfl, hj⟩
      cases j with
      | zero => left; simp at hj; exact ⟨rfl, hj.symm⟩
      | succ j => right; exact ⟨j, by omega, by simpa using hj⟩


theorem findChild_mem (p n : Nat) : ∀ (l : List Module) (i c : Nat),
    Facts.findChild p n l i = some c → c ∈ childrenFrom p l i := by
  intro l
  induction l with
  | nil => intro i c h; simp [Facts.findChild] at h
  | cons M r ih =>
    intro i c h
    simp only [Facts.findChild] at h
    simp only [childrenFrom]
    split at h
    · rename_i q hq
      split at h
      · rename_i hb
        simp only [Bool.and_eq_true] at hb
        cases h
        simp [hb.1]
      · split
        · exact List.mem_cons_of_mem _ (ih _ _ h)
        · exact ih _ _ h
    · exact ih _ _ h

theorem childOf_mem_childrenOf (F : Facts) (p n c : Nat) (h : F.childOf p n = some c) :
    c ∈ F.childrenOf p :=
  findChild_mem p n F.mods 0 c h

theorem mem_of_lookup {n : Name} {v : Val} : ∀ {loc : Ns}, lookup n loc = some v → ∃ k, (k, v) ∈ loc
  | [], h => by simp [lookup] at h
  | (k, w) :: r, h => by
    simp only [lookup] at h
    split at h
    · cases h; exact ⟨k, List.mem_cons_self ..⟩
    · obtain ⟨k', hk'⟩ := mem_of_lookup h
      exact ⟨k', List.mem_cons_of_mem _ hk'⟩

theorem mem_erase {n : Name} {x : Name × Val} : ∀ {loc : Ns}, x ∈ erase n loc → x ∈ loc
  | [], h => by simp [erase] at h
  | (k, w) :: r, h => by
    simp only [erase] at h
    split at h
    · exact List.mem_cons_of_mem _ h
    · rcases List.mem_cons.1 h with rfl | h
      · exact List.mem_cons_self ..
      · exact List.mem_cons_of_mem _ (mem_erase h)


/-- a value that code may bind: an opaque object, a module that is (or was) in `sys.modules`,
or a value found in some namespace -/
def Bindable (F : Facts) (σ : State) (loc : Ns) (v : Val) : Prop :=
  v = .obj ∨ (∃ c, v = .mod c ∧ σ.statusOf c ≠ .absent) ∨ (∃ m n, σ.get F m n = some v) ∨
    ∃ k, lookup k loc = some v

/-- an invariant `J` of (global state, import-bound locals) that every step of code in scope
`sc` preserves, as long as the import machinery is only asked for modules that `allow` -/
structure StepInv (F : Facts) (sc : Scope) (imp : Imp) (allow : ModId → Prop) (allowG : Prop)
    (J : State → Ns → Prop) : Prop where
  bind : ∀ σ loc n v, J σ loc → Bindable F σ loc v →
    J (bindIn F sc loc σ n v).1 (bindIn F sc loc σ n v).2
  unbindL : ∀ σ loc n, J σ loc → J σ (erase n loc)
  unbindG : ∀ σ loc n, sc.fn.isSome = false → J σ loc → J (σ.set F sc.mod n none) loc
  /-- a call-time write to the module's globals (`global n; n = …` / `del n`), where allowed -/
  gset : ∀ σ loc n v, allowG → (v = none ∨ v = some .obj) → J σ loc → J (σ.set F sc.mod n v) loc
  imp : ∀ c σ loc σ' exc, allow c → J σ loc → imp c σ = .ok (σ', exc) → J σ' loc

/-- after a successful import the module is in `sys.modules` -/
def ImpLoads (imp : Imp) : Prop := ∀ c σ σ', imp c σ = .ok (σ', none) → σ'.statusOf c ≠ .absent

theorem lookupScope_bindable (F : Facts) (σ : State) (sc : Scope) (loc : Ns) (n : Name) (v : Val)
    (h : lookupScope F σ sc loc n = some v) : Bindable F σ loc v := by
  unfold lookupScope at h
  split at h
  · rename_i w hw
    cases h
    split at hw
    · exact Or.inr (Or.inr (Or.inr ⟨n, hw⟩))
    · cases hw
  · split at h
    · rename_i w hw
      cases h
      exact Or.inr (Or.inr (Or.inl ⟨sc.mod, n, hw⟩))
    · split at h
      · cases h; exact Or.inl rfl
      · cases h

theorem walkVal_bindable (F : Facts) (σ : State) (loc : Ns) :
    ∀ (ch : List Name) (v w : Val), Bindable F σ loc v → walkVal F σ v ch = .ok w → Bindable F σ loc w := by
  intro ch
  induction ch with
  | nil => intro v w hv h; cases v <;> (simp only [walkVal] at h; cases h; exact hv)
  | cons a r ih =>
    intro v w hv h
    cases v with
    | obj => simp only [walkVal] at h; cases h; exact Or.inl rfl
    | mod p =>
      simp only [walkVal] at h
      split at h
      · cases h
      · rename_i v' hg
        exact ih v' w (Or.inr (Or.inr (Or.inl ⟨p, a, hg⟩))) h

section Master
variable {F : Facts} {sc : Scope} {imp : Imp} {allow : ModId → Prop} {allowG : Prop}
  {J : State → Ns → Prop}

/-- events that write the module's globals from a function body -/
def Ev.writesGlobals : Ev → Bool
  | .gbind _ | .gunbind _ => true
  | _ => false

theorem execFrom_step (h : StepInv F sc imp allow allowG J) (hl : ImpLoads imp) (m : ModId) (n asn : Name)
    (hc : ∀ c, F.childOf m n = some c → allow c) (loc : Ns) (σ : State) (out : Out)
    (hJ : J σ loc) (he : execFrom F imp sc m n asn loc σ = .ok out) : J out.σ out.loc := by
  unfold execFrom at he
  split at he
  · rename_i v hg
    cases he
    exact h.bind _ _ _ _ hJ (Or.inr (Or.inr (Or.inl ⟨m, n, hg⟩)))
  · split at he
    · cases he
    · rename_i c hch
      split at he
      · cases he
      · rename_i σ1 x hi
        cases he
        exact h.imp _ _ _ _ _ (hc c hch) hJ hi
      · rename_i σ1 hi
        have h1 : J σ1 loc := h.imp _ _ _ _ _ (hc c hch) hJ hi
        split at he
        · rename_i v hg
          cases he
          exact h.bind _ _ _ _ h1 (Or.inr (Or.inr (Or.inl ⟨m, n, hg⟩)))
        · cases he
          exact h.bind _ _ _ _ h1 (Or.inr (Or.inl ⟨c, rfl, hl _ _ _ hi⟩))

theorem execFroms_step (h : StepInv F sc imp allow allowG J) (hl : ImpLoads imp) (m : ModId)
    (hc : ∀ n c, F.childOf m n = some c → allow c) :
    ∀ (ns : List Name) (loc : Ns) (σ : State) (out : Out), J σ loc →
      execFroms F imp sc m ns loc σ = .ok out → J out.σ out.loc := by
  intro ns
  induction ns with
  | nil => intro loc σ out hJ he; simp only [execFroms] at he; cases he; exact hJ
  | cons n r ih =>
    intro loc σ out hJ he
    simp only [execFroms] at he
    split at he
    · cases he
    · rename_i σ1 loc1 x h1
      cases he
      exact execFrom_step h hl _ _ _ (hc n) _ _ _ hJ h1
    · rename_i σ1 loc1 h1
      exact ih _ _ _ (execFrom_step h hl _ _ _ (hc n) _ _ _ hJ h1) he

/-- **the master induction**: whatever the mode (executing, unwinding an `ImportError`, skipping
a handler), whatever the regions rolled back -/
theorem execEvs_step (h : StepInv F sc imp allow allowG J) (hl : ImpLoads imp) :
    ∀ (evs : List Ev) (mode : Mode) (saved : List (State × Ns)) (loc : Ns) (σ : State) (out : Out),
      (∀ e ∈ evs, (∀ t ∈ evTargets F e, allow t) ∧ (Ev.writesGlobals e = true → allowG)) →
      J σ loc → (∀ s ∈ saved, J s.1 s.2) →
      execEvs F imp sc evs mode saved loc σ = .ok out → J out.σ out.loc := by
  intro evs
  induction evs with
  | nil =>
    intro mode saved loc σ out _ hJ _ he
    cases mode with
    | raising x d r =>
      cases x <;> simp only [execEvs] at he
      · cases he; exact hJ
      · cases he
    | run => simp only [execEvs] at he; cases he; exact hJ
    | skipping d r => simp only [execEvs] at he; cases he; exact hJ
  | cons ev rest ih =>
    intro mode saved loc σ out hT hJ hs he
    have hTr : ∀ e ∈ rest, (∀ t ∈ evTargets F e, allow t) ∧ (Ev.writesGlobals e = true → allowG) :=
      fun e he' => hT e (List.mem_cons_of_mem _ he')
    have hT0 : ∀ t ∈ evTargets F ev, allow t := (hT ev (List.mem_cons_self ..)).1
    have hG0 : Ev.writesGlobals ev = true → allowG := (hT ev (List.mem_cons_self ..)).2
    have hpop : ∀ (s : State) (l : Ns) (more : List (State × Ns)), saved = (s, l) :: more →
        J s l ∧ ∀ t ∈ more, J t.1 t.2 := by
      intro s l more hsv
      subst hsv
      exact ⟨hs (s, l) (List.mem_cons_self ..), fun t ht => hs t (List.mem_cons_of_mem _ ht)⟩
    cases mode with
    | raising x d r =>
      cases ev <;> simp only [execEvs] at he
      case tryExcept mask =>
        cases d with
        | zero =>
          by_cases hm : (Nat.land mask x.kind != 0) = true
          · simp only [hm, ite_true] at he; exact ih _ _ _ _ _ hTr hJ hs he
          · simp only [hm] at he; exact ih _ _ _ _ _ hTr hJ hs he
        | succ d' => exact ih _ _ _ _ _ hTr hJ hs he
      case leave =>
        cases r with
        | succ r' => exact ih _ _ _ _ _ hTr hJ hs he
        | zero =>
          cases saved with
          | nil => simp at he
          | cons sl more =>
            obtain ⟨s, l⟩ := sl
            obtain ⟨a, b⟩ := hpop s l more rfl
            exact ih _ _ _ _ _ hTr a b he
      all_goals exact ih _ _ _ _ _ hTr hJ hs he
    | skipping d r =>
      cases ev <;> simp only [execEvs] at he
      case tryEnd => cases d <;> exact ih _ _ _ _ _ hTr hJ hs he
      case tryElse => cases d <;> exact ih _ _ _ _ _ hTr hJ hs he
      case leave =>
        cases r with
        | succ r' => exact ih _ _ _ _ _ hTr hJ hs he
        | zero =>
          cases saved with
          | nil => simp at he
          | cons sl more =>
            obtain ⟨s, l⟩ := sl
            obtain ⟨a, b⟩ := hpop s l more rfl
            exact ih _ _ _ _ _ hTr a b he
      all_goals exact ih _ _ _ _ _ hTr hJ hs he
    | run =>
      cases ev with
      | bind n =>
        simp only [execEvs] at he
        exact ih _ _ _ _ _ hTr (h.bind _ _ _ _ hJ (Or.inl rfl)) hs he
      | bindMod n c =>
        simp only [execEvs] at he
        split at he
        · cases he
        · rename_i hst
          exact ih _ _ _ _ _ hTr (h.bind _ _ _ _ hJ (Or.inr (Or.inl ⟨c, rfl, fun hh => hst hh⟩))) hs he
      | unbind n =>
        simp only [execEvs] at he
        split at he
        · split at he
          · exact ih _ _ _ _ _ hTr (h.unbindL _ _ _ hJ) hs he
          · exact ih _ _ _ _ _ hTr hJ hs he
        · rename_i hfn
          split at he
          · exact ih _ _ _ _ _ hTr (h.unbindG _ _ _ (by simpa using hfn) hJ) hs he
          · exact ih _ _ _ _ _ hTr hJ hs he
      | load n =>
        simp only [execEvs] at he
        split at he <;> exact ih _ _ _ _ _ hTr hJ hs he
      | attr root ch =>
        simp only [execEvs] at he
        split at he
        · exact ih _ _ _ _ _ hTr hJ hs he
        · split at he <;> exact ih _ _ _ _ _ hTr hJ hs he
      | alias n root ch =>
        simp only [execEvs] at he
        split at he
        · exact ih _ _ _ _ _ hTr hJ hs he
        · rename_i v hlk
          split at he
          · exact ih _ _ _ _ _ hTr hJ hs he
          · rename_i w hw
            exact ih _ _ _ _ _ hTr (h.bind _ _ _ _ hJ (walkVal_bindable F σ loc _ _ _ (lookupScope_bindable F σ sc loc root v hlk) hw)) hs he
      | ensure c =>
        simp only [execEvs] at he
        have hc : allow c := hT0 c (by simp [evTargets])
        split at he
        · cases he
        · rename_i σ1 hi
          exact ih _ _ _ _ _ hTr (h.imp _ _ _ _ _ hc hJ hi) hs he
        · rename_i σ1 x hi
          exact ih _ _ _ _ _ hTr (h.imp _ _ _ _ _ hc hJ hi) hs he
      | fromName c n a =>
        simp only [execEvs] at he
        have hc : ∀ d, F.childOf c n = some d → allow d := by
          intro d hd
          exact hT0 d (by simp [evTargets, hd])
        split at he
        · exact ih _ _ _ _ _ hTr hJ hs he
        · cases he
        · rename_i σ1 loc1 h1
          exact ih _ _ _ _ _ hTr (execFrom_step h hl _ _ _ hc _ _ _ hJ h1) hs he
        · rename_i σ1 loc1 x h1
          exact ih _ _ _ _ _ hTr (execFrom_step h hl _ _ _ hc _ _ _ hJ h1) hs he
      | star c =>
        simp only [execEvs] at he
        have hc : ∀ n d, F.childOf c n = some d → allow d := by
          intro n d hd
          exact hT0 d (by simp only [evTargets]; exact childOf_mem_childrenOf F c n d hd)
        split at he
        · cases he
        · rename_i σ1 loc1 h1
          exact ih _ _ _ _ _ hTr (execFroms_step h hl _ hc _ _ _ _ hJ h1) hs he
        · rename_i σ1 loc1 x h1
          exact ih _ _ _ _ _ hTr (execFroms_step h hl _ hc _ _ _ _ hJ h1) hs he
      | noModule n => simp only [execEvs] at he; exact ih _ _ _ _ _ hTr hJ hs he
      | enter =>
        simp only [execEvs] at he
        refine ih _ _ _ _ _ hTr hJ ?_ he
        intro s hs'
        rcases List.mem_cons.1 hs' with rfl | hs'
        · exact hJ
        · exact hs s hs'
      | leave =>
        simp only [execEvs] at he
        cases saved with
        | nil => simp at he
        | cons sl more =>
          obtain ⟨s, l⟩ := sl
          obtain ⟨a, b⟩ := hpop s l more rfl
          exact ih _ _ _ _ _ hTr a b he
      | ext x =>
        simp only [execEvs] at he
        split at he <;> exact ih _ _ _ _ _ hTr hJ hs he
      | tryBegin => simp only [execEvs] at he; exact ih _ _ _ _ _ hTr hJ hs he
      | tryExcept mask => simp only [execEvs] at he; exact ih _ _ _ _ _ hTr hJ hs he
      | tryEnd => simp only [execEvs] at he; exact ih _ _ _ _ _ hTr hJ hs he
      | tryElse => simp only [execEvs] at he; exact ih _ _ _ _ _ hTr hJ hs he
      | gbind n =>
        simp only [execEvs] at he
        exact ih _ _ _ _ _ hTr (h.gset _ _ _ _ (hG0 rfl) (Or.inr rfl) hJ) hs he
      | gunbind n =>
        simp only [execEvs] at he
        split at he
        · exact ih _ _ _ _ _ hTr (h.gset _ _ _ _ (hG0 rfl) (Or.inl rfl) hJ) hs he
        · exact ih _ _ _ _ _ hTr hJ hs he

end Master

/-! ### instance 1: stable properties (`sys.modules` only grows) -/

/-- a property of states that survives any binding, any promotion of a module status, and the
clearing of a namespace -/
structure Stable (F : Facts) (P : State → Prop) : Prop where
  set : ∀ σ m n v, P σ → P (σ.set F m n v)
  status : ∀ σ c s, s ≠ Status.absent → P σ → P (σ.setStatus c s)
  clear : ∀ σ m, P σ → P (σ.clearRow F m)

theorem Stable.bindIn {F : Facts} {P : State → Prop} (hP : Stable F P) (sc : Scope) (loc : Ns) (σ : State)
    (n : Name) (v : Val) (h : P σ) : P (bindIn F sc loc σ n v).1 := by
  unfold Lena.C20.bindIn
  split
  · exact h
  · exact hP.set _ _ _ _ h

theorem Stable.stepInv {F : Facts} {P : State → Prop} (hP : Stable F P) (sc : Scope) (imp : Imp)
    (himp : ∀ c σ σ' exc, P σ → imp c σ = .ok (σ', exc) → P σ') :
    StepInv F sc imp (fun _ => True) True (fun σ _ => P σ) where
  bind := fun σ loc n v h _ => hP.bindIn sc loc σ n v h
  unbindL := fun _ _ _ h => h
  unbindG := fun _ _ _ _ h => hP.set _ _ _ _ h
  gset := fun _ _ _ _ _ _ h => hP.set _ _ _ _ h
  imp := fun c σ _ σ' exc _ h hi => himp c σ σ' exc h hi

/-- whatever its outcome, an import leaves its module with a status other than `absent` -/
theorem loaded_after_import (F : Facts) (k : Nat) (m : ModId) (σ σ' : State) (exc : Option Nat)
    (he : importMod F k m σ = .ok (σ', exc)) : σ'.statusOf m ≠ .absent := by
  cases k with
  | zero => simp [importMod] at he
  | succ k =>
    simp only [importMod] at he
    split at he
    · cases he
    · rename_i M hM
      have hgo : ∀ σ₀ : State,
          (match execEvs F (importMod F k) ⟨m, none⟩ M.evs .run [] [] (σ₀.setStatus m .running) with
            | .error e => (Except.error e : Except Err (State × Option Nat))
            | .ok ⟨σ', _, some x⟩ => .ok (σ'.setStatus m .failed, some x)
            | .ok ⟨σ', _, none⟩ =>
              match M.parent with
              | none => .ok (σ'.setStatus m .done, none)
              | some p => .ok ((σ'.setStatus m .done).set F p M.short (some (.mod m)), none)) = .ok (σ', exc) →
          σ'.statusOf m ≠ .absent := by
        intro σ₀ hh
        split at hh
        · cases hh
        · cases hh; simp
        · split at hh <;> (cases hh; simp)
      split at he
      · exact hgo _ he
      · exact hgo _ he
      · rename_i hst1 hst2
        cases he
        intro hh
        exact hst1 hh

theorem impLoads_importMod (F : Facts) (k : Nat) : ImpLoads (importMod F k) :=
  fun c σ σ' h => loaded_after_import F k c σ σ' none h

/-- **every stable property survives an import**, whatever the module does while it is executed
(nested and circular imports, `del`, regions that are rolled back, imports that fail and are
retried) -/
theorem importMod_stable {F : Facts} {P : State → Prop} (hP : Stable F P) :
    ∀ (k : Nat) (m : ModId) (σ σ' : State) (exc : Option Nat), P σ →
      importMod F k m σ = .ok (σ', exc) → P σ' := by
  intro k
  induction k with
  | zero => intro m σ σ' exc _ he; simp [importMod] at he
  | succ k ih =>
    intro m σ σ' exc h he
    simp only [importMod] at he
    split at he
    · cases he
    · rename_i M hM
      have hstep := hP.stepInv ⟨m, none⟩ (importMod F k) (fun c s s' x hs hc => ih c s s' x hs hc)
      have hgo : ∀ σ₀ : State, P σ₀ →
          (match execEvs F (importMod F k) ⟨m, none⟩ M.evs .run [] [] (σ₀.setStatus m .running) with
            | .error e => (Except.error e : Except Err (State × Option Nat))
            | .ok ⟨σ', _, some x⟩ => .ok (σ'.setStatus m .failed, some x)
            | .ok ⟨σ', _, none⟩ =>
              match M.parent with
              | none => .ok (σ'.setStatus m .done, none)
              | some p => .ok ((σ'.setStatus m .done).set F p M.short (some (.mod m)), none)) = .ok (σ', exc) →
          P σ' := by
        intro σ₀ h0 hh
        split at hh
        · cases hh
        · rename_i σ1 loc1 x h1
          cases hh
          exact hP.status _ _ _ (by decide)
            (execEvs_step hstep (impLoads_importMod F k) _ _ _ _ _ _ (fun _ _ => ⟨fun _ _ => trivial, fun _ => trivial⟩)
              (hP.status _ _ _ (by decide) h0) (by simp) h1)
        · rename_i σ1 loc1 h1
          have h2 : P σ1 := execEvs_step hstep (impLoads_importMod F k) _ _ _ _ _ _ (fun _ _ => ⟨fun _ _ => trivial, fun _ => trivial⟩)
              (hP.status _ _ _ (by decide) h0) (by simp) h1
          have h3 : P (σ1.setStatus m .done) := hP.status _ _ _ (by decide) h2
          split at hh
          · cases hh; exact h3
          · cases hh; exact hP.set _ _ _ _ h3
      split at he
      · exact hgo _ h he
      · exact hgo _ (hP.clear _ _ h) he
      · cases he; exact h

/-- a call preserves every stable property -/
theorem callFn_stable {F : Facts} {P : State → Prop} (hP : Stable F P) (m : ModId) (f : Func)
    (σ σ' : State) (h : P σ) (he : callFn F m f σ = .ok σ') : P σ' := by
  unfold callFn at he
  split at he
  · cases he
  · rename_i out h1
    cases he
    exact execEvs_step (hP.stepInv _ _ (fun c s s' x hs hc => importMod_stable hP _ c s s' x hs hc))
      (impLoads_importMod F _) _ _ _ _ _ _ (fun _ _ => ⟨fun _ _ => trivial, fun _ => trivial⟩) h (by simp) h1

/-- "module `c` has been put into `sys.modules`" (it is there, or its import failed) is stable -/
theorem stable_loaded (F : Facts) (c : ModId) : Stable F (fun σ => σ.statusOf c ≠ .absent) where
  set := by intro σ m n v h; simpa using h
  status := by
    intro σ c' s hs h
    by_cases hc : c' = c
    · subst hc; simpa using hs
    · rw [State.statusOf_setStatus_other _ _ _ _ hc]; exact h
  clear := by intro σ m h; simpa using h

/-- `sys.modules` only grows: a module that has been put into `sys.modules` before an import has
that status after it (it is there, or its own import failed) -/
theorem sys_modules_grow (F : Facts) (k : Nat) (m c : ModId) (σ σ' : State) (exc : Option Nat)
    (hc : σ.statusOf c ≠ .absent) (he : importMod F k m σ = .ok (σ', exc)) : σ'.statusOf c ≠ .absent :=
  importMod_stable (stable_loaded F c) k m σ σ' exc hc he

/-! ### instance 2: names bound to lena modules are bound to imported modules -/

/-- every name that some module namespace binds to a lena module `c` binds it to a module that
has been put into `sys.modules` -/
def AttrInv (F : Facts) (σ : State) : Prop :=
  ∀ p n c, σ.get F p n = some (.mod c) → σ.statusOf c ≠ .absent

/-- the same for the import-bound locals of a frame -/
def LocInv (σ : State) (loc : Ns) : Prop :=
  ∀ x ∈ loc, ∀ c, x.2 = .mod c → σ.statusOf c ≠ .absent

theorem AttrInv.set {F : Facts} {σ : State} (h : AttrInv F σ) (m n : Nat) (v : Option Val)
    (hv : ∀ c, v = some (.mod c) → σ.statusOf c ≠ .absent) : AttrInv F (σ.set F m n v) := by
  intro p n' c hg
  rw [State.statusOf_set]
  by_cases hsame : m = p ∧ n = n'
  · obtain ⟨rfl, rfl⟩ := hsame
    rcases State.get_set_self F σ m n v with h1 | h1
    · rw [h1] at hg; exact hv c hg
    · rw [h1] at hg; exact h _ _ _ hg
  · rw [State.get_set_other F σ m n v p n' hsame] at hg
    exact h _ _ _ hg

theorem AttrInv.setStatus {F : Facts} {σ : State} (h : AttrInv F σ) (c : Nat) (s : Status)
    (hs : s ≠ .absent) : AttrInv F (σ.setStatus c s) := by
  intro p n c' hg
  rw [State.get_setStatus] at hg
  exact (stable_loaded F c').status σ c s hs (h _ _ _ hg)

theorem AttrInv.clearRow {F : Facts} {σ : State} (h : AttrInv F σ) (m : Nat) :
    AttrInv F (σ.clearRow F m) := by
  intro p n c hg
  rw [State.statusOf_clearRow]
  rcases State.get_clearRow F σ m p n with h1 | h1
  · rw [h1] at hg; exact h _ _ _ hg
  · rw [h1] at hg; cases hg

theorem LocInv.bind {σ : State} {loc : Ns} (h : LocInv σ loc) (n : Name) (v : Val)
    (hv : ∀ c, v = .mod c → σ.statusOf c ≠ .absent) : LocInv σ (bindNs n v loc) := by
  intro x hx c hc
  unfold bindNs at hx
  rcases List.mem_cons.1 hx with rfl | hx
  · exact hv c hc
  · exact h x (mem_erase hx) c hc

theorem LocInv.erase {σ : State} {loc : Ns} (h : LocInv σ loc) (n : Name) : LocInv σ (erase n loc) :=
  fun x hx c hc => h x (mem_erase hx) c hc

theorem LocInv.mono {σ σ' : State} {loc : Ns} (h : LocInv σ loc)
    (hm : ∀ c, σ.statusOf c ≠ .absent → σ'.statusOf c ≠ .absent) : LocInv σ' loc :=
  fun x hx c hc => hm c (h x hx c hc)

theorem LocInv.nil (σ : State) : LocInv σ [] := by intro x hx; cases hx

theorem bindable_mod {F : Facts} {σ : State} {loc : Ns} {v : Val} (h : AttrInv F σ) (hl : LocInv σ loc)
    (hb : Bindable F σ loc v) : ∀ c, v = .mod c → σ.statusOf c ≠ .absent := by
  intro c hc
  rcases hb with rfl | ⟨c', rfl, h2⟩ | ⟨m, n, hg⟩ | ⟨k, hk⟩
  · cases hc
  · cases hc; exact h2
  · subst hc; exact h m n c hg
  · subst hc
    obtain ⟨k', hk'⟩ := mem_of_lookup hk
    exact hl (k', .mod c) hk' c rfl

theorem attr_stepInv (F : Facts) (sc : Scope) (imp : Imp)
    (hinv : ∀ c σ σ' exc, AttrInv F σ → imp c σ = .ok (σ', exc) → AttrInv F σ')
    (hgrow : ∀ c d σ σ' exc, σ.statusOf d ≠ .absent → imp c σ = .ok (σ', exc) → σ'.statusOf d ≠ .absent) :
    StepInv F sc imp (fun _ => True) True (fun σ loc => AttrInv F σ ∧ LocInv σ loc) where
  bind := by
    intro σ loc n v ⟨h, hl⟩ hb
    have hv := bindable_mod h hl hb
    unfold bindIn
    split
    · exact ⟨h, hl.bind n v hv⟩
    · refine ⟨h.set _ _ _ ?_, hl.mono (fun c hc => by simpa using hc)⟩
      intro c hc
      cases hc
      exact hv c rfl
  unbindL := fun σ loc n ⟨h, hl⟩ => ⟨h, hl.erase n⟩
  unbindG := fun σ loc n _ ⟨h, hl⟩ =>
    ⟨h.set _ _ _ (fun c hc => by cases hc), hl.mono (fun c hc => by simpa using hc)⟩
  gset := by
    intro σ loc n v _ hv ⟨h, hl⟩
    refine ⟨h.set _ _ _ ?_, hl.mono (fun c hc => by simpa using hc)⟩
    intro c hc
    rcases hv with rfl | rfl <;> cases hc
  imp := fun c σ loc σ' exc _ ⟨h, hl⟩ hi =>
    ⟨hinv c σ σ' exc h hi, hl.mono (fun d hd => hgrow c d σ σ' exc hd hi)⟩

theorem importMod_inv (F : Facts) :
    ∀ (k : Nat) (m : ModId) (σ σ' : State) (exc : Option Nat), AttrInv F σ →
      importMod F k m σ = .ok (σ', exc) → AttrInv F σ' := by
  intro k
  induction k with
  | zero => intro m σ σ' exc _ he; simp [importMod] at he
  | succ k ih =>
    intro m σ σ' exc h he
    simp only [importMod] at he
    split at he
    · cases he
    · rename_i M hM
      have hstep := attr_stepInv F ⟨m, none⟩ (importMod F k) (fun c s s' x hs hc => ih c s s' x hs hc)
        (fun c d s s' x hd hc => sys_modules_grow F k c d s s' x hd hc)
      have hgo : ∀ σ₀ : State, AttrInv F σ₀ →
          (match execEvs F (importMod F k) ⟨m, none⟩ M.evs .run [] [] (σ₀.setStatus m .running) with
            | .error e => (Except.error e : Except Err (State × Option Nat))
            | .ok ⟨σ', _, some x⟩ => .ok (σ'.setStatus m .failed, some x)
            | .ok ⟨σ', _, none⟩ =>
              match M.parent with
              | none => .ok (σ'.setStatus m .done, none)
              | some p => .ok ((σ'.setStatus m .done).set F p M.short (some (.mod m)), none)) = .ok (σ', exc) →
          AttrInv F σ' := by
        intro σ₀ h0 hh
        have hrun : ∀ out, execEvs F (importMod F k) ⟨m, none⟩ M.evs .run [] [] (σ₀.setStatus m .running) = .ok out →
            AttrInv F out.σ := fun out h1 =>
          (execEvs_step hstep (impLoads_importMod F k) _ _ _ _ _ _ (fun _ _ => ⟨fun _ _ => trivial, fun _ => trivial⟩)
            ⟨h0.setStatus m .running (by decide), LocInv.nil _⟩ (by simp) h1).1
        split at hh
        · cases hh
        · rename_i σ1 loc1 x h1
          cases hh
          exact (hrun _ h1).setStatus m .failed (by decide)
        · rename_i σ1 loc1 h1
          have h3 : AttrInv F (σ1.setStatus m .done) := (hrun _ h1).setStatus m .done (by decide)
          split at hh
          · cases hh; exact h3
          · cases hh
            exact h3.set _ _ _ (fun c hc => by cases hc; simp)
      split at he
      · exact hgo _ h he
      · exact hgo _ (h.clearRow m) he
      · cases he; exact h

theorem attrInv_init (F : Facts) : AttrInv F State.init := by
  intro p n c h
  simp at h

theorem importEntry_inv (F : Facts) (e : ModId) (σ : State) (exc : Option Nat)
    (h : importEntry F e = .ok (σ, exc)) : AttrInv F σ :=
  importMod_inv F _ e _ _ exc (attrInv_init F) h

theorem callFn_inv (F : Facts) (m : ModId) (f : Func) (σ σ' : State) (h : AttrInv F σ)
    (he : callFn F m f σ = .ok σ') : AttrInv F σ' := by
  unfold callFn at he
  split at he
  · cases he
  · rename_i out h1
    cases he
    exact (execEvs_step (attr_stepInv F _ _ (fun c s s' x hs hc => importMod_inv F _ c s s' x hs hc)
        (fun c d s s' x hd hc => sys_modules_grow F _ c d s s' x hd hc))
      (impLoads_importMod F _) _ _ _ _ _ _ (fun _ _ => ⟨fun _ _ => trivial, fun _ => trivial⟩) ⟨h, LocInv.nil _⟩ (by simp) h1).1

/-! ### instance 3: the static import closure bounds what an import loads -/

/-- every module that has been put into `sys.modules` is a member of the set `S` -/
def Within (S : Nat) (σ : State) : Prop := ∀ c, σ.statusOf c ≠ .absent → memSet S c = true

theorem Within.set {S : Nat} {σ : State} (F : Facts) (m n : Nat) (v : Option Val) (h : Within S σ) :
    Within S (σ.set F m n v) := by
  intro c hc
  rw [State.statusOf_set] at hc
  exact h c hc

theorem Within.setStatus {S : Nat} {σ : State} (c : Nat) (s : Status) (hm : memSet S c = true)
    (h : Within S σ) : Within S (σ.setStatus c s) := by
  intro c' hc
  by_cases hcc : c = c'
  · subst hcc; exact hm
  · rw [State.statusOf_setStatus_other _ _ _ _ hcc] at hc
    exact h c' hc

theorem within_stepInv (F : Facts) (S : Nat) (sc : Scope) (imp : Imp)
    (himp : ∀ c, memSet S c = true → ∀ σ σ' exc, Within S σ → imp c σ = .ok (σ', exc) → Within S σ') :
    StepInv F sc imp (fun c => memSet S c = true) True (fun σ _ => Within S σ) where
  bind := by
    intro σ loc n v h _
    unfold bindIn
    split
    · exact h
    · exact h.set F _ _ _
  unbindL := fun _ _ _ h => h
  unbindG := fun _ _ _ _ h => h.set F _ _ _
  gset := fun _ _ _ _ _ _ h => h.set F _ _ _
  imp := fun c σ _ σ' exc hc h hi => himp c hc σ σ' exc h hi

theorem closed_targets {F : Facts} {S : Nat} (hS : closedSetB F S = true) (m : ModId) (M : Module)
    (hm : memSet S m = true) (hM : F.modOf m = some M) :
    ∀ e ∈ M.evs, ∀ t ∈ evTargets F e, memSet S t = true := by
  unfold closedSetB at hS
  rw [List.all_eq_true] at hS
  have := hS (m, M) ((mem_zipIdx _ _ _ _).2 ⟨m, by omega, hM⟩)
  simp only [hm, Bool.not_true, Bool.false_or, List.all_eq_true] at this
  exact this

/-- **an import never leaves a closed set**: if `S` contains `m` and, with every module, the import
targets of its module-level code, then importing `m` — whatever the order in which circular
imports are resolved, whichever third-party modules are absent — puts only members of `S` into
`sys.modules` -/
theorem importMod_within {F : Facts} {S : Nat} (hS : closedSetB F S = true) :
    ∀ (k : Nat) (m : ModId) (σ σ' : State) (exc : Option Nat), memSet S m = true → Within S σ →
      importMod F k m σ = .ok (σ', exc) → Within S σ' := by
  intro k
  induction k with
  | zero => intro m σ σ' exc _ _ he; simp [importMod] at he
  | succ k ih =>
    intro m σ σ' exc hm h he
    simp only [importMod] at he
    split at he
    · cases he
    · rename_i M hM
      have hstep := within_stepInv F S ⟨m, none⟩ (importMod F k)
        (fun c hc s s' x hs hi => ih c s s' x hc hs hi)
      have hgo : ∀ σ₀ : State, Within S σ₀ →
          (match execEvs F (importMod F k) ⟨m, none⟩ M.evs .run [] [] (σ₀.setStatus m .running) with
            | .error e => (Except.error e : Except Err (State × Option Nat))
            | .ok ⟨σ', _, some x⟩ => .ok (σ'.setStatus m .failed, some x)
            | .ok ⟨σ', _, none⟩ =>
              match M.parent with
              | none => .ok (σ'.setStatus m .done, none)
              | some p => .ok ((σ'.setStatus m .done).set F p M.short (some (.mod m)), none)) = .ok (σ', exc) →
          Within S σ' := by
        intro σ₀ h0 hh
        have hrun : ∀ out, execEvs F (importMod F k) ⟨m, none⟩ M.evs .run [] [] (σ₀.setStatus m .running) = .ok out →
            Within S out.σ := fun out h1 =>
          execEvs_step hstep (impLoads_importMod F k) _ _ _ _ _ _
            (fun e he => ⟨closed_targets hS m M hm hM e he, fun _ => trivial⟩)
            (h0.setStatus m .running hm) (by simp) h1
        split at hh
        · cases hh
        · rename_i σ1 loc1 x h1
          cases hh
          exact (hrun _ h1).setStatus m .failed hm
        · rename_i σ1 loc1 h1
          have h3 : Within S (σ1.setStatus m .done) := (hrun _ h1).setStatus m .done hm
          split at hh
          · cases hh; exact h3
          · cases hh; exact h3.set F _ _ _
      split at he
      · exact hgo _ h he
      · exact hgo _ (fun c hc => h c (by simpa using hc)) he
      · cases he; exact h

theorem within_init (S : Nat) : Within S State.init := by
  intro c hc; simp at hc

/-! ## 5. the traced interpreter is the same interpreter -/

/-- `execEvsT` computes what `execEvs` computes; the trace is an extra output -/
theorem execEvsT_fst (F : Facts) (imp : Imp) (sc : Scope) :
    ∀ (evs : List Ev) (mode : Mode) (saved : List (State × Ns)) (loc : Ns) (σ : State) (tr : List Err),
      (execEvsT F imp sc evs mode saved loc σ tr).1 = execEvs F imp sc evs mode saved loc σ := by
  intro evs
  induction evs with
  | nil =>
    intro mode saved loc σ tr
    cases mode with
    | raising x d r => cases x <;> simp only [execEvsT, execEvs]
    | run => simp only [execEvsT, execEvs]
    | skipping d r => simp only [execEvsT, execEvs]
  | cons ev rest ih =>
    intro mode saved loc σ tr
    cases mode with
    | raising x d r =>
      cases ev <;> simp only [execEvsT, execEvs, ih]
      case tryExcept mask =>
        cases d with
        | zero => simp only []; split <;> simp only [ih]
        | succ d' => simp only [ih]
      case leave =>
        cases r with
        | succ r' => simp only [ih]
        | zero => cases saved with
          | nil => rfl
          | cons sl more => simp only [ih]
    | skipping d r =>
      cases ev <;> simp only [execEvsT, execEvs, ih]
      case tryEnd => cases d <;> simp only [ih]
      case tryElse => cases d <;> simp only [ih]
      case leave =>
        cases r with
        | succ r' => simp only [ih]
        | zero => cases saved with
          | nil => rfl
          | cons sl more => simp only [ih]
    | run =>
      cases ev <;> simp only [execEvsT, execEvs, ih]
      all_goals ((repeat' split) <;> simp_all only)

/-- the trace only grows: what was caught before stays caught -/
theorem execEvsT_prefix (F : Facts) (imp : Imp) (sc : Scope) :
    ∀ (evs : List Ev) (mode : Mode) (saved : List (State × Ns)) (loc : Ns) (σ : State) (tr : List Err),
      ∃ more, (execEvsT F imp sc evs mode saved loc σ tr).2 = tr ++ more := by
  intro evs
  induction evs with
  | nil =>
    intro mode saved loc σ tr
    cases mode with
    | raising x d r => cases x <;> exact ⟨[], by simp only [execEvsT, List.append_nil]⟩
    | run => exact ⟨[], by simp only [execEvsT, List.append_nil]⟩
    | skipping d r => exact ⟨[], by simp only [execEvsT, List.append_nil]⟩
  | cons ev rest ih =>
    intro mode saved loc σ tr
    cases mode with
    | raising x d r =>
      cases ev <;> simp only [execEvsT]
      case tryExcept mask =>
        cases d with
        | zero =>
          simp only []
          split
          · obtain ⟨more, hm⟩ := ih .run saved loc σ (traceCatch mask x tr)
            rw [hm]
            unfold traceCatch
            cases x with
            | ext y => exact ⟨more, rfl⟩
            | err e =>
              simp only []
              split
              · exact ⟨more, rfl⟩
              · exact ⟨[e] ++ more, by simp⟩
          · exact ih _ _ _ _ _
        | succ d' => exact ih _ _ _ _ _
      case leave =>
        cases r with
        | succ r' => exact ih _ _ _ _ _
        | zero => cases saved with
          | nil => exact ⟨[], by simp⟩
          | cons sl more => exact ih _ _ _ _ _
      all_goals exact ih _ _ _ _ _
    | skipping d r =>
      cases ev <;> simp only [execEvsT]
      case tryEnd => cases d <;> exact ih _ _ _ _ _
      case tryElse => cases d <;> exact ih _ _ _ _ _
      case leave =>
        cases r with
        | succ r' => exact ih _ _ _ _ _
        | zero => cases saved with
          | nil => exact ⟨[], by simp⟩
          | cons sl more => exact ih _ _ _ _ _
      all_goals exact ih _ _ _ _ _
    | run =>
      cases ev <;> simp only [execEvsT]
      all_goals ((repeat' split) <;> first | exact ih _ _ _ _ _ | exact ⟨[], by simp⟩)

/-- code without a handler catches nothing: the trace stays as it is -/
theorem execEvsT_no_handler (F : Facts) (imp : Imp) (sc : Scope) :
    ∀ (evs : List Ev) (mode : Mode) (saved : List (State × Ns)) (loc : Ns) (σ : State) (tr : List Err),
      (∀ e ∈ evs, ∀ mask, e ≠ .tryExcept mask) →
      (execEvsT F imp sc evs mode saved loc σ tr).2 = tr := by
  intro evs
  induction evs with
  | nil =>
    intro mode saved loc σ tr _
    cases mode with
    | raising x d r => cases x <;> simp only [execEvsT]
    | run => simp only [execEvsT]
    | skipping d r => simp only [execEvsT]
  | cons ev rest ih =>
    intro mode saved loc σ tr hn
    have hr : ∀ e ∈ rest, ∀ mask, e ≠ .tryExcept mask := fun e he => hn e (List.mem_cons_of_mem _ he)
    have h0 : ∀ mask, ev ≠ .tryExcept mask := hn ev (List.mem_cons_self ..)
    cases mode with
    | raising x d r =>
      cases ev <;> simp only [execEvsT]
      case tryExcept mask => exact absurd rfl (h0 mask)
      case leave =>
        cases r with
        | succ r' => exact ih _ _ _ _ _ hr
        | zero => cases saved with
          | nil => rfl
          | cons sl more => exact ih _ _ _ _ _ hr
      all_goals exact ih _ _ _ _ _ hr
    | skipping d r =>
      cases ev <;> simp only [execEvsT]
      case tryEnd => cases d <;> exact ih _ _ _ _ _ hr
      case tryElse => cases d <;> exact ih _ _ _ _ _ hr
      case leave =>
        cases r with
        | succ r' => exact ih _ _ _ _ _ hr
        | zero => cases saved with
          | nil => rfl
          | cons sl more => exact ih _ _ _ _ _ hr
      all_goals exact ih _ _ _ _ _ hr
    | run =>
      cases ev <;> simp only [execEvsT]
      all_goals ((repeat' split) <;> first | exact ih _ _ _ _ _ hr | rfl)

/-- a function without a handler catches nothing, in whatever state it is called -/
theorem callCaught_nil (F : Facts) (m : ModId) (f : Func) (σ : State) (h : hasHandler f = false) :
    callCaught F m f σ = [] := by
  unfold callCaught
  apply execEvsT_no_handler
  intro e he mask heq
  unfold hasHandler at h
  rw [List.any_eq_false] at h
  have := h e he
  subst heq
  simp at this

theorem errsBeq_iff (a b : List Err) : errsBeq a b = true ↔ a = b := by
  induction a generalizing b with
  | nil => cases b <;> simp [errsBeq]
  | cons x r ih =>
    cases b with
    | nil => simp [errsBeq]
    | cons y s => simp [errsBeq, errBeq, ih]


end Lena.C20
