import LenaModel.Model.C20
/-! # C20 — lemmas about the state encoding and about what the interpreter preserves

1. The two numbers of `State` really are an array of namespaces and `sys.modules`
   (`get_set_same`, `get_set_other`, `statusOf_setStatus_same`, …): bit-level facts, proved once.
2. `sys.modules` only grows (`importMod_stable`, `importMod_loaded`): every property of states that
   survives a binding and the promotion of a module status survives any import and any call.
3. Names bound to lena modules are bound to *imported* modules (`AttrInv`), in every state the
   interpreter can reach: this is the rule "`lena.flow` is an attribute of `lena` only after
   `lena.flow` has been imported by someone". -/

namespace Lena.C20

/-! ## 1. slots -/

@[simp] theorem forceNat_eq {α : Sort _} (n : Nat) (k : Nat → α) : forceNat n k = k n := by
  cases n <;> rfl

theorem slot_same (s e a B : Nat) (he : e < 2 ^ B) :
    ((s ^^^ ((((s >>> a) &&& (2 ^ B - 1)) ^^^ e) <<< a)) >>> a) &&& (2 ^ B - 1) = e := by
  apply Nat.eq_of_testBit_eq
  intro k
  simp only [Nat.testBit_and, Nat.testBit_shiftRight, Nat.testBit_xor, Nat.testBit_shiftLeft,
    Nat.testBit_two_pow_sub_one]
  by_cases hk : k < B
  · have h1 : a + k ≥ a := by omega
    have h2 : a + k - a = k := by omega
    simp [hk, h1, h2]
  · have : e.testBit k = false :=
      Nat.testBit_lt_two_pow (Nat.lt_of_lt_of_le he (Nat.pow_le_pow_right (by omega) (by omega)))
    simp [hk, this]

theorem slot_other (s e a b B : Nat) (he : e < 2 ^ B) (hd : a + B ≤ b ∨ b + B ≤ a) :
    ((s ^^^ ((((s >>> a) &&& (2 ^ B - 1)) ^^^ e) <<< a)) >>> b) &&& (2 ^ B - 1)
      = (s >>> b) &&& (2 ^ B - 1) := by
  apply Nat.eq_of_testBit_eq
  intro k
  simp only [Nat.testBit_and, Nat.testBit_shiftRight, Nat.testBit_xor, Nat.testBit_shiftLeft,
    Nat.testBit_two_pow_sub_one]
  by_cases hk : k < B
  · rcases hd with hd | hd
    · have h1 : b + k ≥ a := by omega
      have h3 : ¬ (b + k - a < B) := by omega
      have : e.testBit (b + k - a) = false :=
        Nat.testBit_lt_two_pow (Nat.lt_of_lt_of_le he (Nat.pow_le_pow_right (by omega) (by omega)))
      simp [hk, h1, h3, this]
    · have h1 : ¬ (b + k ≥ a) := by omega
      simp [hk, h1]
  · simp [hk]

@[simp] theorem decode_encodeVal (v : Option Val) : decodeVal (encodeVal v) = v := by
  cases v with
  | none => rfl
  | some v => cases v <;> rfl

@[simp] theorem decode_encodeStatus (s : Status) : decodeStatus (encodeStatus s) = s := by
  cases s <;> rfl

theorem encodeStatus_lt (s : Status) : encodeStatus s < 2 ^ 2 := by cases s <;> decide

namespace State

theorem slotIx_disjoint (F : Facts) (m n m' n' : Nat) (hn : n < F.nNames) (hn' : n' < F.nNames)
    (hne : ¬ (m = m' ∧ n = n')) :
    slotIx F m n + F.slotBits ≤ slotIx F m' n' ∨ slotIx F m' n' + F.slotBits ≤ slotIx F m n := by
  unfold slotIx
  have key : m * F.nNames + n + 1 ≤ m' * F.nNames + n' ∨ m' * F.nNames + n' + 1 ≤ m * F.nNames + n := by
    rcases Nat.lt_trichotomy m m' with h | h | h
    · left
      have : (m + 1) * F.nNames ≤ m' * F.nNames := Nat.mul_le_mul_right _ h
      rw [Nat.add_mul, Nat.one_mul] at this
      omega
    · subst h
      have : n ≠ n' := fun hh => hne ⟨rfl, hh⟩
      omega
    · right
      have : (m' + 1) * F.nNames ≤ m * F.nNames := Nat.mul_le_mul_right _ h
      rw [Nat.add_mul, Nat.one_mul] at this
      omega
  rcases key with h | h
  · left
    have := Nat.mul_le_mul_left F.slotBits h
    rw [Nat.mul_add, Nat.mul_one] at this
    exact this
  · right
    have := Nat.mul_le_mul_left F.slotBits h
    rw [Nat.mul_add, Nat.mul_one] at this
    exact this

/-- writing one slot leaves every other slot alone -/
theorem get_set_other (F : Facts) (σ : State) (m n : Nat) (v : Option Val) (m' n' : Nat)
    (hne : ¬ (m = m' ∧ n = n')) : (σ.set F m n v).get F m' n' = σ.get F m' n' := by
  unfold set
  split
  · rename_i hg
    simp only [Bool.and_eq_true, Nat.blt_eq] at hg
    unfold get
    by_cases hn' : n' < F.nNames
    · have hb : Nat.blt n' F.nNames = true := by simpa using hn'
      simp only [hb, ite_true]
      congr 1
      unfold rawGet
      exact slot_other _ _ _ _ _ hg.2 (slotIx_disjoint F m n m' n' hg.1 hn' hne)
    · have hb : Nat.blt n' F.nNames = false :=
        Bool.eq_false_iff.2 (fun hb' => hn' (by simpa using hb'))
      simp [hb]
  · rfl

/-- a slot holds what was written to it (when name and value fit the layout) -/
theorem get_set_same (F : Facts) (σ : State) (m n : Nat) (v : Option Val)
    (hn : n < F.nNames) (hv : encodeVal v < 2 ^ F.slotBits) : (σ.set F m n v).get F m n = v := by
  have hb : Nat.blt n F.nNames = true := by simpa using hn
  have hb2 : Nat.blt (encodeVal v) (2 ^ F.slotBits) = true := by simpa using hv
  unfold set get
  simp only [hb, hb2, Bool.and_self, ite_true]
  unfold rawGet
  rw [slot_same _ _ _ _ hv]
  exact decode_encodeVal v

/-- without the side conditions: the slot holds the new value, or nothing was stored -/
theorem get_set_self (F : Facts) (σ : State) (m n : Nat) (v : Option Val) :
    (σ.set F m n v).get F m n = v ∨ σ.set F m n v = σ := by
  by_cases hg : (Nat.blt n F.nNames && Nat.blt (encodeVal v) (2 ^ F.slotBits)) = true
  · left
    simp only [Bool.and_eq_true, Nat.blt_eq] at hg
    exact get_set_same F σ m n v hg.1 hg.2
  · right
    unfold set
    simp [hg]

@[simp] theorem statusOf_set (F : Facts) (σ : State) (m n : Nat) (v : Option Val) (c : Nat) :
    (σ.set F m n v).statusOf c = σ.statusOf c := by
  unfold set
  split <;> rfl

@[simp] theorem get_setStatus (F : Facts) (σ : State) (c : Nat) (s : Status) (m n : Nat) :
    (σ.setStatus c s).get F m n = σ.get F m n := rfl

@[simp] theorem statusOf_setStatus_same (σ : State) (c : Nat) (s : Status) :
    (σ.setStatus c s).statusOf c = s := by
  unfold setStatus statusOf
  show decodeStatus (((σ.status ^^^ ((((σ.status >>> (2 * c)) &&& (2 ^ 2 - 1)) ^^^ encodeStatus s) <<< (2 * c)))
      >>> (2 * c)) &&& (2 ^ 2 - 1)) = s
  rw [slot_same _ _ _ _ (encodeStatus_lt s)]
  exact decode_encodeStatus s

theorem statusOf_setStatus_other (σ : State) (c c' : Nat) (s : Status) (h : c ≠ c') :
    (σ.setStatus c s).statusOf c' = σ.statusOf c' := by
  unfold setStatus statusOf
  show decodeStatus (((σ.status ^^^ ((((σ.status >>> (2 * c)) &&& (2 ^ 2 - 1)) ^^^ encodeStatus s) <<< (2 * c)))
      >>> (2 * c')) &&& (2 ^ 2 - 1)) = decodeStatus ((σ.status >>> (2 * c')) &&& (2 ^ 2 - 1))
  rw [slot_other _ _ _ _ _ (encodeStatus_lt s) (by omega)]

@[simp] theorem get_init (F : Facts) (m n : Nat) : State.init.get F m n = none := by
  unfold get rawGet init
  split <;> simp [decodeVal]

@[simp] theorem statusOf_init (c : Nat) : State.init.statusOf c = .absent := by
  unfold statusOf init
  simp [decodeStatus]

@[simp] theorem force_eq {α : Sort _} (σ : State) (k : State → α) : σ.force k = k σ := by
  cases σ
  simp only [force, forceNat]
  split <;> split <;> rfl

end State

/-! ## 2. what every step preserves -/

/-- a property of states that survives any binding and any promotion of a module status -/
structure Stable (F : Facts) (P : State → Prop) : Prop where
  set : ∀ σ m n v, P σ → P (σ.set F m n v)
  status : ∀ σ c s, s ≠ Status.absent → P σ → P (σ.setStatus c s)

theorem Stable.bindIn {F : Facts} {P : State → Prop} (hP : Stable F P) (sc : Scope) (loc : Ns) (σ : State)
    (n : Name) (v : Val) (h : P σ) : P (bindIn F sc loc σ n v).1 := by
  unfold Lena.C20.bindIn
  split
  · exact h
  · exact hP.set _ _ _ _ h

/-- the import machinery, as far as a stable property is concerned -/
def ImpKeeps (P : State → Prop) (imp : ModId → State → Except Err State) : Prop :=
  ∀ c σ σ', P σ → imp c σ = .ok σ' → P σ'

theorem ok_fst {x : State × Ns} {σ' : State} {loc' : Ns}
    (h : (Except.ok x : Res) = .ok (σ', loc')) : x.1 = σ' := by
  cases h; rfl

theorem ok_snd {x : State × Ns} {σ' : State} {loc' : Ns}
    (h : (Except.ok x : Res) = .ok (σ', loc')) : x.2 = loc' := by
  cases h; rfl

theorem execFrom_stable {F : Facts} {P : State → Prop} (hP : Stable F P)
    {imp : ModId → State → Except Err State} (himp : ImpKeeps P imp) (sc : Scope) (m : ModId) (n asn : Name)
    (loc : Ns) (σ σ' : State) (loc' : Ns) (h : P σ)
    (he : execFrom F imp sc m n asn loc σ = .ok (σ', loc')) : P σ' := by
  unfold execFrom at he
  split at he
  · rw [← ok_fst he]; exact hP.bindIn _ _ _ _ _ h
  · split at he
    · cases he
    · split at he
      · cases he
      · rename_i σ1 hi
        have h1 : P σ1 := himp _ _ _ h hi
        split at he
        · rw [← ok_fst he]; exact hP.bindIn _ _ _ _ _ h1
        · rw [← ok_fst he]; exact hP.bindIn _ _ _ _ _ h1

theorem execFroms_stable {F : Facts} {P : State → Prop} (hP : Stable F P)
    {imp : ModId → State → Except Err State} (himp : ImpKeeps P imp) (sc : Scope) (m : ModId) :
    ∀ (ns : List Name) (loc : Ns) (σ σ' : State) (loc' : Ns), P σ →
      execFroms F imp sc m ns loc σ = .ok (σ', loc') → P σ' := by
  intro ns
  induction ns with
  | nil => intro loc σ σ' loc' h he; simp only [execFroms] at he; cases he; exact h
  | cons n r ih =>
    intro loc σ σ' loc' h he
    simp only [execFroms] at he
    split at he
    · cases he
    · rename_i σ1 loc1 h1
      exact ih _ _ _ _ (execFrom_stable hP himp _ _ _ _ _ _ _ _ h h1) he

theorem execEvs_stable {F : Facts} {P : State → Prop} (hP : Stable F P)
    {imp : ModId → State → Except Err State} (himp : ImpKeeps P imp) (sc : Scope) :
    ∀ (evs : List Ev) (saved : List (State × Ns)) (loc : Ns) (σ σ' : State) (loc' : Ns),
      P σ → (∀ s ∈ saved, P s.1) → execEvs F imp sc evs saved loc σ = .ok (σ', loc') → P σ' := by
  intro evs
  induction evs with
  | nil => intro saved loc σ σ' loc' h _ he; simp only [execEvs] at he; cases he; exact h
  | cons ev rest ih =>
    intro saved loc σ σ' loc' h hs he
    cases ev with
    | bind n =>
      simp only [execEvs] at he
      exact ih _ _ _ _ _ (hP.bindIn _ _ _ _ _ h) hs he
    | bindMod n c =>
      simp only [execEvs] at he
      split at he
      · cases he
      · exact ih _ _ _ _ _ (hP.bindIn _ _ _ _ _ h) hs he
    | unbind n =>
      simp only [execEvs] at he
      split at he
      · split at he
        · exact ih _ _ _ _ _ h hs he
        · cases he
      · split at he
        · exact ih _ _ _ _ _ (hP.set _ _ _ _ h) hs he
        · cases he
    | load n =>
      simp only [execEvs] at he
      split at he
      · exact ih _ _ _ _ _ h hs he
      · cases he
    | attr root ch =>
      simp only [execEvs] at he
      split at he
      · cases he
      · split at he
        · exact ih _ _ _ _ _ h hs he
        · cases he
    | ensure c =>
      simp only [execEvs] at he
      split at he
      · cases he
      · rename_i σ1 hi
        exact ih _ _ _ _ _ (himp _ _ _ h hi) hs he
    | fromName c n a =>
      simp only [execEvs] at he
      split at he
      · cases he
      · rename_i σ1 loc1 h1
        exact ih _ _ _ _ _ (execFrom_stable hP himp _ _ _ _ _ _ _ _ h h1) hs he
    | star c =>
      simp only [execEvs] at he
      split at he
      · cases he
      · rename_i σ1 loc1 h1
        exact ih _ _ _ _ _ (execFroms_stable hP himp _ _ _ _ _ _ _ h h1) hs he
    | noModule n => simp only [execEvs] at he; cases he
    | enter =>
      simp only [execEvs] at he
      refine ih _ _ _ _ _ h ?_ he
      intro s hs'
      rcases List.mem_cons.1 hs' with rfl | hs'
      · exact h
      · exact hs s hs'
    | leave =>
      simp only [execEvs] at he
      cases saved with
      | nil => simp at he
      | cons sl more =>
        obtain ⟨s, l⟩ := sl
        simp only at he
        exact ih _ _ _ _ _ (hs (s, l) (List.mem_cons_self ..))
          (fun t ht => hs t (List.mem_cons_of_mem _ ht)) he

/-- **every stable property survives an import**, whatever the module does while it is executed
(nested and circular imports, `del`, regions that are rolled back) -/
theorem importMod_stable {F : Facts} {P : State → Prop} (hP : Stable F P) :
    ∀ (k : Nat) (m : ModId) (σ σ' : State), P σ → importMod F k m σ = .ok σ' → P σ' := by
  intro k
  induction k with
  | zero => intro m σ σ' _ he; simp [importMod] at he
  | succ k ih =>
    intro m σ σ' h he
    simp only [importMod] at he
    split at he
    · cases he
    · split at he
      · split at he
        · cases he
        · rename_i M _ _ σ1 loc1 h1
          have hk : ImpKeeps P (importMod F k) := fun c s s' hs hc => ih c s s' hs hc
          have h2 : P σ1 := execEvs_stable hP hk _ _ _ _ _ _ _
            (hP.status _ _ _ (by decide) h) (by simp) h1
          have h3 : P (σ1.setStatus m .done) := hP.status _ _ _ (by decide) h2
          split at he
          · cases he; exact h3
          · cases he; exact hP.set _ _ _ _ h3
      · cases he; exact h

/-- a call preserves every stable property -/
theorem callFn_stable {F : Facts} {P : State → Prop} (hP : Stable F P) (m : ModId) (f : Func)
    (σ σ' : State) (h : P σ) (he : callFn F m f σ = .ok σ') : P σ' := by
  unfold callFn at he
  split at he
  · cases he
  · rename_i σ1 loc1 h1
    cases he
    exact execEvs_stable hP (fun c s s' hs hc => importMod_stable hP _ c s s' hs hc) _ _ _ _ _ _ _ h (by simp) h1

/-- "module `c` is in `sys.modules`" is stable -/
theorem stable_loaded (F : Facts) (c : ModId) : Stable F (fun σ => σ.statusOf c ≠ .absent) where
  set := by intro σ m n v h; simpa using h
  status := by
    intro σ c' s hs h
    by_cases hc : c' = c
    · subst hc; simpa using hs
    · rw [State.statusOf_setStatus_other _ _ _ _ hc]; exact h

/-- "module `c` is fully initialised" is stable as long as … it is not: a finished module can be
set back to `running` by nobody, but the encoding does not know; what *is* stable is `≠ absent` -/
theorem loaded_after_import (F : Facts) (k : Nat) (m : ModId) (σ σ' : State)
    (he : importMod F k m σ = .ok σ') : σ'.statusOf m ≠ .absent := by
  cases k with
  | zero => simp [importMod] at he
  | succ k =>
    simp only [importMod] at he
    split at he
    · cases he
    · split at he
      · split at he
        · cases he
        · split at he
          · cases he; simp
          · cases he; simp
      · rename_i hst
        cases he
        intro h
        exact hst h

/-- `sys.modules` only grows: a module that is in `sys.modules` before an import is there after it -/
theorem sys_modules_grow (F : Facts) (k : Nat) (m c : ModId) (σ σ' : State)
    (hc : σ.statusOf c ≠ .absent) (he : importMod F k m σ = .ok σ') : σ'.statusOf c ≠ .absent :=
  importMod_stable (stable_loaded F c) k m σ σ' hc he

/-! ## 3. names bound to lena modules are bound to imported modules -/

/-- every name that some module namespace binds to a lena module `c` binds it to a module that is
in `sys.modules` -/
def AttrInv (F : Facts) (σ : State) : Prop :=
  ∀ p n c, σ.get F p n = some (.mod c) → σ.statusOf c ≠ .absent

/-- the same for the import-bound locals of a frame -/
def LocInv (σ : State) (loc : Ns) : Prop :=
  ∀ x ∈ loc, ∀ c, x.2 = .mod c → σ.statusOf c ≠ .absent

theorem AttrInv.set {F : Facts} {σ : State} (h : AttrInv F σ) (m n : Nat) (v : Option Val)
    (hv : ∀ c, v = some (.mod c) → σ.statusOf c ≠ .absent) : AttrInv F (σ.set F m n v) := by
  intro p n' c hg
  rw [State.statusOf_set]
  by_cases hsame : m = p ∧ n = n'
  · obtain ⟨rfl, rfl⟩ := hsame
    rcases State.get_set_self F σ m n v with h1 | h1
    · rw [h1] at hg; exact hv c hg
    · rw [h1] at hg; exact h _ _ _ hg
  · rw [State.get_set_other F σ m n v p n' hsame] at hg
    exact h _ _ _ hg

theorem AttrInv.setStatus {F : Facts} {σ : State} (h : AttrInv F σ) (c : Nat) (s : Status)
    (hs : s ≠ .absent) : AttrInv F (σ.setStatus c s) := by
  intro p n c' hg
  rw [State.get_setStatus] at hg
  exact (stable_loaded F c').status σ c s hs (h _ _ _ hg)

theorem mem_of_lookup {n : Name} {v : Val} : ∀ {loc : Ns}, lookup n loc = some v → ∃ k, (k, v) ∈ loc
  | [], h => by simp [lookup] at h
  | (k, w) :: r, h => by
    simp only [lookup] at h
    split at h
    · cases h; exact ⟨k, List.mem_cons_self ..⟩
    · obtain ⟨k', hk'⟩ := mem_of_lookup h
      exact ⟨k', List.mem_cons_of_mem _ hk'⟩

theorem mem_erase {n : Name} {x : Name × Val} : ∀ {loc : Ns}, x ∈ erase n loc → x ∈ loc
  | [], h => by simp [erase] at h
  | (k, w) :: r, h => by
    simp only [erase] at h
    split at h
    · exact List.mem_cons_of_mem _ h
    · rcases List.mem_cons.1 h with rfl | h
      · exact List.mem_cons_self ..
      · exact List.mem_cons_of_mem _ (mem_erase h)

theorem LocInv.bind {σ : State} {loc : Ns} (h : LocInv σ loc) (n : Name) (v : Val)
    (hv : ∀ c, v = .mod c → σ.statusOf c ≠ .absent) : LocInv σ (bindNs n v loc) := by
  intro x hx c hc
  unfold bindNs at hx
  rcases List.mem_cons.1 hx with rfl | hx
  · exact hv c hc
  · exact h x (mem_erase hx) c hc

theorem LocInv.erase {σ : State} {loc : Ns} (h : LocInv σ loc) (n : Name) : LocInv σ (erase n loc) :=
  fun x hx c hc => h x (mem_erase hx) c hc

theorem LocInv.mono {σ σ' : State} {loc : Ns} (h : LocInv σ loc)
    (hm : ∀ c, σ.statusOf c ≠ .absent → σ'.statusOf c ≠ .absent) : LocInv σ' loc :=
  fun x hx c hc => hm c (h x hx c hc)

theorem LocInv.nil (σ : State) : LocInv σ [] := by intro x hx; cases hx

theorem bindIn_inv {F : Facts} {σ : State} {loc : Ns} (sc : Scope) (n : Name) (v : Val)
    (h : AttrInv F σ) (hl : LocInv σ loc) (hv : ∀ c, v = .mod c → σ.statusOf c ≠ .absent) :
    AttrInv F (bindIn F sc loc σ n v).1 ∧ LocInv (bindIn F sc loc σ n v).1 (bindIn F sc loc σ n v).2 := by
  unfold bindIn
  split
  · exact ⟨h, hl.bind n v hv⟩
  · refine ⟨h.set _ _ _ ?_, hl.mono (fun c hc => by simpa using hc)⟩
    intro c hc
    cases hc
    exact hv c rfl

/-- what the inductive proof needs to know about the import machinery -/
structure ImpGood (F : Facts) (imp : ModId → State → Except Err State) : Prop where
  inv : ∀ c σ σ', AttrInv F σ → imp c σ = .ok σ' → AttrInv F σ'
  grow : ∀ c d σ σ', σ.statusOf d ≠ .absent → imp c σ = .ok σ' → σ'.statusOf d ≠ .absent
  loaded : ∀ c σ σ', imp c σ = .ok σ' → σ'.statusOf c ≠ .absent

theorem execFrom_inv {F : Facts} {imp : ModId → State → Except Err State} (himp : ImpGood F imp)
    (sc : Scope) (m : ModId) (n asn : Name) (loc : Ns) (σ σ' : State) (loc' : Ns)
    (h : AttrInv F σ) (hl : LocInv σ loc)
    (he : execFrom F imp sc m n asn loc σ = .ok (σ', loc')) : AttrInv F σ' ∧ LocInv σ' loc' := by
  unfold execFrom at he
  split at he
  · rename_i v hg
    have := bindIn_inv sc asn v h hl (fun c hc => h m n c (by rw [hg, hc]))
    rw [ok_fst he, ok_snd he] at this
    exact this
  · split at he
    · cases he
    · split at he
      · cases he
      · rename_i c _ _ σ1 hi
        have h1 : AttrInv F σ1 := himp.inv _ _ _ h hi
        have hl1 : LocInv σ1 loc := hl.mono (fun d hd => himp.grow _ _ _ _ hd hi)
        split at he
        · rename_i v hg
          have := bindIn_inv sc asn v h1 hl1 (fun c' hc => h1 m n c' (by rw [hg, hc]))
          rw [ok_fst he, ok_snd he] at this
          exact this
        · have := bindIn_inv sc asn (.mod c) h1 hl1
            (fun c' hc => by cases hc; exact himp.loaded _ _ _ hi)
          rw [ok_fst he, ok_snd he] at this
          exact this

theorem execFroms_inv {F : Facts} {imp : ModId → State → Except Err State} (himp : ImpGood F imp)
    (sc : Scope) (m : ModId) :
    ∀ (ns : List Name) (loc : Ns) (σ σ' : State) (loc' : Ns), AttrInv F σ → LocInv σ loc →
      execFroms F imp sc m ns loc σ = .ok (σ', loc') → AttrInv F σ' ∧ LocInv σ' loc' := by
  intro ns
  induction ns with
  | nil => intro loc σ σ' loc' h hl he; simp only [execFroms] at he; cases he; exact ⟨h, hl⟩
  | cons n r ih =>
    intro loc σ σ' loc' h hl he
    simp only [execFroms] at he
    split at he
    · cases he
    · rename_i σ1 loc1 h1
      obtain ⟨a, b⟩ := execFrom_inv himp _ _ _ _ _ _ _ _ h hl h1
      exact ih _ _ _ _ a b he

theorem execEvs_inv {F : Facts} {imp : ModId → State → Except Err State} (himp : ImpGood F imp)
    (sc : Scope) :
    ∀ (evs : List Ev) (saved : List (State × Ns)) (loc : Ns) (σ σ' : State) (loc' : Ns),
      AttrInv F σ → LocInv σ loc → (∀ s ∈ saved, AttrInv F s.1 ∧ LocInv s.1 s.2) →
      execEvs F imp sc evs saved loc σ = .ok (σ', loc') → AttrInv F σ' ∧ LocInv σ' loc' := by
  intro evs
  induction evs with
  | nil => intro saved loc σ σ' loc' h hl _ he; simp only [execEvs] at he; cases he; exact ⟨h, hl⟩
  | cons ev rest ih =>
    intro saved loc σ σ' loc' h hl hs he
    cases ev with
    | bind n =>
      simp only [execEvs] at he
      obtain ⟨a, b⟩ := bindIn_inv sc n .obj h hl (fun c hc => by cases hc)
      exact ih _ _ _ _ _ a b hs he
    | bindMod n c =>
      simp only [execEvs] at he
      split at he
      · cases he
      · rename_i hst
        obtain ⟨a, b⟩ := bindIn_inv sc n (.mod c) h hl
          (fun c' hc => by cases hc; intro hh; exact hst hh)
        exact ih _ _ _ _ _ a b hs he
    | unbind n =>
      simp only [execEvs] at he
      split at he
      · split at he
        · exact ih _ _ _ _ _ h (hl.erase n) hs he
        · cases he
      · split at he
        · exact ih _ _ _ _ _ (h.set _ _ _ (fun c hc => by cases hc))
            (hl.mono (fun c hc => by simpa using hc)) hs he
        · cases he
    | load n =>
      simp only [execEvs] at he
      split at he
      · exact ih _ _ _ _ _ h hl hs he
      · cases he
    | attr root ch =>
      simp only [execEvs] at he
      split at he
      · cases he
      · split at he
        · exact ih _ _ _ _ _ h hl hs he
        · cases he
    | ensure c =>
      simp only [execEvs] at he
      split at he
      · cases he
      · rename_i σ1 hi
        exact ih _ _ _ _ _ (himp.inv _ _ _ h hi) (hl.mono (fun d hd => himp.grow _ _ _ _ hd hi)) hs he
    | fromName c n a =>
      simp only [execEvs] at he
      split at he
      · cases he
      · rename_i σ1 loc1 h1
        obtain ⟨a', b'⟩ := execFrom_inv himp _ _ _ _ _ _ _ _ h hl h1
        exact ih _ _ _ _ _ a' b' hs he
    | star c =>
      simp only [execEvs] at he
      split at he
      · cases he
      · rename_i σ1 loc1 h1
        obtain ⟨a', b'⟩ := execFroms_inv himp _ _ _ _ _ _ _ h hl h1
        exact ih _ _ _ _ _ a' b' hs he
    | noModule n => simp only [execEvs] at he; cases he
    | enter =>
      simp only [execEvs] at he
      refine ih _ _ _ _ _ h hl ?_ he
      intro s hs'
      rcases List.mem_cons.1 hs' with rfl | hs'
      · exact ⟨h, hl⟩
      · exact hs s hs'
    | leave =>
      simp only [execEvs] at he
      cases saved with
      | nil => simp at he
      | cons sl more =>
        obtain ⟨s, l⟩ := sl
        simp only at he
        obtain ⟨a, b⟩ := hs (s, l) (List.mem_cons_self ..)
        exact ih _ _ _ _ _ a b (fun t ht => hs t (List.mem_cons_of_mem _ ht)) he

theorem importMod_inv (F : Facts) :
    ∀ (k : Nat) (m : ModId) (σ σ' : State), AttrInv F σ → importMod F k m σ = .ok σ' → AttrInv F σ' := by
  intro k
  induction k with
  | zero => intro m σ σ' _ he; simp [importMod] at he
  | succ k ih =>
    intro m σ σ' h he
    simp only [importMod] at he
    split at he
    · cases he
    · split at he
      · split at he
        · cases he
        · rename_i M _ _ σ1 loc1 h1
          have hgood : ImpGood F (importMod F k) :=
            ⟨fun c s s' hs hc => ih c s s' hs hc,
             fun c d s s' hd hc => sys_modules_grow F k c d s s' hd hc,
             fun c s s' hc => loaded_after_import F k c s s' hc⟩
          obtain ⟨h2, _⟩ := execEvs_inv hgood _ _ _ _ _ _ _
            (h.setStatus m .running (by decide)) (LocInv.nil _) (by simp) h1
          have h3 : AttrInv F (σ1.setStatus m .done) := h2.setStatus m .done (by decide)
          split at he
          · cases he; exact h3
          · cases he
            exact h3.set _ _ _ (fun c hc => by cases hc; simp)
      · cases he; exact h

theorem impGood_importMod (F : Facts) (k : Nat) : ImpGood F (importMod F k) :=
  ⟨fun c s s' hs hc => importMod_inv F k c s s' hs hc,
   fun c d s s' hd hc => sys_modules_grow F k c d s s' hd hc,
   fun c s s' hc => loaded_after_import F k c s s' hc⟩

theorem attrInv_init (F : Facts) : AttrInv F State.init := by
  intro p n c h
  simp at h

theorem importEntry_inv (F : Facts) (e : ModId) (σ : State) (h : importEntry F e = .ok σ) : AttrInv F σ :=
  importMod_inv F _ e _ _ (attrInv_init F) h

theorem callFn_inv (F : Facts) (m : ModId) (f : Func) (σ σ' : State) (h : AttrInv F σ)
    (he : callFn F m f σ = .ok σ') : AttrInv F σ' := by
  unfold callFn at he
  split at he
  · cases he
  · rename_i σ1 loc1 h1
    cases he
    exact (execEvs_inv (impGood_importMod F _) _ _ _ _ _ _ _ h (LocInv.nil _) (by simp) h1).1

/-! ## 4. the static import closure bounds what an import loads -/

theorem mem_zipIdx {α} (l : List α) (k i : Nat) (a : α) :
    (i, a) ∈ zipIdx l k ↔ ∃ j, i = k + j ∧ l[j]? = some a := by
  induction l generalizing k with
  | nil => simp [zipIdx]
  | cons b r ih =>
    simp only [zipIdx, List.mem_cons, Prod.mk.injEq, ih]
    constructor
    · rintro (⟨rfl, rfl⟩ | ⟨j, rfl, hj⟩)
      · exact ⟨0, rfl, rfl⟩
      · exact ⟨j + 1, by omega, by simpa using hj⟩
    · rintro ⟨j, rfl, hj⟩
      cases j with
      | zero => left; simp at hj; exact ⟨rfl, hj.symm⟩
      | succ j => right; exact ⟨j, by omega, by simpa using hj⟩


/-- every module in `sys.modules` is a member of the set `S` -/
def Within (S : Nat) (σ : State) : Prop := ∀ c, σ.statusOf c ≠ .absent → memSet S c = true

theorem Within.set {S : Nat} {σ : State} (F : Facts) (m n : Nat) (v : Option Val) (h : Within S σ) :
    Within S (σ.set F m n v) := by
  intro c hc
  rw [State.statusOf_set] at hc
  exact h c hc

theorem Within.setStatus {S : Nat} {σ : State} (c : Nat) (s : Status) (hm : memSet S c = true)
    (h : Within S σ) : Within S (σ.setStatus c s) := by
  intro c' hc
  by_cases hcc : c = c'
  · subst hcc; exact hm
  · rw [State.statusOf_setStatus_other _ _ _ _ hcc] at hc
    exact h c' hc

theorem Within.bindIn {S : Nat} {σ : State} (F : Facts) (sc : Scope) (loc : Ns) (n : Name) (v : Val)
    (h : Within S σ) : Within S (bindIn F sc loc σ n v).1 := by
  unfold Lena.C20.bindIn
  split
  · exact h
  · exact h.set F _ _ _

theorem findChild_mem (p n : Nat) : ∀ (l : List Module) (i c : Nat),
    Facts.findChild p n l i = some c → c ∈ childrenFrom p l i := by
  intro l
  induction l with
  | nil => intro i c h; simp [Facts.findChild] at h
  | cons M r ih =>
    intro i c h
    simp only [Facts.findChild] at h
    simp only [childrenFrom]
    split at h
    · rename_i q hq
      split at h
      · rename_i hb
        simp only [Bool.and_eq_true] at hb
        cases h
        simp [hb.1]
      · split
        · exact List.mem_cons_of_mem _ (ih _ _ h)
        · exact ih _ _ h
    · exact ih _ _ h

theorem childOf_mem_childrenOf (F : Facts) (p n c : Nat) (h : F.childOf p n = some c) :
    c ∈ F.childrenOf p :=
  findChild_mem p n F.mods 0 c h

/-- the import machinery stays within `S` when asked for a member of `S` -/
def ImpWithin (S : Nat) (imp : ModId → State → Except Err State) : Prop :=
  ∀ c, memSet S c = true → ∀ σ σ', Within S σ → imp c σ = .ok σ' → Within S σ'

theorem execFrom_within {F : Facts} {S : Nat} {imp : ModId → State → Except Err State}
    (himp : ImpWithin S imp) (sc : Scope) (m : ModId) (n asn : Name)
    (hc : ∀ c, F.childOf m n = some c → memSet S c = true)
    (loc : Ns) (σ σ' : State) (loc' : Ns) (h : Within S σ)
    (he : execFrom F imp sc m n asn loc σ = .ok (σ', loc')) : Within S σ' := by
  unfold execFrom at he
  split at he
  · rw [← ok_fst he]; exact h.bindIn F _ _ _ _
  · split at he
    · cases he
    · split at he
      · cases he
      · rename_i c hch _ σ1 hi
        have h1 : Within S σ1 := himp c (hc c hch) _ _ h hi
        split at he
        · rw [← ok_fst he]; exact h1.bindIn F _ _ _ _
        · rw [← ok_fst he]; exact h1.bindIn F _ _ _ _

theorem execFroms_within {F : Facts} {S : Nat} {imp : ModId → State → Except Err State}
    (himp : ImpWithin S imp) (sc : Scope) (m : ModId)
    (hc : ∀ n c, F.childOf m n = some c → memSet S c = true) :
    ∀ (ns : List Name) (loc : Ns) (σ σ' : State) (loc' : Ns), Within S σ →
      execFroms F imp sc m ns loc σ = .ok (σ', loc') → Within S σ' := by
  intro ns
  induction ns with
  | nil => intro loc σ σ' loc' h he; simp only [execFroms] at he; cases he; exact h
  | cons n r ih =>
    intro loc σ σ' loc' h he
    simp only [execFroms] at he
    split at he
    · cases he
    · rename_i σ1 loc1 h1
      exact ih _ _ _ _ (execFrom_within himp _ _ _ _ (hc n) _ _ _ _ h h1) he

theorem execEvs_within {F : Facts} {S : Nat} {imp : ModId → State → Except Err State}
    (himp : ImpWithin S imp) (sc : Scope) :
    ∀ (evs : List Ev) (saved : List (State × Ns)) (loc : Ns) (σ σ' : State) (loc' : Ns),
      (∀ e ∈ evs, ∀ t ∈ evTargets F e, memSet S t = true) →
      Within S σ → (∀ s ∈ saved, Within S s.1) →
      execEvs F imp sc evs saved loc σ = .ok (σ', loc') → Within S σ' := by
  intro evs
  induction evs with
  | nil => intro saved loc σ σ' loc' _ h _ he; simp only [execEvs] at he; cases he; exact h
  | cons ev rest ih =>
    intro saved loc σ σ' loc' hT h hs he
    have hTr : ∀ e ∈ rest, ∀ t ∈ evTargets F e, memSet S t = true :=
      fun e he' => hT e (List.mem_cons_of_mem _ he')
    have hT0 : ∀ t ∈ evTargets F ev, memSet S t = true := hT ev (List.mem_cons_self ..)
    cases ev with
    | bind n =>
      simp only [execEvs] at he
      exact ih _ _ _ _ _ hTr (h.bindIn F _ _ _ _) hs he
    | bindMod n c =>
      simp only [execEvs] at he
      split at he
      · cases he
      · exact ih _ _ _ _ _ hTr (h.bindIn F _ _ _ _) hs he
    | unbind n =>
      simp only [execEvs] at he
      split at he
      · split at he
        · exact ih _ _ _ _ _ hTr h hs he
        · cases he
      · split at he
        · exact ih _ _ _ _ _ hTr (h.set F _ _ _) hs he
        · cases he
    | load n =>
      simp only [execEvs] at he
      split at he
      · exact ih _ _ _ _ _ hTr h hs he
      · cases he
    | attr root ch =>
      simp only [execEvs] at he
      split at he
      · cases he
      · split at he
        · exact ih _ _ _ _ _ hTr h hs he
        · cases he
    | ensure c =>
      simp only [execEvs] at he
      split at he
      · cases he
      · rename_i σ1 hi
        have hc : memSet S c = true := hT0 c (by simp [evTargets])
        exact ih _ _ _ _ _ hTr (himp c hc _ _ h hi) hs he
    | fromName c n a =>
      simp only [execEvs] at he
      split at he
      · cases he
      · rename_i σ1 loc1 h1
        have hc : ∀ d, F.childOf c n = some d → memSet S d = true := by
          intro d hd
          exact hT0 d (by simp [evTargets, hd])
        exact ih _ _ _ _ _ hTr (execFrom_within himp _ _ _ _ hc _ _ _ _ h h1) hs he
    | star c =>
      simp only [execEvs] at he
      split at he
      · cases he
      · rename_i σ1 loc1 h1
        have hc : ∀ n d, F.childOf c n = some d → memSet S d = true := by
          intro n d hd
          exact hT0 d (by simp only [evTargets]; exact childOf_mem_childrenOf F c n d hd)
        exact ih _ _ _ _ _ hTr (execFroms_within himp _ _ hc _ _ _ _ _ h h1) hs he
    | noModule n => simp only [execEvs] at he; cases he
    | enter =>
      simp only [execEvs] at he
      refine ih _ _ _ _ _ hTr h ?_ he
      intro s hs'
      rcases List.mem_cons.1 hs' with rfl | hs'
      · exact h
      · exact hs s hs'
    | leave =>
      simp only [execEvs] at he
      cases saved with
      | nil => simp at he
      | cons sl more =>
        obtain ⟨s, l⟩ := sl
        simp only at he
        exact ih _ _ _ _ _ hTr (hs (s, l) (List.mem_cons_self ..))
          (fun t ht => hs t (List.mem_cons_of_mem _ ht)) he

theorem closed_targets {F : Facts} {S : Nat} (hS : closedSetB F S = true) (m : ModId) (M : Module)
    (hm : memSet S m = true) (hM : F.modOf m = some M) :
    ∀ e ∈ M.evs, ∀ t ∈ evTargets F e, memSet S t = true := by
  unfold closedSetB at hS
  rw [List.all_eq_true] at hS
  have := hS (m, M) ((mem_zipIdx _ _ _ _).2 ⟨m, by omega, hM⟩)
  simp only [hm, Bool.not_true, Bool.false_or, List.all_eq_true] at this
  exact this

/-- **an import never leaves a closed set**: if `S` contains `m` and, with every module, the import
targets of its module-level code, then importing `m` — whatever the order in which circular
imports are resolved — puts only members of `S` into `sys.modules` -/
theorem importMod_within {F : Facts} {S : Nat} (hS : closedSetB F S = true) :
    ∀ (k : Nat) (m : ModId) (σ σ' : State), memSet S m = true → Within S σ →
      importMod F k m σ = .ok σ' → Within S σ' := by
  intro k
  induction k with
  | zero => intro m σ σ' _ _ he; simp [importMod] at he
  | succ k ih =>
    intro m σ σ' hm h he
    simp only [importMod] at he
    split at he
    · cases he
    · rename_i M hM
      split at he
      · split at he
        · cases he
        · rename_i σ1 loc1 h1
          have hk : ImpWithin S (importMod F k) := fun c hc s s' hs hi => ih c s s' hc hs hi
          have h2 : Within S σ1 := execEvs_within hk _ _ _ _ _ _ _
            (closed_targets hS m M hm hM) (h.setStatus m .running hm) (by simp) h1
          have h3 : Within S (σ1.setStatus m .done) := h2.setStatus m .done hm
          split at he
          · cases he; exact h3
          · cases he; exact h3.set F _ _ _
      · cases he; exact h

theorem within_init (S : Nat) : Within S State.init := by
  intro c hc; simp at hc

end Lena.C20
