import LenaModel.Model.C02Src
import LenaModel.Lemmas.C02
import LenaModel.Lemmas.C02Spec
import LenaModel.Lemmas.C02Sim
/-! # C02 — where the flow comes from: the chain of iterables and the `Source`s inside a `Split`
realise their stamped flows (`chain_produces`, `splice_produces`), and neither can tell an infinite
iterable from a long enough prefix of it (`chain_pipeSim`, `splice_pipeSim`). -/

namespace Lena.C02

variable {σ σ1 σ2 α : Type}

/-! ## `Chain.__call__` / `Split.__call__` -/

/-- one `next` of the chain, given more iterations than there are iterables left -/
theorem chain_call : ∀ (ps : List (List α)) (c i n : Nat), ps.length < n →
    (match chainStamps ps c with
     | [] => iter (chainStep (α := α)) n { parts := ps, tail := none, idx := i, clock := c }
          = .done { parts := [], tail := none, idx := i, clock := chainEnd ps c }
     | (b, st) :: rest => ∃ ps', iter (chainStep (α := α)) n { parts := ps, tail := none, idx := i, clock := c }
          = .item b { parts := ps', tail := none, idx := i, clock := st } ∧ rest = chainStamps ps' st ∧
          chainEnd ps' st = chainEnd ps c ∧ ps'.length ≤ ps.length)
  | [], c, i, n, hn => by
    obtain ⟨m, rfl⟩ : ∃ m, n = m + 1 := ⟨n - 1, by omega⟩
    simp only [chainStamps, chainEnd]
    exact iter_stop m rfl
  | [] :: ps, c, i, n, hn => by
    obtain ⟨m, rfl⟩ : ∃ m, n = m + 1 := ⟨n - 1, by simp at hn; omega⟩
    have ih := chain_call ps (c + 1) i m (by simpa using hn)
    have hs : chainStamps ([] :: ps) c = chainStamps ps (c + 1) := by simp [chainStamps, stamps]
    have he : chainEnd ([] :: ps) c = chainEnd ps (c + 1) := by simp [chainEnd]
    rw [hs, he]
    have hc : iter (chainStep (α := α)) (m + 1) { parts := [] :: ps, tail := none, idx := i, clock := c }
        = iter chainStep m { parts := ps, tail := none, idx := i, clock := c + 1 } := iter_cont m rfl
    rw [hc]
    cases h : chainStamps ps (c + 1) with
    | nil => rw [h] at ih; exact ih
    | cons q rest =>
      rw [h] at ih
      obtain ⟨ps', h1, h2, h3, h4⟩ := ih
      exact ⟨ps', h1, h2, h3, by simp; omega⟩
  | (a :: r) :: ps, c, i, n, hn => by
    obtain ⟨m, rfl⟩ : ∃ m, n = m + 1 := ⟨n - 1, by simp at hn; omega⟩
    have hs : chainStamps ((a :: r) :: ps) c = (a, c + 1) :: chainStamps (r :: ps) (c + 1) := by
      simp only [chainStamps, stamps, List.length_cons, List.cons_append]
      congr 3
      omega
    have he : chainEnd ((a :: r) :: ps) c = chainEnd (r :: ps) (c + 1) := by
      simp only [chainEnd, List.length_cons]
      congr 1
      omega
    rw [hs]
    exact ⟨r :: ps, iter_yield m rfl, rfl, he.symm, by simp⟩

/-- **`chain_produces`** — the chain of instrumented iterables realises `SF.ofChain`: value after value,
iterable after iterable, one pull per value and one per exhausted iterable, nothing in advance -/
theorem chain_produces (fu : Nat) (ps : List (List α)) (c i : Nat) (hfu : ps.length < fu) :
    Produces (chainSrc (α := α)) ChainSt.clock fu { parts := ps, tail := none, idx := i, clock := c }
      (chainStamps ps c) (chainEnd ps c) := by
  refine produces_of_calls chainSrc ChainSt.clock fu
    (fun t outs cf => t.tail = none ∧ t.parts.length < fu ∧ outs = chainStamps t.parts t.clock ∧
      cf = chainEnd t.parts t.clock) ?_ ?_ _ _ _ ⟨rfl, hfu, rfl, rfl⟩
  · rintro ⟨ps', tl, i', c'⟩ cf ⟨h1, h2, h3, h4⟩
    simp only at h1 h2 h3 h4
    subst h1 h4
    have key := chain_call ps' c' i' fu h2
    rw [← h3] at key
    obtain ⟨m, rfl⟩ : ∃ m, fu = m + 1 := ⟨fu - 1, by omega⟩
    exact ⟨_, key, iter_stop m rfl, rfl⟩
  · rintro ⟨ps', tl, i', c'⟩ b st rest cf ⟨h1, h2, h3, h4⟩
    simp only at h1 h2 h3 h4
    subst h1 h4
    have key := chain_call ps' c' i' fu h2
    rw [← h3] at key
    obtain ⟨ps'', k1, k2, k3, k4⟩ := key
    exact ⟨_, k1, rfl, rfl, by show ps''.length < fu; omega, k2, k3.symm⟩

/-! ### an infinite last iterable and its prefix -/

/-- `f i, …, f (n - 1)` -/
def fnRest (f : Nat → α) (n i : Nat) : List α := (List.range' i (n - i)).map f

theorem fnRest_lt (f : Nat → α) {n i : Nat} (h : i < n) : fnRest f n i = f i :: fnRest f n (i + 1) := by
  unfold fnRest
  obtain ⟨k, hk⟩ : ∃ k, n - i = k + 1 := ⟨n - i - 1, by omega⟩
  have hk' : n - (i + 1) = k := by omega
  rw [hk, hk']
  simp [List.range'_succ]

theorem fnRest_ge (f : Nat → α) {n i : Nat} (h : n ≤ i) : fnRest f n i = [] := by
  unfold fnRest
  have : n - i = 0 := by omega
  simp [this]

theorem fnRest_zero (f : Nat → α) (n : Nat) : fnRest f n 0 = prefixOf f n := by
  simp [fnRest, prefixOf, List.range_eq_range']

/-- a generator is indistinguishable from itself -/
theorem pipeSim_refl (fu n : Nat) (p : Pipe α) : PipeSim fu n p p := by
  refine ⟨Eq, fun _ => False, ⟨?_, ?_⟩, rfl, ?_, ?_⟩
  · rintro s1 s2 rfl
    cases h : p.gen.next fu s1 with
    | item a s => left; exact ⟨rfl, rfl⟩
    | done s => left; exact rfl
    | fuel => right; trivial
    | error e => right; trivial
  · intro s2 h; exact h.elim
  · rintro s1 s2 rfl; rfl
  · intro s2 h; exact h.elim

/-- **`chain_pipeSim`** — a chain whose last iterable is infinite and the same chain with that iterable cut
after `n` values are indistinguishable while the clock is at most `n` -/
theorem chain_pipeSim (h : Head α) (n fu : Nat) :
    PipeSim fu n (Pipe.ofHead h) (Pipe.ofHead { parts := h.trunc n, tail := none }) := by
  obtain ⟨parts, tl⟩ := h
  cases tl with
  | none => exact pipeSim_refl fu n _
  | some f =>
    refine ⟨fun s1 s2 => s1.tail = some f ∧ s2.tail = none ∧ s1.clock = s2.clock ∧ s1.idx ≤ s1.clock ∧ s1.idx ≤ n ∧
        s2.parts = s1.parts ++ [fnRest f n s1.idx],
      fun s2 => s2.parts = [] ∧ s2.tail = none ∧ n < s2.clock,
      sim_ofStep (step1 := fun _ => chainStep) (step2 := fun _ => chainStep) ⟨?_, ?_⟩, ?_, ?_, ?_⟩
    · rintro ⟨ps1, t1, i1, c1⟩ ⟨ps2, t2, i2, c2⟩ ⟨h1, h2, h3, h4, h5, h6⟩
      simp only at h1 h2 h3 h4 h5 h6
      subst h1 h2 h3 h6
      match ps1 with
      | (a :: r) :: ps =>
        left
        simp [chainStep, StepRel]
        omega
      | [] :: ps =>
        left
        simp [chainStep, StepRel]
        omega
      | [] =>
        by_cases hi : i1 < n
        · left
          simp [chainStep, fnRest_lt f hi, StepRel]
          omega
        · right
          simp [chainStep, fnRest_ge f (Nat.le_of_not_lt hi), StepDead]
          omega
    · rintro ⟨ps2, t2, i2, c2⟩ ⟨h1, h2, h3⟩
      simp only at h1 h2 h3
      subst h1 h2
      simp [chainStep, StepDead]
      exact h3
    · exact ⟨rfl, rfl, rfl, Nat.le_refl _, Nat.zero_le _, by simp [Pipe.ofHead, Head.trunc, fnRest_zero]⟩
    · rintro s1 s2 ⟨_, _, h3, _⟩
      exact h3
    · rintro s2 ⟨_, _, h3⟩
      exact h3

/-! ## `Source`s inside a `Split`: `for val in seq(): yield val` -/

/-- not inside the loop over an infinite `Source` -/
def BCur.Fin : BCur α → Prop
  | .inf _ _ => False
  | _ => True

/-- what the loop over the current `Source` still yields, started at clock `c` -/
def BCur.outs : BCur α → Nat → List (α × Nat)
  | .fin r, c => stamps r c
  | _, _ => []

/-- the pulls it still makes -/
def BCur.left : BCur α → Nat
  | .fin r => r.length + 1
  | _ => 0

/-- every `Source` is finite -/
def SrcsFin (srcs : Nat → BSrc α) : Prop := ∀ j, ∃ xs, srcs j = .fin xs

theorem SrcsFin.start {srcs : Nat → BSrc α} (h : SrcsFin srcs) (j : Nat) : (srcs j).start = .fin (srcs j).list := by
  obtain ⟨xs, hx⟩ := h j
  rw [hx]
  rfl

/-- what is still to come from local state `l`, when the clock of upstream is `c` and upstream will
still produce `vals` -/
def spExpect (mark : α → Option Nat) (srcs : Nat → BSrc α) (l : SpSt α) (c : Nat) (vals : List (α × Nat)) :
    List (α × Nat) :=
  l.cur.outs (c + l.ticks) ++ spliceVals mark srcs (l.ticks + l.cur.left) vals

/-- the clock at the end -/
def spEnd (mark : α → Option Nat) (srcs : Nat → BSrc α) (l : SpSt α) (cf : Nat) (vals : List (α × Nat)) : Nat :=
  cf + (l.ticks + l.cur.left + spliceTicks mark srcs vals)

/-- one `next` from local state `l` with `n` loop iterations allowed -/
def SpCall (mark : α → Option Nat) (srcs : Nat → BSrc α) (up : Gen σ α) (cnt : σ → Nat) (fu : Nat)
    (s : σ) (vals : List (α × Nat)) (cf : Nat) (l : SpSt α) (n : Nat) : Prop :=
  match spExpect mark srcs l (cnt s) vals with
  | [] => ∃ s' t', iter (spliceStep mark srcs up fu) n (s, l) = .done (s', { cur := .none, ticks := t' }) ∧
      up.next fu s' = .done s' ∧ cnt s' + t' = spEnd mark srcs l cf vals
  | (b, c) :: rest => ∃ s' l' vals', iter (spliceStep mark srcs up fu) n (s, l) = .item b (s', l') ∧
      cnt s' + l'.ticks = c ∧ Produces up cnt fu s' vals' cf ∧ vals'.length ≤ vals.length ∧ l'.cur.Fin ∧
      rest = spExpect mark srcs l' (cnt s') vals' ∧ spEnd mark srcs l' cf vals' = spEnd mark srcs l cf vals

theorem spCall_of_none (mark : α → Option Nat) (srcs : Nat → BSrc α) (up : Gen σ α) (cnt : σ → Nat) (fu : Nat)
    {s : σ} {vals : List (α × Nat)} {cf : Nat} (hP : Produces up cnt fu s vals cf)
    (hnone : ∀ t n, 2 * vals.length + 2 ≤ n → SpCall mark srcs up cnt fu s vals cf { cur := .none, ticks := t } n) :
    ∀ (l : SpSt α) (n : Nat), l.cur.Fin → 2 * vals.length + 3 ≤ n → SpCall mark srcs up cnt fu s vals cf l n := by
  rintro ⟨cur, t⟩ n hf hn
  cases cur with
  | none => exact hnone t n (by omega)
  | inf f i => exact hf.elim
  | fin r =>
    obtain ⟨m, rfl⟩ : ∃ m, n = m + 1 := ⟨n - 1, by omega⟩
    cases r with
    | nil =>
      have key := hnone (t + 1) m (by omega)
      have hexp : spExpect mark srcs { cur := .fin [], ticks := t } (cnt s) vals
          = spExpect mark srcs { cur := .none, ticks := t + 1 } (cnt s) vals := by
        simp [spExpect, BCur.outs, BCur.left, stamps]
      have hend : spEnd mark srcs { cur := .fin [], ticks := t } cf vals
          = spEnd mark srcs { cur := .none, ticks := t + 1 } cf vals := by
        simp [spEnd, BCur.left]
      have hit : iter (spliceStep mark srcs up fu) (m + 1) (s, { cur := .fin [], ticks := t })
          = iter (spliceStep mark srcs up fu) m (s, { cur := .none, ticks := t + 1 }) := iter_cont m rfl
      unfold SpCall at key ⊢
      rw [hexp, hend, hit]
      exact key
    | cons a r' =>
      have hexp : spExpect mark srcs { cur := .fin (a :: r'), ticks := t } (cnt s) vals
          = (a, cnt s + (t + 1)) :: spExpect mark srcs { cur := .fin r', ticks := t + 1 } (cnt s) vals := by
        simp only [spExpect, BCur.outs, BCur.left, stamps, List.length_cons, List.cons_append]
        rw [show t + (r'.length + 1 + 1) = t + 1 + (r'.length + 1) by omega]
        rfl
      unfold SpCall
      rw [hexp]
      refine ⟨s, { cur := .fin r', ticks := t + 1 }, vals, iter_yield m rfl, rfl, hP, Nat.le_refl _, trivial, rfl, ?_⟩
      simp only [spEnd, BCur.left, List.length_cons]
      omega

/-- one `next` of the loop over the results of `Split.run` proper and its `Source`s -/
theorem splice_call (mark : α → Option Nat) (srcs : Nat → BSrc α) (hfin : SrcsFin srcs) (up : Gen σ α)
    (cnt : σ → Nat) (fu : Nat) :
    ∀ {s vals cf}, Produces up cnt fu s vals cf →
      ∀ (l : SpSt α) (n : Nat), l.cur.Fin → 2 * vals.length + 3 ≤ n → SpCall mark srcs up cnt fu s vals cf l n := by
  intro s vals cf h
  replace h : Feeds up cnt fu s vals (some cf) := h
  generalize he : some cf = e at h
  induction h with
  | more => cases he
  | @done s s' h1 h2 =>
    cases he
    refine spCall_of_none mark srcs up cnt fu (Feeds.done h1 h2) ?_
    intro t n hn
    obtain ⟨m, rfl⟩ : ∃ m, n = m + 1 := ⟨n - 1, by omega⟩
    have hexp : spExpect mark srcs { cur := .none, ticks := t } (cnt s) ([] : List (α × Nat)) = [] := by
      simp [spExpect, BCur.outs, spliceVals]
    unfold SpCall
    rw [hexp]
    refine ⟨s', t, iter_stop m (by simp [spliceStep, h1]), h2, ?_⟩
    simp [spEnd, BCur.left, spliceTicks]
  | @item s s' a rest e hi hrest ih =>
    cases he
    refine spCall_of_none mark srcs up cnt fu (Feeds.item hi hrest) ?_
    intro t n hn
    obtain ⟨m, rfl⟩ : ∃ m, n = m + 1 := ⟨n - 1, by omega⟩
    simp only [List.length_cons] at hn
    cases hm : mark a with
    | none =>
      have hexp : spExpect mark srcs { cur := .none, ticks := t } (cnt s) ((a, cnt s') :: rest)
          = (a, cnt s' + t) :: spExpect mark srcs { cur := .none, ticks := t } (cnt s') rest := by
        simp [spExpect, BCur.outs, BCur.left, spliceVals, hm]
      unfold SpCall
      rw [hexp]
      refine ⟨s', { cur := .none, ticks := t }, rest, iter_yield m (by simp [spliceStep, hi, hm]), rfl, hrest,
        by simp, trivial, rfl, ?_⟩
      simp [spEnd, spliceTicks, hm]
    | some j =>
      have key := ih rfl { cur := .fin (srcs j).list, ticks := t } m trivial (by omega)
      have hexp : spExpect mark srcs { cur := .none, ticks := t } (cnt s) ((a, cnt s') :: rest)
          = spExpect mark srcs { cur := .fin (srcs j).list, ticks := t } (cnt s') rest := by
        simp only [spExpect, BCur.outs, BCur.left, spliceVals, hm, List.nil_append, Nat.add_zero]
        congr 2 <;> omega
      have hend : spEnd mark srcs { cur := .none, ticks := t } cf ((a, cnt s') :: rest)
          = spEnd mark srcs { cur := .fin (srcs j).list, ticks := t } cf rest := by
        simp [spEnd, BCur.left, spliceTicks, hm]
        exact (Nat.add_assoc _ _ _).symm
      have hit : iter (spliceStep mark srcs up fu) (m + 1) (s, { cur := .none, ticks := t })
          = iter (spliceStep mark srcs up fu) m (s', { cur := .fin (srcs j).list, ticks := t }) :=
        iter_cont m (by simp [spliceStep, hi, hm, hfin.start j])
      unfold SpCall at key ⊢
      rw [hexp, hend, hit]
      cases hx : spExpect mark srcs { cur := .fin (srcs j).list, ticks := t } (cnt s') rest with
      | nil => rw [hx] at key; exact key
      | cons q tl =>
        rw [hx] at key
        obtain ⟨s'', l', vals', k1, k2, k3, k4, k5, k6, k7⟩ := key
        exact ⟨s'', l', vals', k1, k2, k3, by simp; omega, k5, k6, k7⟩

/-- **`splice_produces`** — `Split.run` with `Source`s among its sequences: where the `Source` is reached its
values are handed downstream one per pull from it (nothing of it is produced in advance), its end costs one
more pull, and everything else comes at the stamp `Split.run` proper gives it, later by the pulls from the
`Source`s so far. -/
theorem splice_produces (mark : α → Option Nat) (srcs : Nat → BSrc α) (hfin : SrcsFin srcs) (up : Gen σ α)
    (cnt : σ → Nat) (fu : Nat) {s : σ} {vals : List (α × Nat)} {cf : Nat}
    (h : Produces up cnt fu s vals cf) (hfu : 2 * vals.length + 3 ≤ fu) :
    Produces (spliceG mark srcs up) (fun t => cnt t.1 + t.2.ticks) fu (s, { cur := .none, ticks := 0 })
      (spliceSpec mark srcs ⟨cnt s, vals, cf⟩).vals (spliceSpec mark srcs ⟨cnt s, vals, cf⟩).cf := by
  have hpos : 0 < fu := by omega
  refine produces_of_calls (spliceG mark srcs up) (fun t => cnt t.1 + t.2.ticks) fu
    (fun t outs cfT => ∃ vals', Produces up cnt fu t.1 vals' cf ∧ 2 * vals'.length + 3 ≤ fu ∧ t.2.cur.Fin ∧
      outs = spExpect mark srcs t.2 (cnt t.1) vals' ∧ cfT = spEnd mark srcs t.2 cf vals') ?_ ?_ _ _ _
    ⟨vals, h, hfu, trivial, by simp [spliceSpec, spExpect, BCur.outs, BCur.left],
      by simp [spliceSpec, spEnd, BCur.left]⟩
  · rintro ⟨t, l⟩ cfT ⟨vals', h', hfu', hl, ho, hc⟩
    have key := splice_call mark srcs hfin up cnt fu h' l fu hl hfu'
    unfold SpCall at key
    simp only at ho
    rw [← ho] at key
    obtain ⟨s', t', k1, k2, k3⟩ := key
    exact ⟨(s', { cur := .none, ticks := t' }), k1, ofStep_stop hpos (by simp [spliceStep, k2]), by rw [hc]; exact k3⟩
  · rintro ⟨t, l⟩ b c rest cfT ⟨vals', h', hfu', hl, ho, hc⟩
    have key := splice_call mark srcs hfin up cnt fu h' l fu hl hfu'
    unfold SpCall at key
    simp only at ho
    rw [← ho] at key
    obtain ⟨s', l', vals'', k1, k2, k3, k4, k5, k6, k7⟩ := key
    exact ⟨(s', l'), k1, k2, vals'', k3, by omega, k5, k6, by rw [hc, k7]⟩

/-! ### an infinite `Source` and its prefix; naturality in upstream -/

/-- the loop over a `Source` that was cut after `n` values -/
def BCur.trunc (n : Nat) : BCur α → BCur α
  | .none => .none
  | .fin r => .fin r
  | .inf f i => .fin (fnRest f n i)

theorem BSrc.start_trunc (n : Nat) (b : BSrc α) : (b.trunc n).start = b.start.trunc n := by
  cases b <;> simp [BSrc.trunc, BSrc.start, BCur.trunc, fnRest_zero]

/-- inside the loop over an infinite `Source`: it has not produced more than `n` values, and every one
of them was a tick -/
def BCur.idxOK (n ticks : Nat) : BCur α → Prop
  | .inf _ i => i ≤ n ∧ i ≤ ticks
  | _ => True

def spR (n : Nat) (R : σ1 → σ2 → Prop) : σ1 × SpSt α → σ2 × SpSt α → Prop :=
  fun t1 t2 => R t1.1 t2.1 ∧ t2.2.ticks = t1.2.ticks ∧ t2.2.cur = t1.2.cur.trunc n ∧ t1.2.cur.idxOK n t1.2.ticks

def spDead (n : Nat) (dead : σ2 → Prop) : σ2 × SpSt α → Prop := fun t2 => dead t2.1 ∨ n < t2.2.ticks

theorem splice_stepSim {up1 : Gen σ1 α} {up2 : Gen σ2 α} {fu : Nat} {R : σ1 → σ2 → Prop} {dead : σ2 → Prop}
    (mark : α → Option Nat) (srcs : Nat → BSrc α) (n : Nat) (h : Sim up1 up2 fu R dead) :
    StepSim (spliceStep mark srcs up1 fu) (spliceStep mark (fun j => (srcs j).trunc n) up2 fu) (spR n R)
      (spDead n dead) := by
  constructor
  · rintro ⟨s1, ⟨cur1, t1⟩⟩ ⟨s2, ⟨cur2, t2⟩⟩ ⟨hR, ht, hc, hi⟩
    simp only at hR ht hc hi
    subst ht hc
    cases cur1 with
    | none =>
      rcases h.cases hR with ⟨a, s1', s2', h1, h2, hr⟩ | ⟨s1', s2', h1, h2, hr⟩ | hd
      · left
        simp only [spliceStep, BCur.trunc, h1, h2]
        cases hm : mark a with
        | none => exact ⟨rfl, hr, rfl, rfl, trivial⟩
        | some j =>
          refine ⟨hr, rfl, BSrc.start_trunc n (srcs j), ?_⟩
          cases srcs j <;> simp [BSrc.start, BCur.idxOK]
      · left
        simp only [spliceStep, BCur.trunc, h1, h2]
        exact ⟨hr, rfl, rfl, trivial⟩
      · right
        revert hd
        cases h2 : up2.next fu s2 <;> intro hd <;> simp only [spliceStep, BCur.trunc, h2] <;>
          (try split) <;> simp_all [StepDead, OutDead, spDead]
    | fin r =>
      left
      cases r with
      | nil => exact ⟨hR, rfl, rfl, trivial⟩
      | cons a r' => exact ⟨rfl, hR, rfl, rfl, trivial⟩
    | inf f i =>
      obtain ⟨hi1, hi2⟩ := hi
      by_cases hlt : i < n
      · left
        simp only [spliceStep, BCur.trunc, fnRest_lt f hlt]
        exact ⟨rfl, hR, rfl, rfl, by omega, by show i + 1 ≤ t2 + 1; omega⟩
      · right
        simp only [spliceStep, BCur.trunc, fnRest_ge f (Nat.le_of_not_lt hlt), StepDead, spDead]
        right
        omega
  · rintro ⟨s2, ⟨cur2, t2⟩⟩ hd
    cases cur2 with
    | none =>
      rcases hd with hd | hd
      · have := h.mono s2 hd
        revert this
        cases h2 : up2.next fu s2 <;> intro hd' <;> simp only [spliceStep, h2] <;>
          (try split) <;> simp_all [StepDead, OutDead, spDead]
      · simp only at hd
        cases h2 : up2.next fu s2 <;> simp only [spliceStep, h2] <;>
          (try split) <;> simp_all [StepDead, spDead]
    | fin r =>
      cases r with
      | nil =>
        simp only [spliceStep, StepDead, spDead]
        rcases hd with hd | hd
        · exact Or.inl hd
        · right; simp only at hd ⊢; omega
      | cons a r' =>
        simp only [spliceStep, StepDead, spDead]
        rcases hd with hd | hd
        · exact Or.inl hd
        · right; simp only at hd ⊢; omega
    | inf f i =>
      simp only [spliceStep, StepDead, spDead]
      rcases hd with hd | hd
      · exact Or.inl hd
      · right; simp only at hd ⊢; omega

/-- **`splice_pipeSim`** — the iteration of the `Source`s of a `Split` is natural in its upstream iterator, and
it cannot tell an infinite `Source` from the same `Source` cut after `n` values while the clock is at most `n` -/
theorem splice_pipeSim (mark : α → Option Nat) (srcs : Nat → BSrc α) (fu n : Nat) (p1 p2 : Pipe α)
    (h : PipeSim fu n p1 p2) :
    PipeSim fu n (splicePipe mark srcs p1) (splicePipe mark (fun j => (srcs j).trunc n) p2) := by
  obtain ⟨R, dead, hs, h0, hc, hd⟩ := h
  refine ⟨spR n R, spDead n dead, sim_ofStep (splice_stepSim mark srcs n hs), ⟨h0, rfl, rfl, trivial⟩, ?_, ?_⟩
  · rintro ⟨s1, l1⟩ ⟨s2, l2⟩ ⟨hR, ht, _, _⟩
    simp only at hR ht
    show p1.clock s1 + l1.ticks = p2.clock s2 + l2.ticks
    rw [hc s1 s2 hR, ht]
  · rintro ⟨s2, l2⟩ hdd
    show n < p2.clock s2 + l2.ticks
    rcases hdd with hdd | hdd
    · have := hd s2 hdd
      omega
    · simp only at hdd
      omega

end Lena.C02
