import LenaModel.Lemmas.C04Local
/-! # C04 — freshness over histories for accumulators with several namespaces: `Split([accumulator, …])` used
through `fill` / `compute` / `request` -/

namespace Lena.C04

open Lena.C03 (Kind)
open Lena.Flow (Value)

variable {σ S C : Type}

/-! ## the tests of the driver decide `SchedOK` / `FillOK` -/

theorem listEqb_iff {α : Type} (eq : α → α → Bool) (h : ∀ a b, eq a b = true ↔ a = b) :
    ∀ l m : List α, listEqb eq l m = true ↔ l = m
  | [], [] => by simp [listEqb]
  | [], _ :: _ => by simp [listEqb]
  | _ :: _, [] => by simp [listEqb]
  | a :: l, b :: m => by simp [listEqb, h, listEqb_iff eq h l m]

theorem itemEqb_iff (eqS : S → S → Bool) (h : ∀ a b, eqS a b = true ↔ a = b) (x y : Item S) :
    itemEqb eqS x y = true ↔ x = y := by
  cases x; cases y
  simp [itemEqb, h]

/-- the test decides `SchedOK` when `eqS` decides equality -/
theorem schedOKb_iff (eqS : S → S → Bool) (h : ∀ a b, eqS a b = true ↔ a = b) (i : Nat)
    (e : List (Item S) × List (Item S) × Bool) : schedOKb eqS i e = true ↔ SchedOK i e := by
  obtain ⟨bl, buf, c⟩ := e
  simp only [schedOKb, SchedOK, Bool.and_eq_true, Bool.or_eq_true, listEqb_iff eqS h,
    listEqb_iff (itemEqb eqS) (itemEqb_iff eqS h), Bool.not_eq_true', List.all_eq_true, beq_iff_eq]
  cases c <;> simp [and_assoc]

theorem fillOKb_iff (eqS : S → S → Bool) (h : ∀ a b, eqS a b = true ↔ a = b) (i : Nat)
    (e : Item S × Item S × Bool) : fillOKb eqS i e = true ↔ FillOK i e := by
  obtain ⟨x, y, c⟩ := e
  simp only [fillOKb, FillOK, Bool.and_eq_true, Bool.or_eq_true, h, itemEqb_iff eqS h, Bool.not_eq_true',
    List.all_eq_true, beq_iff_eq]
  cases c <;> simp [and_assoc]

/-- every context yielded in a history is new, for an accumulator in the general form `FreshYieldG` -/
theorem hist_fresh_G (ops : Ops σ S C) (Inv : σ → Prop) (Old : σ → Tok → Prop) (hF : FreshYieldG ops Inv Old) :
    ∀ (h : List (HOp σ S C)) (st : Store C) (s : σ), Inv s →
      (∀ r, HOp.req r ∈ h → r.isAcc = true) →
      (∀ g, HOp.upd g ∈ h → ∀ s, (Inv s → Inv (g s)) ∧ ∀ t, Old s t → Old (g s) t) →
      FilledOld ops Old st s h →
      ∀ pre e post, runHist ops (fun _ => 0) st s h = pre ++ e :: post →
        (cellsOf e.resp.outs).Nodup ∧
        (∀ t ∈ cellsOf e.resp.outs, ¬ Old s t) ∧
        ∀ t ∈ cellsOf e.resp.outs, ∀ e' ∈ pre, t ∉ e'.req.cells ∧ t ∉ cellsOf e'.resp.outs := by
  intro h
  induction h with
  | nil => intro st s _ _ _ _ pre e post heq; simp [runHist] at heq
  | cons op h ih =>
    intro st s hinv hacc hg hfo pre e post heq
    have hg' : ∀ g, HOp.upd g ∈ h → ∀ s, (Inv s → Inv (g s)) ∧ ∀ t, Old s t → Old (g s) t :=
      fun g hm => hg g (List.mem_cons_of_mem _ hm)
    have hacc' : ∀ r, HOp.req r ∈ h → r.isAcc = true := fun r hr => hacc r (List.mem_cons_of_mem _ hr)
    cases op with
    | ext f => exact ih (f st) s hinv hacc' hg' hfo pre e post heq
    | upd g =>
      have hgg := hg g (List.mem_cons_self ..) s
      obtain ⟨i1, i2, i3⟩ := ih st (g s) (hgg.1 hinv) hacc' hg' hfo pre e post heq
      exact ⟨i1, fun t ht ho => i2 t ht (hgg.2 t ho), i3⟩
    | req r =>
      have hr : r.isAcc = true := hacc r (List.mem_cons_self ..)
      simp only [runHist] at heq
      simp only [FilledOld] at hfo
      cases pre with
      | nil =>
        simp only [List.nil_append, List.cons.injEq] at heq
        obtain ⟨rfl, _⟩ := heq
        exact ⟨hF.nodup st s r hinv hr, fun t ht => (hF.fresh st s r hinv hr t ht).1,
          by intro t _ e' he'; simp at he'⟩
      | cons e0 pre' =>
        simp only [List.cons_append, List.cons.injEq] at heq
        obtain ⟨he0, heq⟩ := heq
        obtain ⟨i1, i2, i3⟩ := ih (ops.act st s r).1 (ops.act st s r).2.1 (hF.inv st s r hinv) hacc' hg' hfo.2
          pre' e post heq
        refine ⟨i1, fun t ht ho => i2 t ht (hF.mono st s r t hinv ho), ?_⟩
        intro t ht e' he'
        rcases List.mem_cons.mp he' with rfl | he'
        · subst he0
          exact ⟨fun hmem => i2 t ht (hF.mono st s r t hinv (hfo.1 t hmem)),
            fun hmem => i2 t ht (hF.fresh st s r hinv hr t hmem).2⟩
        · exact i3 t ht e' he'

/-! ## `Split` of accumulators -/

/-- a branch after an invocation: same number, same element, the allocation counter has not decreased -/
def BrStep (b b' : Branch HSt Skel Value) : Prop := b'.id = b.id ∧ b'.ops = b.ops ∧ b.st.ctr ≤ b'.st.ctr

theorem BrStep.refl (b : Branch HSt Skel Value) : BrStep b b := ⟨rfl, rfl, Nat.le_refl _⟩

/-- the branches of a `Split` after an invocation, one by one -/
inductive BrSteps : List (Branch HSt Skel Value) → List (Branch HSt Skel Value) → Prop
  | nil : BrSteps [] []
  | cons {a b : Branch HSt Skel Value} {l m : List (Branch HSt Skel Value)} : BrStep a b → BrSteps l m →
      BrSteps (a :: l) (b :: m)

theorem forall2_brstep_refl : ∀ l : List (Branch HSt Skel Value), BrSteps l l
  | [] => .nil
  | b :: l => .cons (BrStep.refl b) (forall2_brstep_refl l)

/-- the branches of a `Split` have different numbers and allocate what they yield -/
def SplitInv (z : ZSt) : Prop :=
  (z.brs.map (·.id)).Nodup ∧ ∀ b ∈ z.brs, FreshYield b.ops (ownNs b.id) (fun s : HSt => s.ctr)

/-- the object exists: it is not one that a branch of the `Split` is going to allocate -/
def SplitOld (z : ZSt) (t : Tok) : Prop := ∀ b ∈ z.brs, t.1 = ownNs b.id → t.2 < b.st.ctr

theorem forall2_mem_right : ∀ {l₁ l₂ : List (Branch HSt Skel Value)}, BrSteps l₁ l₂ →
    ∀ b' ∈ l₂, ∃ b ∈ l₁, BrStep b b'
  | _, _, .nil, b', hb' => by simp at hb'
  | _, _, .cons (a := a) h1 h2, b', hb' => by
    rcases List.mem_cons.mp hb' with rfl | hb'
    · exact ⟨a, List.mem_cons_self .., h1⟩
    · obtain ⟨b, hb, hr⟩ := forall2_mem_right h2 b' hb'
      exact ⟨b, List.mem_cons_of_mem _ hb, hr⟩

theorem brstep_ids : ∀ {l₁ l₂ : List (Branch HSt Skel Value)}, BrSteps l₁ l₂ →
    l₂.map (·.id) = l₁.map (·.id)
  | _, _, .nil => rfl
  | _, _, .cons h1 h2 => by simp [h1.1, brstep_ids h2]

theorem splitInv_step (z z' : ZSt) (h : BrSteps z.brs z'.brs) (hi : SplitInv z) : SplitInv z' := by
  refine ⟨by rw [brstep_ids h]; exact hi.1, ?_⟩
  intro b' hb'
  obtain ⟨b, hb, h1, h2, _⟩ := forall2_mem_right h b' hb'
  rw [h1, h2]
  exact hi.2 b hb

theorem splitOld_step (z z' : ZSt) (h : BrSteps z.brs z'.brs) (t : Tok) (ho : SplitOld z t) :
    SplitOld z' t := by
  intro b' hb' hns
  obtain ⟨b, hb, h1, _, h3⟩ := forall2_mem_right h b' hb'
  exact Nat.lt_of_lt_of_le (ho b hb (by rw [← h1]; exact hns)) h3

theorem fillOne_brstep (copied : Bool) (x : HItem) (w : World Value) (b : Branch HSt Skel Value)
    (hb : FreshYield b.ops (ownNs b.id) (fun s : HSt => s.ctr)) : BrStep b (fillOne copied x w b).2.2.1 :=
  ⟨rfl, rfl, hb.mono _ _ _⟩

theorem splitFill_brstep (cb : Bool) (x : HItem) : ∀ (brs : List (Branch HSt Skel Value)) (w : World Value),
    (∀ b ∈ brs, FreshYield b.ops (ownNs b.id) (fun s : HSt => s.ctr)) →
    BrSteps brs (splitFill cb x w brs).brs := by
  intro brs
  induction brs with
  | nil => intro w _; exact .nil
  | cons b rest ih =>
    intro w hF
    have h1 := fillOne_brstep (cb && !rest.isEmpty) x w b (hF b (List.mem_cons_self ..))
    simp only [splitFill]
    split
    · exact .cons h1 (forall2_brstep_refl rest)
    · exact .cons h1 (ih _ (fun b' hb' => hF b' (List.mem_cons_of_mem _ hb')))

/-- `Split._compute` / `_request` consumed by a caller: the branches afterwards, and what was yielded -/
theorem splitPull_spec (req : Req Skel) (hreq : req.isAcc = true) :
    ∀ (brs : List (Branch HSt Skel Value)) (st : Store Value),
      (∀ b ∈ brs, FreshYield b.ops (ownNs b.id) (fun s : HSt => s.ctr)) → (brs.map (·.id)).Nodup →
      BrSteps brs (splitPull req st brs).brs ∧
      (cellsOf (splitPull req st brs).vals).Nodup ∧
      ∀ t ∈ cellsOf (splitPull req st brs).vals, ∃ b ∈ brs, t.1 = ownNs b.id ∧ b.st.ctr ≤ t.2 ∧
        ∀ b' ∈ (splitPull req st brs).brs, b'.id = b.id → t.2 < b'.st.ctr := by
  intro brs
  induction brs with
  | nil => intro st _ _; exact ⟨.nil, by simp [splitPull, cellsOf], by simp [splitPull, cellsOf]⟩
  | cons b rest ih =>
    intro st hF hnd
    rw [List.map_cons, List.nodup_cons] at hnd
    have hb := hF b (List.mem_cons_self ..)
    have hb1 : BrStep b { b with st := (b.ops.act st b.st req).2.1 } := ⟨rfl, rfl, hb.mono _ _ _⟩
    obtain ⟨i1, i2, i3⟩ := ih (b.ops.act st b.st req).1 (fun b' hb' => hF b' (List.mem_cons_of_mem _ hb')) hnd.2
    simp only [splitPull]
    split
    · exact ⟨.cons hb1 (forall2_brstep_refl rest), by simp [cellsOf], by simp [cellsOf]⟩
    · refine ⟨.cons hb1 i1, ?_, ?_⟩
      · rw [cellsOf_append, List.nodup_append]
        refine ⟨hb.nodup st b.st req hreq, i2, ?_⟩
        intro t ht t' ht' heq
        subst heq
        obtain ⟨b', hb', hns, _⟩ := i3 t ht'
        have h1 := (hb.fresh st b.st req hreq t ht).1
        have : b.id = b'.id := ((ns_facts b.id b'.id).1).mp (by rw [← h1, hns])
        exact hnd.1 (by rw [this]; exact List.mem_map_of_mem hb')
      · intro t ht
        rw [cellsOf_append] at ht
        rcases List.mem_append.mp ht with ht | ht
        · obtain ⟨g1, g2, g3⟩ := hb.fresh st b.st req hreq t ht
          refine ⟨b, List.mem_cons_self .., g1, g2, ?_⟩
          intro b' hb' hid
          rcases List.mem_cons.mp hb' with rfl | hb'
          · exact g3
          · obtain ⟨b0, hb0, h0, _⟩ := forall2_mem_right i1 b' hb'
            exact absurd (by rw [← hid, h0]; exact List.mem_map_of_mem hb0) hnd.1
        · obtain ⟨b0, hb0, g1, g2, g3⟩ := i3 t ht
          refine ⟨b0, List.mem_cons_of_mem _ hb0, g1, g2, ?_⟩
          intro b' hb' hid
          rcases List.mem_cons.mp hb' with rfl | hb'
          · exact absurd (by rw [show b.id = b0.id from hid]; exact List.mem_map_of_mem hb0) hnd.1
          · exact g3 b' hb' hid

/-- **`Split([accumulator, …])` through its common-type methods is an accumulator that allocates what it
yields**, in the namespaces of its branches -/
theorem splitAccOps_freshYieldG : FreshYieldG splitAccOps SplitInv SplitOld := by
  have hstep : ∀ st (z : ZSt) (r : Req Skel), SplitInv z → BrSteps z.brs (splitAccOps.act st z r).2.1.brs := by
    intro st z r hi
    cases r with
    | fill x => exact splitFill_brstep true x z.brs _ hi.2
    | compute =>
      have := (splitPull_spec .compute rfl z.brs st hi.2 hi.1).1
      simp only [splitAccOps, splitAccAct]
      split <;> exact this
    | request =>
      have := (splitPull_spec .request rfl z.brs st hi.2 hi.1).1
      simp only [splitAccOps, splitAccAct]
      split <;> exact this
    | call => exact forall2_brstep_refl _
    | run buf => exact forall2_brstep_refl _
  have hout : ∀ st (z : ZSt) (r : Req Skel), SplitInv z → r.isAcc = true →
      (cellsOf (splitAccOps.act st z r).2.2.outs).Nodup ∧
      ∀ t ∈ cellsOf (splitAccOps.act st z r).2.2.outs, ¬ SplitOld z t ∧ SplitOld (splitAccOps.act st z r).2.1 t := by
    intro st z r hi hr
    have gen : ∀ req : Req Skel, req.isAcc = true → (req = .compute ∨ req = .request) →
        (cellsOf (splitAccOps.act st z req).2.2.outs).Nodup ∧
        ∀ t ∈ cellsOf (splitAccOps.act st z req).2.2.outs,
          ¬ SplitOld z t ∧ SplitOld (splitAccOps.act st z req).2.1 t := by
      intro req hreq hcr
      obtain ⟨p1, p2, p3⟩ := splitPull_spec req hreq z.brs st hi.2 hi.1
      have hact : (splitAccOps.act st z req).2.2.outs = [] ∨
          ((splitAccOps.act st z req).2.2.outs = (splitPull req st z.brs).vals ∧
            (splitAccOps.act st z req).2.1.brs = (splitPull req st z.brs).brs) := by
        rcases hcr with rfl | rfl <;> simp only [splitAccOps, splitAccAct] <;> split <;> simp
      rcases hact with h0 | ⟨h1, h2⟩
      · rw [h0]; simp [cellsOf]
      · rw [h1]
        refine ⟨p2, ?_⟩
        intro t ht
        obtain ⟨b, hb, g1, g2, g3⟩ := p3 t ht
        refine ⟨fun ho => ?_, ?_⟩
        · have := ho b hb g1; omega
        · intro b' hb' hns
          rw [h2] at hb'
          exact g3 b' hb' (((ns_facts b'.id b.id).1).mp (by rw [← hns, g1]))
    cases r with
    | fill x => simp [splitAccOps, splitAccAct, cellsOf]
    | compute => exact gen .compute rfl (Or.inl rfl)
    | request => exact gen .request rfl (Or.inr rfl)
    | call => simp [Req.isAcc] at hr
    | run buf => simp [Req.isAcc] at hr
  exact ⟨fun st z r hi => splitInv_step z _ (hstep st z r hi) hi,
    fun st z r t hi ho => splitOld_step z _ (hstep st z r hi) t ho,
    fun st z r hi hr => (hout st z r hi hr).2, fun st z r hi hr => (hout st z r hi hr).1⟩

end Lena.C04
